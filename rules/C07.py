"""C07 — every request sample reaches the metrics store exactly once (DESIGN.md section 4, C07).

Two local engines (candidates for sa/): `_Expand` analyses a routine together with the helper methods it calls (structural copy with the helper bodies in place),
`_Interp` evaluates extracted routines on representative values and records the calls of unmodelled callees as effects (statement-level extension of sa/minieval).
`_Interp` also follows generated constructors (dataclasses, typing.NamedTuple), contextlib.suppress, functools.partial, itertools.islice / chain, lets a rule's model of an
unmodelled object raise (`_QueueModel`: the sampler's queue with Empty / Full), remembers the loops it had to skip (`_require_loops_modelled`: a verdict that depends on
such a loop is 'not recognised') and the exception a routine ended with (`raised`)."""
from __future__ import annotations

import ast

from sa import source
from sa.cfg import cfg_of
from sa.source import AnchorMissing, arg_of, dotted, is_self_attr, last_attr, local_defs, params_of, short, u, walk_body

_D = "esrally/driver/driver.py"
_M = "esrally/metrics.py"
_R = "esrally/racecontrol.py"


# =====================================================================================================================================================
# Local engine 1: a routine analysed TOGETHER with the helper methods it calls.
# `_Expand(mod, cls).function(f)` returns a structural copy of method f (source positions and module kept, so sites / CFG / guards work as on the original)
# in which calls of helper methods of the same class are replaced by the helper's body: `self.h(a, b)` as a statement, `x = self.h(..)`, `return self.h(..)`,
# and - for helpers that consist of one `return E` - anywhere in an expression. An "extract method" refactoring is thereby invisible to the rules that
# work on the expanded copy. Only helpers all of whose returns are in tail position are expanded (after N8 every guard clause is an if/else, so that is the
# common case); anything else stays a call.

_KEEP_ATTRS = ("lineno", "col_offset", "end_lineno", "end_col_offset", "_module", "_synthetic_arm", "_from_constant")


def _copy(n):
    """structural copy of an AST (no parent links are followed, positions / module / normalisation marks are kept)."""
    if isinstance(n, list):
        return [_copy(x) for x in n]
    if not isinstance(n, ast.AST):
        return n
    new = type(n)()
    for f in n._fields:
        if hasattr(n, f):
            setattr(new, f, _copy(getattr(n, f)))
    for a in _KEEP_ATTRS:
        if hasattr(n, a):
            setattr(new, a, getattr(n, a))
    return new


def _at(new, old):
    """new node placed where old is (positions + module)."""
    for x in ast.walk(new):
        for a in ("lineno", "col_offset", "end_lineno", "end_col_offset", "_module"):
            if not hasattr(x, a) and hasattr(old, a):
                setattr(x, a, getattr(old, a))
    return new


def _simple(e):
    """an argument that can be substituted for a parameter without changing what is evaluated: names, attribute chains, literals."""
    return all(isinstance(x, (ast.Name, ast.Attribute, ast.Constant, ast.Load)) for x in ast.walk(e))


def _tail_only(stmts):
    """every `return` of the statement list is in tail position (so that dropping it / turning it into an assignment keeps the control flow)."""
    for i, s in enumerate(stmts):
        last = i == len(stmts) - 1
        if isinstance(s, ast.Return):
            if not last:
                return False
        elif last and isinstance(s, ast.If):
            if not (_tail_only(s.body) and _tail_only(s.orelse)):
                return False
        elif last and isinstance(s, (ast.With, ast.AsyncWith)):
            if not _tail_only(s.body):
                return False
        elif any(isinstance(x, ast.Return) for x in source.walk_local(s)):
            return False
    return True


class _Expand:
    def __init__(self, mod, cls, keep=(), depth=4):
        self.mod, self.cls = mod, cls
        self.methods = mod.methods(cls)
        self.keep = set(keep)
        self.depth = depth
        self.inlined = set()  # names of the helpers that were expanded somewhere
        self._k = 0

    def function(self, f):
        new = _copy(f)
        self.names = {x.id for x in ast.walk(f) if isinstance(x, ast.Name)} | {a.arg for a in ast.walk(f) if isinstance(a, ast.arg)}
        ps = params_of(f)
        self.selfname = ps[0] if ps else None
        new.body = self._block(new.body, (f.name,), self.depth)
        source.set_parents(new)
        new._parent = source.parent(f)
        new._expanded_from = f
        return new

    # -- which calls are helper calls -----------------------------------------------------------------------------------------------------------------
    def _helper(self, call, stack):
        if not (isinstance(call, ast.Call) and isinstance(call.func, ast.Attribute) and isinstance(call.func.value, ast.Name) and call.func.value.id == self.selfname):
            return None
        h = self.methods.get(call.func.attr)
        if h is None or h.name in self.keep or h.name in stack or h.decorator_list or h.args.vararg or h.args.kwarg:
            return None
        if any(isinstance(a, ast.Starred) for a in call.args) or any(k.arg is None for k in call.keywords):
            return None
        if any(isinstance(x, (ast.Yield, ast.YieldFrom, ast.Global, ast.Nonlocal)) for x in walk_body(h)):
            return None
        hp = set(params_of(h)) | {a.arg for a in h.args.kwonlyargs}
        if any(isinstance(x, ast.arg) and x.arg in hp for st in h.body for x in ast.walk(st)):  # a nested scope re-binds a parameter name
            return None
        return h

    def _bind(self, h, call):
        """parameter -> argument expression (defaults for the parameters the call leaves out); None if some parameter stays unbound."""
        b = source.bind_args(call, h)
        ps = params_of(h)[1:]
        for p, d in zip(reversed(ps), reversed(h.args.defaults)):
            b.setdefault(p, d)
        for a, d in zip(h.args.kwonlyargs, h.args.kw_defaults):
            if d is not None:
                b.setdefault(a.arg, d)
        want = ps + [a.arg for a in h.args.kwonlyargs]
        if any(p not in b for p in want) or len(call.args) > len(ps):
            return None
        return b

    def _instantiate(self, h, call, nodes, stmt_level):
        """copies of `nodes` (statements or one expression of helper h) with parameters replaced by the arguments of `call` and clashing locals renamed.
        Returns (assignments to run first, copies) or None."""
        b = self._bind(h, call)
        if b is None:
            return None
        stored = {x.id for st in h.body for x in ast.walk(st) if isinstance(x, ast.Name) and isinstance(x.ctx, (ast.Store, ast.Del))}
        loads = {}
        for st in nodes:
            for x in ast.walk(st):
                if isinstance(x, ast.Name) and isinstance(x.ctx, ast.Load):
                    loads[x.id] = loads.get(x.id, 0) + 1
        subst, rename, pre = {}, {}, []
        self._k += 1
        for p, a in b.items():
            if p not in stored and (_simple(a) or (not stmt_level and loads.get(p, 0) <= 1)):
                subst[p] = a
            elif stmt_level:
                fresh = p if p not in self.names else f"{p}__{h.name}{self._k}"
                self.names.add(fresh)
                rename[p] = fresh
                pre.append(_at(ast.Assign(targets=[ast.Name(id=fresh, ctx=ast.Store())], value=_copy(a)), call))
            else:
                return None
        for nm in stored - set(b):
            if nm in self.names:
                rename[nm] = f"{nm}__{h.name}{self._k}"
            self.names.add(rename.get(nm, nm))
        hs = params_of(h)[0]
        if hs != self.selfname:
            rename[hs] = self.selfname

        class S(ast.NodeTransformer):
            def visit_Name(self, n):
                if isinstance(n.ctx, ast.Load) and n.id in subst:
                    return _copy(subst[n.id])
                if n.id in rename:
                    return _at(ast.Name(id=rename[n.id], ctx=n.ctx), n)
                return n

        return pre, [S().visit(_copy(st)) for st in nodes]

    @staticmethod
    def _body(h):
        b = h.body
        return b[1:] if b and isinstance(b[0], ast.Expr) and isinstance(b[0].value, ast.Constant) and isinstance(b[0].value.value, str) else b

    # -- expression level: helpers that are one `return E` ----------------------------------------------------------------------------------------------
    def _expr(self, e, stack, depth):
        if e is None or depth <= 0:
            return e
        me = self

        class X(ast.NodeTransformer):
            def visit_Lambda(self, n):
                return n

            def visit_Call(self, n):
                self.generic_visit(n)
                h = me._helper(n, stack)
                if h is None or isinstance(h, ast.AsyncFunctionDef):
                    return n
                body = me._body(h)
                if not (len(body) == 1 and isinstance(body[0], ast.Return) and body[0].value is not None):
                    return n
                r = me._instantiate(h, n, [body[0].value], stmt_level=False)
                if r is None:
                    return n
                me.inlined.add(h.name)
                return me._expr(r[1][0], stack + (h.name,), depth - 1)

        return X().visit(e)

    # -- statement level ----------------------------------------------------------------------------------------------------------------------------------
    def _block(self, stmts, stack, depth):
        out = []
        for s in stmts:
            out += self._stmt(s, stack, depth)
        return out or [ast.Pass(lineno=0, col_offset=0, end_lineno=0, end_col_offset=0)]

    def _rewrite_returns(self, stmts, mode, targets):
        """tail returns of an expanded body: dropped (mode 'expr'), turned into the caller's assignment (mode 'assign') or kept (mode 'return')."""
        if mode == "return" or not stmts:
            return stmts
        last = stmts[-1]
        if isinstance(last, ast.Return):
            if mode == "assign":
                new = [_at(ast.Assign(targets=_copy(targets), value=last.value if last.value is not None else ast.Constant(value=None)), last)]
            else:
                new = [_at(ast.Expr(value=last.value), last)] if last.value is not None and any(isinstance(x, (ast.Call, ast.Await)) for x in ast.walk(last.value)) else []
            return stmts[:-1] + (new or ([] if stmts[:-1] else [_at(ast.Pass(), last)]))
        if isinstance(last, ast.If):
            last.body = self._rewrite_returns(last.body, mode, targets) or [_at(ast.Pass(), last)]
            if last.orelse:
                last.orelse = self._rewrite_returns(last.orelse, mode, targets)
        elif isinstance(last, (ast.With, ast.AsyncWith)):
            last.body = self._rewrite_returns(last.body, mode, targets) or [_at(ast.Pass(), last)]
        return stmts

    def _stmt(self, s, stack, depth):
        # headers / simple statements: expression-level helpers first
        if isinstance(s, (ast.FunctionDef, ast.AsyncFunctionDef, ast.ClassDef)):
            return [s]
        for fld in ("value", "test", "iter", "subject", "exc", "msg"):
            v = getattr(s, fld, None)
            if isinstance(v, ast.AST):
                setattr(s, fld, self._expr(v, stack, depth))
        if isinstance(s, (ast.With, ast.AsyncWith)):
            for it in s.items:
                it.context_expr = self._expr(it.context_expr, stack, depth)
        # a whole-statement helper call
        if depth > 0 and isinstance(s, (ast.Expr, ast.Assign, ast.Return)) and s.value is not None:
            call = s.value.value if isinstance(s.value, ast.Await) else s.value
            h = self._helper(call, stack)
            if h is not None and isinstance(h, ast.AsyncFunctionDef) == isinstance(s.value, ast.Await):
                body = self._body(h)
                mode = "expr" if isinstance(s, ast.Expr) else "assign" if isinstance(s, ast.Assign) else "return"
                valued = any(isinstance(x, ast.Return) and x.value is not None for st in body for x in source.walk_local(st))
                if _tail_only(body) and (mode == "expr" or source._terminates(body) or not valued):
                    r = self._instantiate(h, call, body, stmt_level=True)
                    if r is not None:
                        pre, new = r
                        self.inlined.add(h.name)
                        falls = not source._terminates(new)
                        new = self._rewrite_returns(new, mode, s.targets if mode == "assign" else None)
                        if falls and mode == "assign":
                            new = new + [_at(ast.Assign(targets=_copy(s.targets), value=ast.Constant(value=None)), s)]
                        elif falls and mode == "return":
                            new = new + [_at(ast.Return(value=None), s)]
                        return pre + self._block(new, stack + (h.name,), depth - 1)
        for fld in ("body", "orelse", "finalbody"):
            b = getattr(s, fld, None)
            if isinstance(b, list) and b and isinstance(b[0], ast.stmt):
                setattr(s, fld, self._block(b, stack, depth))
        if isinstance(s, ast.Try):
            for hd in s.handlers:
                hd.body = self._block(hd.body, stack, depth)
        if isinstance(s, ast.Match):
            for c in s.cases:
                c.body = self._block(c.body, stack, depth)
        return [s]


# =====================================================================================================================================================
# Local engine 2: evaluation of EXTRACTED routines on representative values (in the spirit of sa/minieval, extended to statements).
# Nothing of the repository is imported or run: the evaluator walks the parsed source. Values are Python literals / lists / dicts, `_O` objects with named
# fields (their methods and properties are looked up in the parsed class and evaluated the same way) and `_T` terms: results of calls / attributes the
# evaluator does not model (clock reads, loggers, the metrics store, unit conversion ...), compared structurally. Every call of such an unmodelled callee is
# recorded as an EFFECT (dotted path, argument values, the loop elements it ran under). A branch on an unknown value is explored both ways (`_explore`);
# whatever cannot be evaluated raises `_Undecided` - the obligation is then "not recognised", never falsified.
# Helper extraction, loop vs comprehension, enumerate vs index arithmetic, keyword vs positional arguments, renamed locals / parameters and table
# dispatch all evaluate to the same effects, which is the point.


class _Undecided(Exception):
    pass


class _Need(Exception):
    """a branch on an unknown value that the current decision sequence does not cover"""


class _Ret(Exception):
    def __init__(self, v):
        self.v = v


class _Brk(Exception):
    pass


class _Cnt(Exception):
    pass


class _Raised(Exception):
    def __init__(self, v):
        self.v = v


class _T:
    """uninterpreted value; structural equality"""

    def __init__(self, op, *args):
        self.op, self.args = op, args

    def path(self):
        if self.op in ("global", "obj"):
            return str(self.args[0])
        if self.op == "attr":
            b = self.args[0].path() if isinstance(self.args[0], _T) else (self.args[0].name if isinstance(self.args[0], _O) else None)
            return None if b is None else f"{b}.{self.args[1]}"
        return None

    def __eq__(self, o):
        return isinstance(o, _T) and self.op == o.op and len(self.args) == len(o.args) and all(_same(a, b) for a, b in zip(self.args, o.args))

    def __hash__(self):
        return hash(self.op)

    def __repr__(self):
        p = self.path()
        if p:
            return f"<{p}>"
        if self.op == "call":
            return f"{self.args[0]!r}({', '.join(repr(a) for a in self.args[1])})"
        return f"<{self.op} {', '.join(repr(a)[:40] for a in self.args)}>"


def _same(a, b):
    if isinstance(a, (_T, _O)) or isinstance(b, (_T, _O)):
        return a is b or (isinstance(a, _T) and isinstance(b, _T) and a == b)
    if isinstance(a, (list, tuple)) and isinstance(b, (list, tuple)):
        return type(a) is type(b) and len(a) == len(b) and all(_same(x, y) for x, y in zip(a, b))
    if isinstance(a, dict) and isinstance(b, dict):
        return a.keys() == b.keys() and all(_same(a[k], b[k]) for k in a)
    return type(a) is type(b) and a == b or (isinstance(a, (int, float)) and isinstance(b, (int, float)) and not isinstance(a, bool) and not isinstance(b, bool) and a == b)


class _O:
    """an object with named fields; cls / mod: the parsed class its methods and properties are looked up in (optional)"""

    def __init__(self, _name, _cls=None, _mod=None, _on_read=None, **fields):
        self.name, self.cls, self.mod, self.f, self.on_read = _name, _cls, _mod, dict(fields), dict(_on_read or {})

    def __repr__(self):
        return f"<{self.name}>"


class _Fn:
    def __init__(self, node, mod, bound=None, env=None):
        self.node, self.mod, self.bound, self.env = node, mod, bound, env


class _Cls:
    def __init__(self, node, mod):
        self.node, self.mod = node, mod


class _PyM:
    def __init__(self, recv, name):
        self.recv, self.name = recv, name


class _Partial:
    """functools.partial(f, *args, **kwargs), evaluated: calling it calls f"""

    def __init__(self, f, args, kwargs):
        self.f, self.args, self.kwargs = f, list(args), dict(kwargs)


class _Eff:
    def __init__(self, path, args, kwargs, ctx, node, state):
        self.path, self.args, self.kwargs, self.ctx, self.node, self.state = path, args, kwargs, ctx, node, state
        self.name = path.rsplit(".", 1)[-1] if path else ""
        self.callee = None  # the term that was called (None: a named object)


_PY_METHODS = {
    list: {"append", "extend", "insert", "pop", "clear", "copy", "index", "count", "reverse", "remove"},
    dict: {"get", "items", "keys", "values", "update", "pop", "setdefault", "copy", "clear"},
    str: {"join", "split", "startswith", "endswith", "lower", "upper", "strip", "lstrip", "rstrip", "replace", "format"},
    tuple: {"index", "count"},
    set: {"add", "update", "discard", "remove", "copy", "clear"},
}
_BUILTINS = {"len": len, "range": range, "list": list, "dict": dict, "tuple": tuple, "set": set, "sorted": sorted, "min": min, "max": max, "sum": sum, "abs": abs,
             "round": round, "int": int, "float": float, "bool": bool, "reversed": lambda x: list(reversed(x)), "any": any, "all": all}
_BIN = {ast.Add: lambda a, b: a + b, ast.Sub: lambda a, b: a - b, ast.Mult: lambda a, b: a * b, ast.Div: lambda a, b: a / b, ast.FloorDiv: lambda a, b: a // b,
        ast.Mod: lambda a, b: a % b, ast.Pow: lambda a, b: a ** b, ast.BitOr: lambda a, b: a | b, ast.BitAnd: lambda a, b: a & b, ast.LShift: lambda a, b: a << b, ast.RShift: lambda a, b: a >> b}
_CMPS = {ast.Eq: lambda a, b: a == b, ast.NotEq: lambda a, b: a != b, ast.Lt: lambda a, b: a < b, ast.LtE: lambda a, b: a <= b, ast.Gt: lambda a, b: a > b, ast.GtE: lambda a, b: a >= b}


class _DefaultDict(dict):
    """collections.defaultdict(factory) where a rule models it (see _tp_run): a missing key is answered by evaluating the factory"""

    def __init__(self, make):
        super().__init__()
        self.make = make

    def __missing__(self, k):
        self[k] = self.make()
        return self[k]


def _opaque(v):
    return isinstance(v, (_T, _O, _Fn, _Cls, _PyM, _Partial))


class _Interp:
    def __init__(self, mods, oracle=()):
        self.mods = list(mods)
        self.oracle, self.taken, self.memo = list(oracle), 0, {}
        self.effects, self.ctx, self.steps, self.depth = [], [], 0, 0
        self.modstack = []
        self.watch = None  # optional callable() -> state recorded with every effect
        self.opaque = set()  # names of classes whose instances are not modelled (their method calls are effects)
        self.model = None  # optional callable(path, args, kwargs) -> value the rule supplies for an unmodelled call (NotImplemented: none)
        self.frames = [[]]  # per statement in execution (one per active routine and enclosing compound statement): the objects whose fields its own expressions read
        self.skipped = []  # (loop, value of its iterable) of the loops that were skipped because the evaluator does not model the collection
        self.eager_generators, self.yields = False, []  # see call_fn
        self.raised = None  # the exception value with which the outermost evaluated routine ended (it is reported as _Undecided; a rule that ASKS whether the routine raises reads this)

    # -- decisions on unknown values ---------------------------------------------------------------------------------------------------------------
    def truth(self, v):
        if isinstance(v, _T):
            k = repr(v)
            if k not in self.memo:
                if self.taken >= len(self.oracle):
                    raise _Need()
                self.memo[k] = self.oracle[self.taken]
                self.taken += 1
            return self.memo[k]
        if isinstance(v, (_O, _Fn, _Cls, _PyM, _Partial)):
            return True
        return bool(v)

    # -- names -------------------------------------------------------------------------------------------------------------------------------------------
    def lookup(self, name, env):
        e = env
        while e is not None:
            if name in e["v"]:
                return e["v"][name]
            e = e["up"]
        for m in ([self.modstack[-1]] if self.modstack else []) + self.mods:
            for st in m.tree.body:
                if isinstance(st, ast.ClassDef) and st.name == name:
                    return _Cls(st, m)
                if isinstance(st, source.FUNC_TYPES) and st.name == name:
                    return _Fn(st, m)
        if name in _BUILTINS or name in ("enumerate", "zip", "isinstance", "getattr", "hasattr", "str", "print", "iter", "next", "map", "filter", "type", "id", "repr"):
            return _T("builtin", name)
        return _T("global", name)

    def class_attr(self, cls, mod, name, seen=None):
        """function / class-level assignment `name` of the parsed class (bases by name in the known modules)."""
        for st in cls.body:
            if isinstance(st, source.FUNC_TYPES) and st.name == name:
                return st, mod
        for b in cls.bases:
            bn = last_attr(b)
            for m in [mod] + self.mods:
                for st in m.tree.body:
                    if isinstance(st, ast.ClassDef) and st.name == bn and st is not cls:
                        r = self.class_attr(st, m, name)
                        if r is not None:
                            return r
        return None

    # -- expressions -----------------------------------------------------------------------------------------------------------------------------------
    def ev(self, e, env):
        self.steps += 1
        if self.steps > 400000:
            raise _Undecided("evaluation budget exhausted")
        m = getattr(self, "e_" + type(e).__name__, None)
        if m is None:
            raise _Undecided(f"expression {type(e).__name__}: {short(e, 60)}")
        return m(e, env)

    def e_Constant(self, e, env):
        return e.value

    def e_Name(self, e, env):
        return self.lookup(e.id, env)

    def e_Yield(self, e, env):
        if not getattr(self, "yields", None):
            raise _Undecided("yield outside a generator that is evaluated eagerly")
        self.yields[-1].append(None if e.value is None else self.ev(e.value, env))
        return None

    def e_Await(self, e, env):
        return self.ev(e.value, env)

    def e_NamedExpr(self, e, env):
        v = self.ev(e.value, env)
        env["v"][e.target.id] = v
        return v

    def e_Attribute(self, e, env):
        return self.getattr(self.ev(e.value, env), e.attr)

    def getattr(self, v, a):
        if isinstance(v, _O):
            self.frames[-1].append(v)
            if a in v.on_read:
                return v.on_read[a]()
            if a in v.f:
                return v.f[a]
            if v.cls is not None:
                r = self.class_attr(v.cls, v.mod, a)
                if r is not None:
                    fn, mod = r
                    decos = [dotted(d) or "" for d in fn.decorator_list]
                    if "property" in decos:
                        return self.call_fn(_Fn(fn, mod, v), [], {}, fn)
                    if "staticmethod" in decos:
                        return _Fn(fn, mod)
                    return _Fn(fn, mod, v)
            return _T("attr", v, a)
        if isinstance(v, _T):
            return _T("attr", v, a)
        if isinstance(v, _Cls):
            r = self.class_attr(v.node, v.mod, a)
            if r is not None:
                return _Fn(r[0], r[1])
            for st in v.node.body:
                if isinstance(st, ast.Assign) and any(isinstance(t, ast.Name) and t.id == a for t in st.targets):
                    return self.ev(st.value, {"v": {}, "up": None})
            return _T("attr", _T("global", v.node.name), a)
        for ty, names in _PY_METHODS.items():
            if isinstance(v, ty) and a in names:
                return _PyM(v, a)
        raise _Undecided(f"attribute {a} of {type(v).__name__}")

    def e_Subscript(self, e, env):
        v = self.ev(e.value, env)
        if isinstance(e.slice, ast.Slice):
            parts = [None if p is None else self.ev(p, env) for p in (e.slice.lower, e.slice.upper, e.slice.step)]
            if isinstance(v, _T) or any(_opaque(p) for p in parts):
                return _T("slice", v, *parts)
            try:
                return v[slice(*parts)]
            except Exception as x:
                raise _Undecided(f"{short(e, 50)}: {type(x).__name__}")
        k = self.ev(e.slice, env)
        if isinstance(v, dict) and isinstance(k, _O) and (k in v or isinstance(v, _DefaultDict)):  # a representative object used as a key (objects hash by identity)
            return v[k]
        if isinstance(v, _T) or _opaque(k):
            return _T("item", v, k)
        try:
            return v[k]
        except Exception as x:
            raise _Undecided(f"{short(e, 50)}: {type(x).__name__}")

    def e_List(self, e, env):
        out = []
        for x in e.elts:
            if isinstance(x, ast.Starred):
                out += list(self.iterate(self.ev(x.value, env), x))
            else:
                out.append(self.ev(x, env))
        return out

    def e_Tuple(self, e, env):
        return tuple(self.e_List(e, env))

    def e_Set(self, e, env):
        try:
            return set(self.e_List(e, env))
        except TypeError:
            raise _Undecided("unhashable set element")

    def e_Dict(self, e, env):
        out = {}
        for k, v in zip(e.keys, e.values):
            if k is None:
                d = self.ev(v, env)
                if not isinstance(d, dict):
                    raise _Undecided("** of an unknown value in a dict display")
                out.update(d)
            else:
                kk = self.ev(k, env)
                try:
                    out[kk] = self.ev(v, env)
                except TypeError:
                    raise _Undecided("unhashable key")
        return out

    def e_JoinedStr(self, e, env):
        parts = []
        for v in e.values:
            if isinstance(v, ast.Constant):
                parts.append(str(v.value))
            else:
                x = self.ev(v.value, env)
                if _opaque(x) or v.format_spec is not None or v.conversion != -1:
                    return _T("fstring", *[self.ev(p.value, env) if isinstance(p, ast.FormattedValue) else p.value for p in e.values])
                parts.append(str(x))
        return "".join(parts)

    def e_Lambda(self, e, env):
        return _Fn(e, self.modstack[-1] if self.modstack else None, None, env)

    def e_IfExp(self, e, env):
        return self.ev(e.body if self.truth(self.ev(e.test, env)) else e.orelse, env)

    def e_BoolOp(self, e, env):
        v = None
        for i, x in enumerate(e.values):
            v = self.ev(x, env)
            if i == len(e.values) - 1:
                return v  # the last operand is the value of the expression whatever its truth: no decision is needed
            t = self.truth(v)
            if (isinstance(e.op, ast.And) and not t) or (isinstance(e.op, ast.Or) and t):
                return v
        return v

    def e_UnaryOp(self, e, env):
        v = self.ev(e.operand, env)
        if isinstance(e.op, ast.Not):
            return _T("not", v) if isinstance(v, _T) else not self.truth(v)
        if _opaque(v):
            return _T("unary", type(e.op).__name__, v)
        return -v if isinstance(e.op, ast.USub) else +v if isinstance(e.op, ast.UAdd) else ~v

    def e_BinOp(self, e, env):
        a, b = self.ev(e.left, env), self.ev(e.right, env)
        if isinstance(e.op, ast.Mod) and isinstance(a, str):
            bb = b if isinstance(b, tuple) else (b,)
            if any(_opaque(x) for x in bb):
                return _T("format", a, *bb)
        if _opaque(a) or _opaque(b):
            return _T("bin", type(e.op).__name__, a, b)
        try:
            return _BIN[type(e.op)](a, b)
        except Exception as x:
            raise _Undecided(f"{short(e, 50)}: {type(x).__name__}")

    def e_Compare(self, e, env):
        left = self.ev(e.left, env)
        res = True
        for op, c in zip(e.ops, e.comparators):
            right = self.ev(c, env)
            r = self.compare(op, left, right)
            if isinstance(r, _T):
                if len(e.ops) > 1:
                    raise _Undecided("chained comparison of unknown values")
                return r
            if not r:
                return False
            left = right
        return res

    def compare(self, op, a, b):
        if isinstance(op, (ast.Is, ast.IsNot)):
            if isinstance(a, _T) or isinstance(b, _T):
                r = _T("cmp", "Is", a, b)
                return r if isinstance(op, ast.Is) else _T("not", r)
            r = a is b or (a is None and b is None) or (isinstance(a, bool) and isinstance(b, bool) and a == b)
            return r if isinstance(op, ast.Is) else not r
        if isinstance(op, (ast.In, ast.NotIn)):
            if isinstance(b, _T) or (isinstance(a, _T) and not isinstance(b, (list, tuple))):
                r = _T("cmp", "In", a, b)
                return r if isinstance(op, ast.In) else _T("not", r)
            try:
                r = any(_same(a, x) for x in b) if isinstance(b, (list, tuple)) else a in b
            except TypeError:
                raise _Undecided("membership test")
            return r if isinstance(op, ast.In) else not r
        if isinstance(a, _T) or isinstance(b, _T):
            if isinstance(op, (ast.Eq, ast.NotEq)) and isinstance(a, _T) and isinstance(b, _T) and a == b:
                return isinstance(op, ast.Eq)
            return _T("cmp", type(op).__name__, a, b)
        if isinstance(a, (_O, _Fn, _Cls)) or isinstance(b, (_O, _Fn, _Cls)):
            if isinstance(op, (ast.Eq, ast.NotEq)):
                return (a is b) == isinstance(op, ast.Eq)
            raise _Undecided("ordering of objects")
        try:
            return _CMPS[type(op)](a, b)
        except Exception as x:
            raise _Undecided(f"comparison: {type(x).__name__}")

    def comp(self, e, env, emit):
        def rec(i, en):
            if i == len(e.generators):
                emit(en)
                return
            g = e.generators[i]
            elems = self.iterate(self.ev(g.iter, en), g.iter)
            if elems is None:
                raise _Undecided(f"comprehension over a collection that is not modelled: {short(g.iter, 50)}")
            for x in elems:
                e2 = {"v": {}, "up": en}
                self.assign(g.target, x, e2)
                self.ctx.append(x)
                try:
                    if all(self.truth(self.ev(c, e2)) for c in g.ifs):
                        rec(i + 1, e2)
                finally:
                    self.ctx.pop()

        rec(0, {"v": {}, "up": env})

    def e_ListComp(self, e, env):
        out = []
        self.comp(e, env, lambda en: out.append(self.ev(e.elt, en)))
        return out

    e_GeneratorExp = e_ListComp

    def e_SetComp(self, e, env):
        try:
            return set(self.e_ListComp(e, env))
        except TypeError:
            raise _Undecided("unhashable set element")

    def e_DictComp(self, e, env):
        out = {}
        self.comp(e, env, lambda en: out.__setitem__(self.ev(e.key, en), self.ev(e.value, en)))
        return out

    def iterate(self, v, node):
        if isinstance(v, _T):
            return None
        if isinstance(v, dict):
            return list(v.keys())
        if isinstance(v, (list, tuple, set, range, str)):
            return list(v)
        raise _Undecided(f"iteration over {type(v).__name__}")

    # -- calls -----------------------------------------------------------------------------------------------------------------------------------------------
    def e_Call(self, e, env):
        f = self.ev(e.func, env)
        args, kwargs = [], {}
        for a in e.args:
            if isinstance(a, ast.Starred):
                it = self.iterate(self.ev(a.value, env), a)
                if it is None:
                    raise _Undecided("* of an unknown value")
                args += it
            else:
                args.append(self.ev(a, env))
        for k in e.keywords:
            if k.arg is None:
                d = self.ev(k.value, env)
                if not isinstance(d, dict):
                    raise _Undecided("** of an unknown value")
                kwargs.update(d)
            else:
                kwargs[k.arg] = self.ev(k.value, env)
        return self.call(f, args, kwargs, e)

    def call(self, f, args, kwargs, node):
        if self.depth == 0:  # outermost call: whatever the evaluator cannot cope with is 'not recognised', never an error of the check and never a verdict
            self.depth = 1
            try:
                return self.call(f, args, kwargs, node)
            except (_Undecided, _Need):
                raise
            except _Raised as x:
                self.raised = x
                raise _Undecided(f"the evaluated routine raises {x.v!r}")
            except (_Ret, _Brk, _Cnt):
                raise _Undecided("jump outside a routine")
            except RecursionError:
                raise _Undecided("recursion")
            except Exception as x:  # noqa: BLE001
                raise _Undecided(f"evaluator: {type(x).__name__}: {x}")
            finally:
                self.depth = 0
        if isinstance(f, _Fn):
            return self.call_fn(f, args, kwargs, node)
        if isinstance(f, _Cls):
            if f.node.name in self.opaque:
                return _O(f.node.name)
            o = _O(f.node.name, f.node, f.mod)
            init = self.class_attr(f.node, f.mod, "__init__")
            if init is not None:
                self.call_fn(_Fn(init[0], init[1], o), args, kwargs, node)
            else:
                flds = self.record_fields(f.node, f.mod)
                if flds is not None:
                    self.init_record(o, flds, args, kwargs, f.mod)
            return o
        if isinstance(f, _PyM):
            try:
                r = getattr(f.recv, f.name)(*args, **kwargs)
            except (KeyError, IndexError, ValueError, TypeError, AttributeError) as x:
                raise _Undecided(f"{f.name}: {type(x).__name__}")
            return list(r) if f.name in ("items", "keys", "values") else r
        if isinstance(f, _O):
            r = self.class_attr(f.cls, f.mod, "__call__") if f.cls is not None else None
            if r is not None:
                return self.call_fn(_Fn(r[0], r[1], f), args, kwargs, node)
            return self.effect(f.name, args, kwargs, node)
        if isinstance(f, _T) and f.op == "builtin":
            return self.builtin(f.args[0], args, kwargs, node)
        if isinstance(f, _Partial):
            return self.call(f.f, f.args + list(args), {**f.kwargs, **kwargs}, node)
        if isinstance(f, _T) and (f.path() or "") in ("functools.partial", "partial") and args:
            return _Partial(args[0], args[1:], kwargs)
        if isinstance(f, _T) and (f.path() or "") in ("itertools.islice", "islice", "itertools.chain", "chain", "itertools.chain.from_iterable", "chain.from_iterable") and not kwargs \
                and args and not isinstance(args[0], _T):
            import itertools
            name = f.path().rsplit(".", 1)[-1]
            if name == "islice" and not any(_opaque(a) for a in args[1:]):
                try:
                    return list(itertools.islice(self.iterate(args[0], node), *args[1:]))
                except (TypeError, ValueError) as x:
                    raise _Undecided(f"islice: {type(x).__name__}")
            if name in ("chain", "from_iterable"):
                parts = [self.iterate(a, node) for a in (args if name == "chain" else self.iterate(args[0], node))]
                if all(p_ is not None for p_ in parts):
                    return [x for p_ in parts for x in p_]
        if isinstance(f, _T):
            r = self.effect(f.path() or repr(f), args, kwargs, node, f)
            if self.model is not None:
                m = self.model(f.path() or "", args, kwargs)
                if m is not NotImplemented:
                    return m
            return r
        raise _Undecided(f"call of a {type(f).__name__}")

    # -- classes whose constructor is GENERATED from their annotated class-level names (dataclasses, typing.NamedTuple) -----------------------------------------
    def record_fields(self, cls, mod, depth=0):
        """[(field, default expression or None, is a constructor parameter, module)] in constructor order (fields of record base classes first), or None if the class is
        not a record class / its constructor is not the generated one."""
        deco = [d for d in cls.decorator_list if (dotted(d.func if isinstance(d, ast.Call) else d) or "").rsplit(".", 1)[-1] == "dataclass"]
        named = any((dotted(b) or "").rsplit(".", 1)[-1] == "NamedTuple" for b in cls.bases)
        if not deco and not named:
            return None
        if any(isinstance(d, ast.Call) and any(k.arg == "init" and source.is_const(k.value, False) for k in d.keywords) for d in deco):
            return None
        out = []
        if depth < 6:
            for b in cls.bases:
                bn = last_attr(b)
                for m in [mod] + self.mods:
                    base = next((st for st in m.tree.body if isinstance(st, ast.ClassDef) and st.name == bn and st is not cls), None)
                    if base is not None:
                        out += [x for x in (self.record_fields(base, m, depth + 1) or []) if x[0] not in {y[0] for y in out}]
                        break
        annotated = self.annotated_names(cls, mod)
        for st in cls.body:
            # (parse-time normalisation N7 has turned `x: T = v` into `x = v`: which class-level names are annotated - i.e. fields - is read off the class's own source text)
            if isinstance(st, ast.AnnAssign) and isinstance(st.target, ast.Name) and st.target.id in annotated:
                name, default = st.target.id, st.value
            elif isinstance(st, ast.Assign) and len(st.targets) == 1 and isinstance(st.targets[0], ast.Name) and st.targets[0].id in annotated:
                name, default = st.targets[0].id, st.value
            else:
                continue
            is_param = True
            if isinstance(default, ast.Call) and (dotted(default.func) or "").rsplit(".", 1)[-1] == "field":
                kw = {k.arg: k.value for k in default.keywords}
                is_param = not source.is_const(kw.get("init"), False) if "init" in kw else True
                default = kw["default"] if "default" in kw else (ast.Call(func=kw["default_factory"], args=[], keywords=[]) if "default_factory" in kw else None)
            out = [x for x in out if x[0] != name] + [(name, default, is_param, mod)]
        return out

    @staticmethod
    def annotated_names(cls, mod):
        """the class-level names of the parsed class that carry an annotation other than ClassVar (the fields of a record class), from the class's source text"""
        import textwrap
        try:
            raw = ast.parse(textwrap.dedent("\n".join(mod.text.splitlines()[cls.lineno - 1: cls.end_lineno])))
        except (SyntaxError, AttributeError, TypeError):
            raise _Undecided(f"source text of class {cls.name}")
        body = raw.body[0].body if raw.body and isinstance(raw.body[0], ast.ClassDef) else []
        return {st.target.id for st in body if isinstance(st, ast.AnnAssign) and isinstance(st.target, ast.Name) and "ClassVar" not in u(st.annotation)}

    def init_record(self, o, flds, args, kwargs, mod):
        params = [x for x in flds if x[2]]
        if len(args) > len(params):
            raise _Undecided(f"too many arguments for the generated constructor of {o.name}")
        vals = {x[0]: v for x, v in zip(params, args)}
        for k, v in kwargs.items():
            if k in vals or k not in {x[0] for x in params}:
                raise _Undecided(f"argument {k} of the generated constructor of {o.name}")
            vals[k] = v
        for name, default, _, fmod in flds:
            if name not in vals:
                if default is None:
                    raise _Undecided(f"field {name} of {o.name} not bound")
                self.modstack.append(fmod)
                try:
                    vals[name] = self.ev(default, {"v": {}, "up": None})
                finally:
                    self.modstack.pop()
            o.f[name] = vals[name]
        post = self.class_attr(o.cls, o.mod, "__post_init__")
        if post is not None:
            self.call_fn(_Fn(post[0], post[1], o), [], {}, post[0])

    def effect(self, path, args, kwargs, node, f=None):
        ef = _Eff(path, list(args), dict(kwargs), tuple(self.ctx), node, self.watch() if self.watch else None)
        ef.reads = [o for fr in self.frames[1:] for o in fr]
        ef.callee = f
        self.effects.append(ef)
        return _T("call", f if f is not None else _T("global", path), tuple(args) + tuple(sorted(kwargs.items(), key=lambda kv: kv[0])))

    def builtin(self, name, args, kwargs, node):
        if name == "isinstance" and len(args) == 2:
            o, c = args
            if isinstance(c, _T) and c.op == "builtin" and not _opaque(o):
                return isinstance(o, _BUILTINS[c.args[0]]) if isinstance(_BUILTINS.get(c.args[0]), type) else _T("call", _T("builtin", name), tuple(args))
            if isinstance(o, _O) and isinstance(c, _Cls) and o.cls is not None:
                return o.cls is c.node or c.node.name in [last_attr(b) for b in o.cls.bases]
            return _T("call", _T("builtin", name), tuple(args))
        if name in ("getattr", "hasattr") and len(args) >= 2 and isinstance(args[0], _O) and isinstance(args[1], str):
            o, a = args[0], args[1]
            has = a in o.f or a in o.on_read or (o.cls is not None and self.class_attr(o.cls, o.mod, a) is not None)
            if name == "hasattr":
                return has
            return self.getattr(o, a) if has or len(args) < 3 else args[2]
        if name == "enumerate" and args and not isinstance(args[0], _T):
            it = self.iterate(args[0], node)
            st = kwargs.get("start", args[1] if len(args) > 1 else 0)
            if not _opaque(st):
                return [(st + i, x) for i, x in enumerate(it)]
        if name == "zip" and all(not isinstance(a, _T) for a in args):
            return [tuple(t) for t in zip(*[self.iterate(a, node) for a in args])]
        if name in ("map", "filter") and len(args) == 2 and not isinstance(args[1], _T):
            vals = [(x, self.call(args[0], [x], {}, node)) for x in self.iterate(args[1], node)]
            return [r for _, r in vals] if name == "map" else [x for x, r in vals if self.truth(r)]
        if name == "str" and len(args) == 1 and isinstance(args[0], (int, float, str, bool, type(None))):
            return str(args[0])
        if name == "print":
            return None
        if name == "dict" and kwargs and not any(isinstance(a, (_T, _Fn, _Cls, _PyM, _O, _Partial)) for a in args):
            try:
                return dict(*args, **kwargs)
            except (TypeError, ValueError) as x:
                raise _Undecided(f"dict(): {type(x).__name__}")
        fn = _BUILTINS.get(name)
        if fn is not None and not kwargs and not any(isinstance(a, (_T, _Fn, _Cls, _PyM)) for a in args) and not (name in ("sorted", "min", "max", "sum", "int", "float", "abs", "round")
                                                                                                           and any(_opaque(x) for a in args for x in (a if isinstance(a, (list, tuple, set)) else [a]))):
            try:
                r = fn(*args)
            except Exception as x:
                raise _Undecided(f"{name}(): {type(x).__name__}")
            return list(r) if isinstance(r, range) else r
        return _T("call", _T("builtin", name), tuple(args))

    def call_fn(self, f, args, kwargs, node):
        fn = f.node
        self.depth += 1
        if self.depth > 25:
            raise _Undecided("call depth")
        try:
            a = fn.args
            names = [x.arg for x in a.posonlyargs + a.args]
            vals = {}
            args = ([f.bound] if f.bound is not None else []) + list(args)
            if len(args) > len(names) and a.vararg is None:
                raise _Undecided(f"too many arguments for {getattr(fn, 'name', 'lambda')}")
            for n_, v in zip(names, args):
                vals[n_] = v
            if a.vararg is not None:
                vals[a.vararg.arg] = tuple(args[len(names):])
            extra = {}
            for k, v in kwargs.items():
                if k in names or k in [x.arg for x in a.kwonlyargs]:
                    if k in vals:
                        raise _Undecided(f"parameter {k} bound twice")
                    vals[k] = v
                elif a.kwarg is not None:
                    extra[k] = v
                else:
                    raise _Undecided(f"unexpected keyword {k} for {getattr(fn, 'name', 'lambda')}")
            if a.kwarg is not None:
                vals[a.kwarg.arg] = extra
            denv = {"v": {}, "up": None}
            for n_, d in zip(reversed(names), reversed(a.defaults)):
                if n_ not in vals:
                    vals[n_] = self.ev(d, denv)
            for x, d in zip(a.kwonlyargs, a.kw_defaults):
                if x.arg not in vals and d is not None:
                    vals[x.arg] = self.ev(d, denv)
            missing = [n_ for n_ in names + [x.arg for x in a.kwonlyargs] if n_ not in vals]
            if missing:
                raise _Undecided(f"parameter(s) {missing} of {getattr(fn, 'name', 'lambda')} not bound")
            env = {"v": vals, "up": f.env}
            self.modstack.append(f.mod if f.mod is not None else (self.modstack[-1] if self.modstack else self.mods[0]))
            try:
                if isinstance(fn, ast.Lambda):
                    return self.ev(fn.body, env)
                if any(isinstance(x, (ast.Yield, ast.YieldFrom)) for x in walk_body(fn)):
                    if not getattr(self, "eager_generators", False) or any(isinstance(x, ast.YieldFrom) for x in walk_body(fn)):
                        return _T("call", _T("global", fn.name), tuple(args))
                    # a rule that only asks WHAT a generator hands out (not when) evaluates it where it is created: the list of the yielded values
                    self.yields.append([])
                    try:
                        try:
                            self.run(fn.body, env)
                        except _Ret:
                            pass
                        return list(self.yields[-1])
                    finally:
                        self.yields.pop()
                try:
                    self.run(fn.body, env)
                except _Ret as r:
                    return r.v
                return None
            finally:
                self.modstack.pop()
        finally:
            self.depth -= 1

    # -- statements --------------------------------------------------------------------------------------------------------------------------------------------
    def run(self, stmts, env):
        for s in stmts:
            self.steps += 1
            m = getattr(self, "s_" + type(s).__name__, None)
            if m is None:
                raise _Undecided(f"statement {type(s).__name__} at line {getattr(s, 'lineno', '?')}")
            self.frames.append([])
            try:
                m(s, env)
            finally:
                self.frames.pop()

    def s_Expr(self, s, env):
        self.ev(s.value, env)

    def s_Pass(self, s, env):
        pass

    s_Assert = s_Import = s_ImportFrom = s_Global = s_Nonlocal = s_Pass

    def s_Return(self, s, env):
        raise _Ret(self.ev(s.value, env) if s.value is not None else None)

    def s_Break(self, s, env):
        raise _Brk()

    def s_Continue(self, s, env):
        raise _Cnt()

    def s_Raise(self, s, env):
        raise _Raised(self.ev(s.exc, env) if s.exc is not None else None)

    def s_FunctionDef(self, s, env):
        env["v"][s.name] = _Fn(s, self.modstack[-1] if self.modstack else None, None, env)

    s_AsyncFunctionDef = s_FunctionDef

    def s_Delete(self, s, env):
        for t in s.targets:
            if isinstance(t, ast.Name):
                env["v"].pop(t.id, None)
            elif isinstance(t, ast.Subscript):
                c, k = self.ev(t.value, env), self.ev(t.slice, env)
                if isinstance(c, (dict, list)) and not _opaque(k):
                    try:
                        del c[k]
                    except (KeyError, IndexError, TypeError):
                        raise _Undecided("del of a missing item")
            elif isinstance(t, ast.Attribute):
                o = self.ev(t.value, env)
                if isinstance(o, _O):
                    o.f.pop(t.attr, None)

    def assign(self, t, v, env):
        if isinstance(t, ast.Name):
            env["v"][t.id] = v
        elif isinstance(t, (ast.Tuple, ast.List)):
            if isinstance(v, _T):
                for i, x in enumerate(t.elts):
                    self.assign(x.value if isinstance(x, ast.Starred) else x, _T("item", v, i), env)
                return
            vals = self.iterate(v, t)
            if any(isinstance(x, ast.Starred) for x in t.elts) or len(vals) != len(t.elts):
                raise _Undecided("unpacking")
            for x, y in zip(t.elts, vals):
                self.assign(x, y, env)
        elif isinstance(t, ast.Attribute):
            o = self.ev(t.value, env)
            if isinstance(o, _O):
                o.f[t.attr] = v
            elif not isinstance(o, _T):
                raise _Undecided(f"attribute store on {type(o).__name__}")
        elif isinstance(t, ast.Subscript):
            c = self.ev(t.value, env)
            if isinstance(c, _T):
                return
            k = self.ev(t.slice, env) if not isinstance(t.slice, ast.Slice) else None
            if k is None or not isinstance(c, (list, dict)):
                raise _Undecided("subscript store")
            try:
                c[k] = v
            except Exception as x:
                raise _Undecided(f"subscript store: {type(x).__name__}")
        else:
            raise _Undecided(f"assignment target {type(t).__name__}")

    def s_Assign(self, s, env):
        v = self.ev(s.value, env)
        for t in s.targets:
            self.assign(t, v, env)

    def s_AnnAssign(self, s, env):
        if s.value is not None:
            self.assign(s.target, self.ev(s.value, env), env)

    def s_AugAssign(self, s, env):
        load = _copy(s.target)
        load.ctx = ast.Load()
        cur, v = self.ev(load, env), self.ev(s.value, env)
        if isinstance(cur, list) and isinstance(s.op, ast.Add) and not isinstance(v, _T):
            cur.extend(self.iterate(v, s))  # in place, as Python does
            return
        if _opaque(cur) or _opaque(v):
            new = _T("bin", type(s.op).__name__, cur, v)
        else:
            try:
                new = _BIN[type(s.op)](cur, v)
            except Exception as x:
                raise _Undecided(f"{short(s, 50)}: {type(x).__name__}")
        self.assign(s.target, new, env)

    def s_If(self, s, env):
        self.run(s.body if self.truth(self.ev(s.test, env)) else s.orelse, env)

    def s_While(self, s, env):
        n = 0
        while self.truth(self.ev(s.test, env)):
            n += 1
            if n > 200000:
                raise _Undecided("loop bound")
            try:
                self.run(s.body, env)
            except _Brk:
                return
            except _Cnt:
                continue
        self.run(s.orelse, env)

    def s_For(self, s, env):
        v = self.ev(s.iter, env)
        it = self.iterate(v, s.iter)
        if it is None:
            self.skipped.append((s, v))  # a loop over a collection the evaluator does not model (e.g. what an unmodelled call returned) is skipped - and remembered: a rule
            return                       # whose verdict depends on what such a loop would have done must answer 'not recognised' (see _require_loops_modelled)
        for x in it:
            self.assign(s.target, x, env)
            self.ctx.append(x)
            try:
                self.run(s.body, env)
            except _Brk:
                return
            except _Cnt:
                continue
            finally:
                self.ctx.pop()
        self.run(s.orelse, env)

    s_AsyncFor = s_For

    @staticmethod
    def exc_name(v):
        """last name component of a raised value / an exception class expression that was evaluated (class, instance, unmodelled global, call of one)"""
        if isinstance(v, _Cls):
            return v.node.name
        if isinstance(v, _O):
            return v.name
        if isinstance(v, _T):
            if v.op == "call" and isinstance(v.args[0], _T):
                v = v.args[0]
            if v.op == "builtin":
                return str(v.args[0])
            return (v.path() or "").rsplit(".", 1)[-1] or None
        return None

    @staticmethod
    def catches(names, rn):
        return any(n_ is None or n_ in ("Exception", "BaseException") or (rn is not None and n_ == rn) for n_ in names)

    def s_With(self, s, env):
        suppressed = []
        for it in s.items:
            v = self.ev(it.context_expr, env)
            if isinstance(v, _T) and v.op == "call" and isinstance(v.args[0], _T) and (v.args[0].path() or "").rsplit(".", 1)[-1] == "suppress":
                suppressed += [self.exc_name(a) or "?" for a in v.args[1]]  # contextlib.suppress(E, ...): the body ends silently at the first E
            if it.optional_vars is not None:
                self.assign(it.optional_vars, v if isinstance(v, _T) else _T("entered", v), env)
        try:
            self.run(s.body, env)
        except _Raised as r:
            if not (suppressed and self.catches(suppressed, self.exc_name(r.v))):
                raise

    s_AsyncWith = s_With

    def s_Try(self, s, env):
        try:
            try:
                self.run(s.body, env)
            except _Raised as r:
                for h in s.handlers:
                    names = [last_attr(t) for t in (h.type.elts if isinstance(h.type, ast.Tuple) else [h.type])] if h.type is not None else [None]
                    if self.catches(names, self.exc_name(r.v)):
                        if h.name:
                            env["v"][h.name] = r.v
                        self.run(h.body, env)
                        break
                else:
                    raise
            else:
                self.run(s.orelse, env)
        finally:
            if s.finalbody:
                self.run(s.finalbody, env)


def _has_call_of(v, paths, depth=0):
    """the term v contains the result of an (unmodelled) call of one of the callees `paths`"""
    if depth > 10:
        return False
    if isinstance(v, _T):
        if v.op == "call" and isinstance(v.args[0], _T) and (v.args[0].path() or repr(v.args[0])) in paths:
            return True
        return any(_has_call_of(a, paths, depth + 1) for a in v.args)
    if isinstance(v, (list, tuple)):
        return any(_has_call_of(a, paths, depth + 1) for a in v)
    return False


def _require_loops_modelled(it, inputs, explained=()):
    """'not recognised' if the evaluation skipped a loop whose collection is computed from one of `inputs` (so that what the loop does with them is not known), unless the
    collection is what one of the callees `explained` returned (the rule accounts for those calls itself)."""
    for loop, v in it.skipped:
        if any(_mentions(v, x) for x in inputs if x is not None) and not _has_call_of(v, set(explained)):
            raise _Undecided(f"the loop `for ... in {short(loop.iter, 50)}` at line {getattr(loop, 'lineno', '?')} runs over a collection that is not modelled")


def _explore(make, limit=48):
    """runs make(interp) for every sequence of decisions on unknown branch conditions; returns [(interp, result)]. make must build its inputs afresh on every call."""
    out, todo = [], [[]]
    while todo:
        o = todo.pop()
        it = make(o)
        try:
            res = it[1]()
        except _Need:
            todo += [o + [True], o + [False]]
            if len(todo) + len(out) > limit:
                raise _Undecided("too many undecided branches")
            continue
        out.append((it[0], res))
    return out


def _alias_defs(f):
    """local_defs(f) plus the names that are bound exactly once in f, by an assignment expression (`(fut := self.future) is not None and fut.done()`)"""
    d = dict(local_defs(f))
    stores = {}
    for n in walk_body(f):
        if isinstance(n, ast.Name) and isinstance(n.ctx, ast.Store):
            stores[n.id] = stores.get(n.id, 0) + 1
    for n in walk_body(f):
        if isinstance(n, ast.NamedExpr) and isinstance(n.target, ast.Name) and stores.get(n.target.id) == 1:
            d[n.target.id] = n.value
    return d


class _NoWalrus(ast.NodeTransformer):
    """`(x := E)` reads like E (for matching facts in a test; the binding itself is accounted for by _alias_defs)"""

    def visit_NamedExpr(self, n):
        return self.visit(n.value)


class _SamplerFlow:
    """Abstract interpretation of the Worker actor over two facts, interprocedural over its own methods (handlers -> drive() -> drive()):
         R  the load-generator thread may (still) be running, i.e. may add samples to the sampler it was given (1), none has been started since the step began (0),
            or its completion has been observed (2);
         U  the worker's current sampler may hold samples that no drain has read.
       Events (all located by role, none by local name):
         drain    a read of the DRAINING property of the sampler attribute (the attribute that is assigned an instance of a class of the module, read through one of that class's properties):
                  U := R  (a drain that runs while the executor may still add samples protects nothing: whatever is added afterwards is undrained again)
         submit   the pool call whose result becomes the future attribute: R := 1, U := 1
         finished `<future>.result()` / `<future>.exception()` returned, or the branch facts `<future>.done()` / `<future> is None` hold: R := 2 (observed)
         no sampler   branch fact `not <sampler>`: U := 0;   start-of-step flag (the one-shot flag the wake-up handler consumes before it drives on): R := 0, U := 0 - the flag is
                  raised by the driver's Drive message, which is sent when every worker waits at the join point, where this worker has dropped its sampler
         write    an assignment to the sampler attribute: the OLD sampler becomes unreachable - the obligation is that U == 0 in every state that reaches it.
       Every handler starts in the worst state (R=1, U=1: a message may arrive while the executor runs) except the handlers that receive what an executor is built from (they
       necessarily precede the first executor: R=0, U=0). A state also remembers the last drain that ran while R was still 1 (for the diagnosis)."""

    def __init__(self, drv, W):
        self.drv = drv
        self.wm = drv.methods(W)
        # the sampler attribute: assigned an instance of a class of this module one of whose properties the worker reads through that attribute (the draining property; that every
        # read of it empties the queue and returns all of it is O7.1, that the ship routine sends what it read is O7.2)
        props = {c.name: {f.name for f in drv.methods(c).values() if any((dotted(d) or "") == "property" for d in f.decorator_list)} for c in drv.classes()}
        reads = {}
        for f in self.wm.values():
            for x in walk_body(f):
                if isinstance(x, ast.Attribute) and isinstance(x.ctx, ast.Load) and is_self_attr(x.value):
                    reads.setdefault(x.value.attr, set()).add(x.attr)
        self.sampler = self.prop = self.future = None
        self.submits = []
        # (the attributes are identified on copies of the methods in which helper methods are expanded: `self.x = self._launch(executor)` reads like the pool call it returns)
        for f in [_Expand(drv, W).function(f_) for f_ in self.wm.values()]:
            defs = local_defs(f)
            for n in walk_body(f):
                if not (isinstance(n, ast.Assign) and len(n.targets) == 1 and is_self_attr(n.targets[0])):
                    continue
                v = defs.get(n.value.id, n.value) if isinstance(n.value, ast.Name) else n.value
                if isinstance(v, ast.Call):
                    hit = sorted(props.get(last_attr(v.func), set()) & reads.get(n.targets[0].attr, set()))
                    if hit:
                        self.sampler, self.prop = n.targets[0].attr, hit[0]
                    if last_attr(v.func) == "submit":
                        self.future = n.targets[0].attr
                        self.submits.append(v)
        if self.sampler is None:
            raise AnchorMissing("Worker attribute that is assigned a sampler (instance of a class whose property the worker reads through it)")
        if self.future is None:
            raise AnchorMissing("Worker attribute that is assigned the future of the submitted executor")
        # what the executor is built from: self attributes among the arguments of the submitted callable's constructor
        self.exec_inputs = set()
        for s in self.submits:
            f = source.enclosing_func(s)
            defs = local_defs(f)
            for a in s.args[:1]:
                a = defs.get(a.id, a) if isinstance(a, ast.Name) else a
                self.exec_inputs |= {x.attr for x in ast.walk(a) if is_self_attr(x) and x.attr != self.sampler}
        if not self.exec_inputs:
            raise AnchorMissing("what the submitted executor of Worker is built from (attributes of the worker among the arguments of its constructor)")
        self.roots = {n: f for n, f in self.wm.items() if n.startswith("receiveMsg_") or n == "receiveUnrecognizedMessage"}
        self.pre_start = set()
        for n, f in self.roots.items():
            ps = params_of(f)
            mp = ps[1] if len(ps) > 1 else None
            if mp and any(isinstance(a, ast.Assign) and any(is_self_attr(t) and t.attr in self.exec_inputs for t in a.targets) and any(isinstance(x, ast.Name) and x.id == mp for x in ast.walk(a.value))
                          for a in walk_body(f)):
                self.pre_start.add(n)
        # the one-shot start-of-step flag: tested by a timer handler that lowers it in the arm it guards, raised by another handler
        self.flag = None
        from sa import pat
        for f in self.roots.values():
            for n in walk_body(f):
                if isinstance(n, ast.Assign) and len(n.targets) == 1 and is_self_attr(n.targets[0]) and source.is_const(n.value, False):
                    a = n.targets[0].attr
                    if any(is_self_attr(t, a) for t in pat.fact_nodes(n)) and any(
                            isinstance(m, ast.Assign) and any(is_self_attr(t, a) for t in m.targets) and source.is_const(m.value, True) for g in self.roots.values() if g is not f for m in walk_body(g)):
                        self.flag = a
        self.early = []      # drains that ran while the executor could still add samples
        self.summ = {}       # (method, entry state) -> normal-exit states
        self.at_write = {}   # id(write stmt) -> (stmt, {(root, state)})
        self.writes = [n for f in self.wm.values() if f.name != "__init__" for n in walk_body(f) if self._is_write(n)]
        self._active = set()
        self._root = None
        for _ in range(12):
            before = {k: set(v) for k, v in self.summ.items()}
            for n, f in self.roots.items():
                self._root, self._done = n, set()  # summaries are re-derived per handler so that every write records the handler it is reached from
                self._run(f, (0, 0, None) if n in self.pre_start else (1, 1, None))
            if before == self.summ:
                break
        else:
            raise AnchorMissing("sampler-flow analysis of Worker did not reach a fixed point")

    # -- events ----------------------------------------------------------------------------------------------------------------------------
    def _is_write(self, n):
        ts = n.targets if isinstance(n, ast.Assign) else [n.target] if isinstance(n, (ast.AugAssign, ast.AnnAssign)) else []
        return any(is_self_attr(x, self.sampler) and isinstance(x.ctx, ast.Store) for t in ts for x in ast.walk(t))

    def _events(self, node, defs):
        s = node.ast
        if node.kind == "test":
            roots = [s.test] if hasattr(s, "test") else [s.subject]
        elif node.kind == "for":
            roots = [s.iter]
        elif node.kind == "with":
            roots = [i.context_expr for i in s.items]
        elif node.kind == "stmt" and not isinstance(s, (ast.FunctionDef, ast.AsyncFunctionDef, ast.ClassDef)):
            roots = [s]
        else:
            return []

        def post(n):  # evaluation order: operands before the operation they feed (no source positions involved)
            for c in ast.iter_child_nodes(n):
                if not isinstance(c, source.SCOPE_TYPES):
                    yield from post(c)
            yield n

        ev = []
        for r in roots:
            for n in post(r):
                if isinstance(n, ast.Attribute) and isinstance(n.ctx, ast.Load) and n.attr == self.prop and self._is(n.value, self.sampler, defs):
                    ev.append(("drain", n))
                elif isinstance(n, ast.Call) and last_attr(n.func) == "submit" and isinstance(n.func, ast.Attribute):
                    ev.append(("submit", n))
                elif isinstance(n, ast.Call) and isinstance(n.func, ast.Attribute) and n.func.attr in ("result", "exception") and self._is(n.func.value, self.future, defs):
                    ev.append(("finished", n))
                elif isinstance(n, ast.Call) and is_self_attr(n.func) and n.func.attr in self.wm:
                    ev.append(("call", n))
        if node.kind == "stmt" and self._is_write(s):
            ev.append(("write", s))
        return ev

    @staticmethod
    def _is(e, attr, defs):
        """e is self.<attr>, or a single-assignment local that was bound to it."""
        return is_self_attr(e, attr) or (isinstance(e, ast.Name) and e.id in defs and is_self_attr(defs[e.id], attr))

    def _refine(self, st, test, pol, defs):
        """the state on the branch of `test` with polarity pol: atomic facts of the (negated) test."""
        from sa.cfg import conjuncts, negate
        r, un, tag = st
        test = _NoWalrus().visit(source.inline_node(test, defs))  # a test kept in a single-assignment local reads like the test itself
        for f in conjuncts(test if pol else negate(test)):
            if isinstance(f, ast.Call) and isinstance(f.func, ast.Attribute) and f.func.attr == "done" and is_self_attr(f.func.value, self.future):
                r = 2 if r == 1 else r
            elif isinstance(f, ast.Compare) and len(f.ops) == 1 and isinstance(f.ops[0], ast.Is) and is_self_attr(f.left, self.future) and source.is_const(f.comparators[0]) and f.comparators[0].value is None:
                r = 2 if r == 1 else r
            elif isinstance(f, ast.UnaryOp) and isinstance(f.op, ast.Not) and is_self_attr(f.operand, self.sampler):
                un, tag = 0, None
            elif isinstance(f, ast.Compare) and len(f.ops) == 1 and isinstance(f.ops[0], ast.Is) and is_self_attr(f.left, self.sampler) and source.is_const(f.comparators[0]) and f.comparators[0].value is None:
                un, tag = 0, None
            elif self.flag is not None and is_self_attr(f, self.flag):
                r, un, tag = 0, 0, None
        return (r, un, tag)

    def _apply(self, node, states, defs):
        for kind, n in self._events(node, defs):
            out = set()
            for st in states:
                r, un, tag = st
                if kind == "drain":
                    if r == 1:
                        if n not in self.early:
                            self.early.append(n)
                        out.add((1, 1, self.early.index(n)))
                    else:
                        out.add((r, 0, None))
                elif kind == "submit":
                    out.add((1, 1, None))
                elif kind == "finished":
                    out.add((2 if r == 1 else r, un, tag))
                elif kind == "write":
                    self.at_write.setdefault(id(n), (n, set()))[1].add((self._root, st))
                    out.add((r, 1 if r == 1 else 0, None))
                elif kind == "call":
                    for r2, u2, t2 in self._run(self.wm[n.func.attr], st):
                        if t2 is not None and t2 != tag:  # an early drain inside the callee: name this call site in the diagnosis
                            if n not in self.early:
                                self.early.append(n)
                            t2 = self.early.index(n)
                        out.add((r2, u2, t2))
            states = out
        return states

    def _run(self, f, entry):
        """normal-exit states of method f entered in state `entry`. Inside the method a state also carries what is known about single-assignment boolean locals that were computed
        from the future / sampler / flag (`finished = fut is not None and fut.done()` ... `if finished:`): the observation counts from where it was MADE, not from where it is used."""
        from sa.cfg import conjuncts, negate
        k = (f.name, entry)
        if k in self._done or k in self._active:
            return set(self.summ.get(k, ()))
        self._active.add(k)
        g, defs = cfg_of(f), _alias_defs(f)
        inn = {g.entry.id: {(entry, frozenset())}}
        work = [g.entry.id]
        exits = set()
        while work:
            x = work.pop()
            node = g.nodes[x]
            sin = inn.get(x, set())
            if x == g.exit.id:
                exits |= {c for c, _ in sin}
                continue
            if x == g.raise_exit.id:
                continue
            sout = set()
            for facts in {fa for _, fa in sin}:
                sout |= {(c, facts) for c in self._apply(node, {c for c, fa in sin if fa == facts}, defs)}
            s = node.ast
            if node.kind == "stmt" and isinstance(s, ast.Assign) and len(s.targets) == 1 and isinstance(s.targets[0], ast.Name) and defs.get(s.targets[0].id) is s.value:
                forked = set()
                for c, fa in sout:
                    ct, cf = self._refine(c, s.value, True, defs), self._refine(c, s.value, False, defs)
                    forked |= {(c, fa)} if ct == c and cf == c else {(ct, fa | {(s.targets[0].id, True)}), (cf, fa | {(s.targets[0].id, False)})}
                sout = forked
            for y, lab in g.succ[x]:
                if g.normal_edge(x, y, lab):
                    nxt = sout
                    if node.kind == "test" and lab in ("true", "false") and hasattr(s, "test"):
                        pol = lab == "true"
                        atoms = conjuncts(s.test if pol else negate(s.test))
                        contra = {(a.id, False) for a in atoms if isinstance(a, ast.Name)} | {(a.operand.id, True) for a in atoms if isinstance(a, ast.UnaryOp) and isinstance(a.op, ast.Not) and isinstance(a.operand, ast.Name)}
                        nxt = {(self._refine(c, s.test, pol, defs), fa) for c, fa in sout if not (contra & fa)}  # states that contradict a recorded local are infeasible on this branch
                else:
                    nxt = sin | sout  # the statement raised somewhere in the middle
                cur = inn.setdefault(y, set())
                if not nxt <= cur:
                    cur |= nxt
                    work.append(y)
        self._active.discard(k)
        self._done.add(k)
        self.summ[k] = self.summ.get(k, set()) | exits
        return set(self.summ[k])

    # -- results ---------------------------------------------------------------------------------------------------------------------------
    def drainers(self):
        """methods of the worker that read the draining property themselves (the ship routine)."""
        return {n for n, f in self.wm.items() if any(isinstance(x, ast.Attribute) and isinstance(x.ctx, ast.Load) and x.attr == self.prop and is_self_attr(x.value, self.sampler) for x in walk_body(f))}

    def verdict(self, w):
        """(reached, ok, detail) for one write of the sampler attribute."""
        seen = self.at_write.get(id(w), (w, set()))[1]
        bad = sorted(((root, st) for root, st in seen if st[1]), key=lambda x: (x[0], x[1][0], -1 if x[1][2] is None else x[1][2]))
        if not bad:
            return bool(seen), True, ""
        root, (r, _, tag) = bad[0]
        if tag is not None:
            d = self.early[tag]
            why = f"the last drain before it (`{short(source.enclosing_stmt(d), 60)}` in {source.qualname(d)}) runs while the load generator may still add samples; its completion is observed only afterwards"
        else:
            why = "no drain of the old sampler since the load generator could last add samples"
        return True, False, f"reached from {root}" + (" with the load generator possibly still running" if r == 1 else " after the load generator has finished") + f": {why} - the samples queued in between are garbage collected with the old sampler"


def drain_before_drive_rule(chk, rid, drv):
    """Every path on which the worker replaces (or drops) its sampler passes through a drain of the OLD sampler after the last point at which the load generator can add samples
    (shared with C04: one sample per executed request also survives a task switch without a join point). The periodic drain of the wake-up handler does NOT qualify when it runs
    before the handler observes that the executor has finished (F23): the executor can finish - and record its last samples - between that drain and the done() check. Where the
    qualifying drain is written (in drive() right before the replacement, or in the wake-up handler after the done() check) does not matter."""
    W = drv.cls("Worker")
    wk = drv.methods(W).get("receiveMsg_WakeupMessage")
    if wk is None:
        raise AnchorMissing("Worker.receiveMsg_WakeupMessage")
    flow = _flow_of(drv)
    if flow.flag is None:
        raise AnchorMissing("one-shot start-of-step flag consumed by a handler of Worker (raised by another handler)")
    if not flow.writes:
        raise AnchorMissing("assignment to the sampler attribute of Worker outside __init__")
    for w in flow.writes:
        kind = "dropped" if isinstance(w, ast.Assign) and source.is_const(w.value) and w.value.value is None else "replaced"
        reached, ok, detail = flow.verdict(w)
        if not reached:
            chk.unknown(rid, f"the write of the sampler attribute in {source.qualname(w)} is not reached from any handler of Worker", w)
            continue
        chk.ob(rid, f"the sampler is {kind} only after a drain of the old one that follows the last point at which the load generator can add samples", ok, w, detail,
               key=f"{_D}:{source.qualname(w)}:old-sampler-drained-before-it-is-{kind}")
    # non-vacuity: the timer handler does move on to the next row when it OBSERVES that the executor has finished (not only at the start of a step)
    n_live = sum(1 for w in flow.writes for root, st in flow.at_write.get(id(w), (w, ()))[1] if root == wk.name and st[0] == 2 and not (isinstance(w.value, ast.Constant) and w.value.value is None))
    chk.ob(rid, "executor-finished branch located in the wake-up handler", n_live >= 1, wk, f"{n_live} state(s) in which the handler reaches a replacement of the sampler after it observed the completion of the executor")
    return flow


def flush_no_fallible_gap(chk, rid, met):
    """EsMetricsStore.flush: between the acknowledged bulk send and emptying the buffer no other store-client call can run (shared with C17): if such a call raises,
    the already-indexed documents stay buffered and the next flush / close sends them a second time. Roles by evaluation: the buffer is the attribute the add hook appends
    to, the send is the call of flush that receives the buffer, the store client is the receiver of that call."""
    try:
        es = _EsFlush(met)
        sends = es.send_nodes()
    except (_Undecided, _Need) as x:
        chk.unknown(rid, f"EsMetricsStore.flush not evaluated: {x}", met.cls("EsMetricsStore"))
        return
    fl = es.fl
    g = cfg_of(fl)
    bi = [n for n in dict.fromkeys(sends) if n is not None and source.enclosing_func(n) is fl]
    rs = [n for n in walk_body(fl) if isinstance(n, ast.Assign) and any(is_self_attr(t, es.buf) for t in n.targets)]
    site, in_helper = (bi[0] if bi else None), []
    if not bi:
        # the send sits in a helper method that flush calls: its place in flush is the call of that helper; what the helper does on the client after the send counts as 'between'
        for n in dict.fromkeys(sends):
            h = source.enclosing_func(n) if n is not None else None
            calls = [c for c in walk_body(fl) if h is not None and isinstance(c, ast.Call) and is_self_attr(c.func, h.name)]
            if len(calls) == 1 and isinstance(n.func, ast.Attribute):
                bi, site = [n], calls[0]
                hg = cfg_of(h)
                in_helper = [c for c in walk_body(h) if isinstance(c, ast.Call) and isinstance(c.func, ast.Attribute) and u(c.func.value) == u(n.func.value) and c is not n
                             and hg.path_exists(hg.node_of(n), hg.node_of(c), edge_ok=hg.normal_edge)]
                break
    if not bi or not rs or not isinstance(bi[0].func, ast.Attribute):
        raise AnchorMissing("bulk send / buffer reset in EsMetricsStore.flush")
    client = u(bi[0].func.value)
    other = [n for n in walk_body(fl) if isinstance(n, ast.Call) and isinstance(n.func, ast.Attribute) and u(n.func.value) == client and n not in bi]
    bn, rn_ = g.node_of(site), g.node_of(rs[0])
    between = in_helper + [c for c in other if g.path_exists(bn, g.node_of(c), avoid=[rn_], edge_ok=g.normal_edge) and g.path_exists(g.node_of(c), rn_, edge_ok=g.normal_edge)]
    chk.ob(rid, "no other store-client call between the acknowledged bulk send and emptying the buffer", not between, between[0] if between else rs[0],
           "" if not between else f"`{short(between[0], 50)}` runs while the sent documents are still buffered: if it fails they are sent again by the next flush / close",
           key="esrally/metrics.py:EsMetricsStore.flush:fallible-gap")


# =====================================================================================================================================================
# roles (derived from data flow, never from the names of locals / attributes / parameters)


def _modules_mentioning(repo, word):
    """the modules of the package whose text contains `word` (only those are parsed: a whole-package question about one identifier does not need the other fifty files)"""
    return [repo.module(p) for p in repo.package_files() if word in repo.text(p)]


def _calls_named(repo, name):
    """all call sites in the package whose callee's last name component is `name` (who-may-call by method name)"""
    return [n for m in _modules_mentioning(repo, name) for n in ast.walk(m.tree) if isinstance(n, ast.Call) and last_attr(n.func) == name]


def _flow_of(drv):
    f = getattr(drv, "_c07_flow", None)
    if f is None:
        f = drv._c07_flow = _SamplerFlow(drv, drv.cls("Worker"))
    return f


def _is_property(f):
    return any((dotted(d) or "") == "property" for d in f.decorator_list)


def _self_attrs(f):
    return {x.attr for x in walk_body(f) if is_self_attr(x)}


def _holders(drv, cls, attr):
    """names that hold the object kept in <cls>.self.<attr>, followed through constructor / method arguments and `self.x = <param>` stores inside the module:
    ({(class name, attribute)}, {(id(function), parameter)}, {id(function): function})."""
    h_attr, h_par, fns = {(cls.name, attr)}, set(), {}
    classes = {c.name: c for c in drv.classes()}
    changed = True
    while changed:
        changed = False
        for c in drv.classes():
            for f in drv.methods(c).values():
                defs = local_defs(f)

                def holds(e):
                    if isinstance(e, ast.Name) and e.id in defs:
                        e = defs[e.id]
                    return (is_self_attr(e) and (c.name, e.attr) in h_attr) or (isinstance(e, ast.Name) and (id(f), e.id) in h_par)

                for n in walk_body(f):
                    if isinstance(n, ast.Call):
                        callee = None
                        if last_attr(n.func) in classes:
                            callee = drv.methods(classes[last_attr(n.func)]).get("__init__")
                        elif is_self_attr(n.func) and n.func.attr in drv.methods(c):
                            callee = drv.methods(c)[n.func.attr]
                        if callee is not None:
                            for p, a in source.bind_args(n, callee).items():
                                if holds(a) and (id(callee), p) not in h_par:
                                    h_par.add((id(callee), p))
                                    fns[id(callee)] = callee
                                    changed = True
                    elif isinstance(n, ast.Assign) and len(n.targets) == 1 and is_self_attr(n.targets[0]) and holds(n.value) and (c.name, n.targets[0].attr) not in h_attr:
                        h_attr.add((c.name, n.targets[0].attr))
                        changed = True
    return h_attr, h_par, fns


def _rep(n, prefix="s"):
    return [_O(f"{prefix}{i}") for i in range(n)]


def _unknown_reads(v, objs, depth=0):
    """attribute reads of representative objects that the rule has no value for, inside an evaluated value"""
    out = []
    if depth > 8:
        return out
    if isinstance(v, _T):
        if v.op == "attr" and isinstance(v.args[0], _O) and any(v.args[0] is o for o in objs):
            out.append(f"{v.args[0].name}.{v.args[1]}")
        for a in v.args:
            out += _unknown_reads(a, objs, depth + 1)
    elif isinstance(v, (list, tuple)):
        for a in v:
            out += _unknown_reads(a, objs, depth + 1)
    elif isinstance(v, dict):
        for a in v.values():
            out += _unknown_reads(a, objs, depth + 1)
    return out


def _mentions(v, target, depth=0):
    """the evaluated value contains `target` (an object / list, by identity or - for lists - by identical elements)"""
    if v is target or (isinstance(target, list) and isinstance(v, list) and target and len(v) == len(target) and all(a is b for a, b in zip(v, target))):
        return True
    if depth > 8:
        return False
    if isinstance(v, _T):
        return any(_mentions(a, target, depth + 1) for a in v.args)
    if isinstance(v, (list, tuple)):
        return any(_mentions(a, target, depth + 1) for a in v)
    if isinstance(v, dict):
        return any(_mentions(a, target, depth + 1) for a in v.values())
    if isinstance(v, _O):
        return any(_mentions(a, target, depth + 1) for a in v.f.values())
    return False


def _contains_term(v, t, depth=0):
    """the evaluated value contains the term t (structural equality)"""
    if isinstance(v, _T):
        return v == t or (depth < 10 and any(_contains_term(a, t, depth + 1) for a in v.args))
    if isinstance(v, (list, tuple)):
        return depth < 10 and any(_contains_term(a, t, depth + 1) for a in v)
    if isinstance(v, dict):
        return depth < 10 and any(_contains_term(a, t, depth + 1) for a in v.values())
    return False


def _self_attr_terms(v, selfo, depth=0):
    """names of the attributes of `selfo` that were read WITHOUT a representative value inside v (the roles an evaluation with an empty object reveals)"""
    out = []
    if depth > 8:
        return out
    if isinstance(v, _T):
        if v.op == "attr" and v.args[0] is selfo:
            out.append(v.args[1])
        for a in v.args:
            out += _self_attr_terms(a, selfo, depth + 1)
    elif isinstance(v, (list, tuple)):
        for a in v:
            out += _self_attr_terms(a, selfo, depth + 1)
    elif isinstance(v, dict):
        for a in v.values():
            out += _self_attr_terms(a, selfo, depth + 1)
    return out


# ---- O7.1 --------------------------------------------------------------------------------------------------------------------------------------------
def _sampler_roles(drv):
    """(Sampler class, queue attribute, drain function, add function or None, other methods touching the queue)"""
    S = drv.cls("Sampler")
    sm = drv.methods(S)
    qs = sorted({n.targets[0].attr for f in sm.values() for n in walk_body(f) if isinstance(n, ast.Assign) and len(n.targets) == 1 and is_self_attr(n.targets[0])
                 and isinstance(n.value, ast.Call) and (last_attr(n.value.func) or "").endswith("Queue")})
    if len(qs) != 1:
        raise AnchorMissing(f"the queue attribute of Sampler (assigned a ...Queue(...)): found {qs}")
    q = qs[0]
    X = _Expand(drv, S)
    ex = {n: X.function(f) for n, f in sm.items() if n != "__init__"}
    touch = {n: f for n, f in ex.items() if q in _self_attrs(f)}

    def qcalls(f, names):
        return [c for c in walk_body(f) if isinstance(c, ast.Call) and isinstance(c.func, ast.Attribute) and c.func.attr in names and is_self_attr(c.func.value, q)]

    adds = [n for n, f in touch.items() if qcalls(f, ("put_nowait", "put")) and n not in X.inlined]
    flow = _flow_of(drv)
    drains = [n for n in touch if n == flow.prop] or [n for n, f in touch.items() if qcalls(f, ("get_nowait", "get")) and n not in X.inlined]
    if len(drains) != 1:
        raise AnchorMissing(f"the draining routine of Sampler (reads the queue attribute `{q}`; read by the worker): found {drains}")
    rest = [n for n in touch if n not in drains and n not in X.inlined]
    if len(adds) != 1:
        if len(rest) != 1:
            raise AnchorMissing(f"the routine of Sampler that enqueues a sample into `{q}`: found {adds or rest}")
        adds = rest
    return S, q, ex[drains[0]], ex[adds[0]], qcalls


class _QueueModel:
    """The sampler's queue on representative values (the `model` of an evaluation: the queue attribute holds an unmodelled global, the calls on it are answered here):
    get_nowait() / get(False) hand out the oldest pending element or raise queue.Empty, put / put_nowait append (or raise queue.Full when the scenario says the queue is full),
    empty() / qsize() / full() answer from the content. A scenario may let the k-th get / the first put fail with an error that is NOT Empty / Full."""

    NAME = "queue#"

    def __init__(self, items=(), fail_get=None, fail_put=False, full=False):
        self.items, self.head, self.gets, self.handed_out, self.put_calls = list(items), 0, 0, 0, []
        self.fail_get, self.fail_put, self.is_full = fail_get, fail_put, full

    def pending(self):
        return self.items[self.head:]

    def __call__(self, path, args, kwargs):
        if not path.startswith(self.NAME + "."):
            return NotImplemented
        op = path[len(self.NAME) + 1:]
        if op in ("get_nowait", "get"):
            self.gets += 1
            if self.fail_get == self.gets:
                raise _Raised(_T("global", "OSError"))
            if self.head < len(self.items):
                self.head += 1
                self.handed_out += 1
                return self.items[self.head - 1]
            block = (args[0] if args else kwargs.get("block", True)) if op == "get" else False
            timeout = (args[1] if len(args) > 1 else kwargs.get("timeout")) if op == "get" else None
            if _opaque(block) or _opaque(timeout):
                raise _Undecided("get() with an unknown blocking mode")
            if block and timeout is None:
                raise _Undecided("a blocking get() on the empty queue does not return")
            raise _Raised(_T("attr", _T("global", "queue"), "Empty"))
        if op in ("put_nowait", "put"):
            self.put_calls.append(args[0] if args else kwargs.get("item"))
            if self.fail_put:
                raise _Raised(_T("global", "OSError"))
            if self.is_full:
                raise _Raised(_T("attr", _T("global", "queue"), "Full"))
            self.items.append(self.put_calls[-1])
            return None
        if op == "empty":
            return self.head >= len(self.items)
        if op == "qsize":
            return len(self.items) - self.head
        if op == "full":
            return self.is_full
        return NotImplemented


def _sampler_eval(drv, S, q, fn, qm, args=(), kwargs=None, oracle=()):
    """method fn of the sampler evaluated against the queue model; returns (returned value, exception value it ended with or None, interp)"""
    it = _Interp([drv], oracle)
    it.model = qm
    selfo = _O("sampler", S, drv, **{q: _T("global", _QueueModel.NAME)})
    try:
        return it.call(_Fn(fn, drv, selfo), list(args), dict(kwargs or {}), fn), None, it
    except _Undecided:
        if it.raised is None:
            raise
        return None, it.raised.v, it


_DRAIN_SIZES = (0, 1, 3, 1000, 1001, 5000, 16385)  # 16384: the default capacity of the sampler queue


def _o71(chk, drv):
    """Decided on VALUES: the drain and the add routine are evaluated against a model of the queue (see _QueueModel), whatever their control flow looks like (try around or inside
    the loop, contextlib.suppress, break on Empty, emptiness test, helper methods, renamed locals). Structural is only what says WHICH routine / attribute plays which role."""
    S, q, smp, add, qcalls = _sampler_roles(drv)
    sm = drv.methods(S)
    smp_fn, add_fn = sm.get(smp.name, smp), sm.get(add.name, add)
    gets = qcalls(smp, ("get_nowait", "get"))
    what = "drain: every element leaves the queue through its own get, in a loop that ends on Empty; the accumulated list is returned"
    if not gets:
        chk.ob("O7.1", what, False, smp,
               f"`{smp.name}` reads the queue `{q}` but never dequeues through get_nowait()/get(): elements added concurrently between its steps are lost or returned twice")
    else:
        try:
            bad = []
            for n in _DRAIN_SIZES:
                items = _rep(n, "e")
                qm = _QueueModel(items)
                ret, exc, _ = _sampler_eval(drv, S, q, smp_fn, qm)
                if exc is not None:
                    bad.append(f"with {n} element(s) queued the drain ends with {_Interp.exc_name(exc) or repr(exc)} instead of returning what it read ({qm.handed_out} element(s) dequeued and lost)")
                elif not isinstance(ret, (list, tuple)):
                    raise _Undecided(f"the drain returns {ret!r}"[:120])
                elif not (len(ret) == n and all(a is b for a, b in zip(ret, items))):
                    got = sum(1 for x in ret if any(x is y for y in items))
                    bad.append(f"with {n} element(s) queued the drain dequeues {qm.handed_out} and returns {got} of them" + (f" ({len(qm.pending())} stay queued while the queue is not empty)" if qm.pending() else "")
                               + ("" if got != n or len(ret) != n else " in another order"))
                if bad:
                    break
            if not bad:
                # an error other than Empty raised by the dequeue is not swallowed together with the end-of-queue signal
                qm = _QueueModel(_rep(3, "e"), fail_get=2)
                ret, exc, _ = _sampler_eval(drv, S, q, smp_fn, qm)
                if exc is None:
                    bad.append("an error other than queue.Empty raised by the dequeue ends the drain silently: anything but queue.Empty is swallowed together with the elements still queued")
            chk.ob("O7.1", what, not bad, smp, "; ".join(bad) or f"evaluated for queues of {', '.join(map(str, _DRAIN_SIZES))} element(s): all returned in order, queue empty afterwards")
        except (_Undecided, _Need) as x:
            chk.unknown("O7.1", f"drain `{smp.name}` not evaluated against the queue model: {x}", smp)
    # add: on every path exactly one put of an object built from the arguments; only a full queue drops it
    what = "add: put_nowait(Sample(...)) unconditionally, dropping only on queue.Full"
    puts = qcalls(add, ("put_nowait", "put"))
    if not puts:
        chk.ob("O7.1", what, False, add, f"`{add.name}` touches the queue `{q}` with 0 put call(s)")
    else:
        ps = [p for p in params_of(add_fn)[1:]] + [a.arg for a in add_fn.args.kwonlyargs]
        try:
            bad = []

            def paths(**scenario):
                def make(oracle):
                    qm = _QueueModel([], **scenario)
                    marks = {p: _T("global", f"arg:{p}") for p in ps}
                    return (qm, marks), lambda: _sampler_eval(drv, S, q, add_fn, qm, [], marks, oracle)

                return [(qm, marks, res) for (qm, marks), res in _explore(make)]

            for qm, marks, (ret, exc, it) in paths():
                if exc is not None:
                    raise _Undecided(f"`{add.name}` ends with {_Interp.exc_name(exc) or repr(exc)} on representative arguments")
                if len(qm.put_calls) != 1:
                    cond = sorted({k for k in it.memo})
                    bad.append(f"{len(qm.put_calls)} put call(s) on a path" + (f" (the put is conditional on `{cond[0][:60]}`)" if cond else ""))
                    continue
                obj = qm.put_calls[0]
                carried = [p for p, m in marks.items() if _mentions(obj, m)]
                if not ((isinstance(obj, _O) and obj.cls is not None and carried) or (len(ps) == 1 and obj is marks[ps[0]])):  # (or the routine's only argument: the caller hands in the finished sample)
                    bad.append(f"what is enqueued is `{obj!r}`"[:80] + ", not a Sample built from the arguments")
            for qm, marks, (ret, exc, it) in paths(fail_put=True):
                if exc is None and qm.put_calls:
                    bad.append("an error other than queue.Full raised by the put is swallowed: a sample is dropped on something else than queue.Full")
            chk.ob("O7.1", what, not bad, add, "; ".join(dict.fromkeys(bad)))
        except (_Undecided, _Need) as x:
            chk.unknown("O7.1", f"`{add.name}` not evaluated against the queue model: {x}", add)
    if _is_property(smp):
        chk.ob("O7.1", "drain is exposed as a property (every read drains)", True, smp, "")
    else:
        chk.unknown("O7.1", f"the draining routine `{smp.name}` is not a property: its readers are not recognised", smp)
    return S, smp, add


# ---- O7.2 / O7.3 / O7.4 ----------------------------------------------------------------------------------------------------------------------------------
class _Ship:
    """The worker's ship routine evaluated on representative values: the sampler is an object whose draining property hands out what is pending and empties it (every read
    counts); `self.send` is an effect. Result per scenario: number of reads, the messages sent."""

    def __init__(self, drv, flow, fn, pending):
        self.reads = 0
        self.pending = given = list(pending or [])

        def drain():
            self.reads += 1
            out, self.pending = self.pending, []
            return out

        self.sampler = _O("sampler", _on_read={flow.prop: drain}) if pending is not None else None
        self.it = _Interp([drv])
        self.selfo = _O("self", drv.cls("Worker"), drv, **{flow.sampler: self.sampler, "worker_id": 3})
        self.ret = self.it.call(_Fn(fn, drv, self.selfo), [], {}, fn)
        _require_loops_modelled(self.it, [given])
        self.msgs = [(e, a) for e in self.it.effects for a in e.args + list(e.kwargs.values()) if isinstance(a, _O) and a.cls is not None and a is not self.selfo]


def _o72(chk, repo, drv):
    flow = _flow_of(drv)
    W = drv.cls("Worker")
    wm = drv.methods(W)
    X = _Expand(drv, W)
    readers = sorted(flow.drainers())
    ships = [n for n in readers if any(isinstance(c, ast.Call) and last_attr(c.func) == "UpdateSamples" for c in ast.walk(X.function(wm[n])))]
    if not ships:
        raise AnchorMissing(f"the routine of Worker that reads the draining property `{flow.sampler}.{flow.prop}` and builds the UpdateSamples message")
    payload_field = None
    inner = set()
    for n in ships:
        Xn = _Expand(drv, W)
        Xn.function(wm[n])
        inner |= Xn.inlined & set(ships)
    for n in [x for x in ships if x not in inner]:
        fn = wm[n]
        try:
            full, empty, none = (_Ship(drv, flow, fn, p) for p in (_rep(3), [], None))
            sizes = [(k, _Ship(drv, flow, fn, _rep(k))) for k in (1, 2, 2000)]
        except (_Undecided, _Need) as x:
            chk.unknown("O7.2", f"ship routine `{n}` not evaluated: {x}", fn)
            continue
        ok = full.reads == 1 and empty.reads <= 1 and none.reads == 0
        chk.ob("O7.2", "the draining property is read exactly once per shipment", ok, fn, f"{full.reads} read(s) with samples pending, {empty.reads} with none")
        blank = [m for sh in [full] + [sh for _, sh in sizes] for _, m in sh.msgs if not m.f]
        if blank:  # a message object without any evaluated field: its constructor is not modelled, so what it carries is not known (not: it carries nothing)
            chk.unknown("O7.2", f"the fields of the `{blank[0].name}` message built by `{n}` are not recognised (its class has no constructor the evaluation can follow)", fn)
            continue
        sent = [(e, m, [k for k, v in m.f.items() if isinstance(v, list) and len(v) == 3 and all(isinstance(x, _O) and x.name.startswith("s") for x in v)]) for e, m in full.msgs]
        carrying = [(e, m, ks) for e, m, ks in sent if ks]
        ok = len(carrying) == 1 and full.reads >= 1
        detail = f"{len(full.msgs)} message(s) sent, {len(carrying)} carrying the 3 drained samples"
        for k, sh in sizes:
            got = [v for e, m in sh.msgs for v in m.f.values() if isinstance(v, list) and len(v) == k and all(isinstance(x, _O) for x in v)]
            if len(got) != 1:
                ok = False
                detail += f"; with {k} sample(s) pending {len(got)} message(s) carry them"
        if len(full.msgs) >= 1 and not carrying:
            detail += "; payload=" + ", ".join(f"{k}={v!r}"[:40] for k, v in full.msgs[0][1].f.items())
        chk.ob("O7.2", "what was drained is the payload of exactly one UpdateSamples message (withheld only when nothing was drained)", ok, carrying[0][0].node if carrying else fn, detail)
        if carrying:
            payload_field = (carrying[0][1].cls.name, carrying[0][2][0])
    # other readers of the draining property: in the worker, and anywhere a holder of the worker's sampler is in reach
    h_attr, h_par, fns = _holders(drv, W, flow.sampler)
    names = {a for _, a in h_attr} | {p for _, p in h_par}
    for m in _modules_mentioning(repo, flow.prop):
        for n in ast.walk(m.tree):
            if isinstance(n, ast.Attribute) and n.attr == flow.prop and isinstance(n.ctx, ast.Load) and isinstance(n.value, (ast.Name, ast.Attribute)):
                f = source.enclosing_func(n)
                recv = n.value
                if isinstance(recv, ast.Name) and f is not None and recv.id not in names:
                    recv = local_defs(f).get(recv.id, recv)  # a local alias of a holder
                if last_attr(recv) not in names or not isinstance(recv, (ast.Name, ast.Attribute)):
                    continue
                if not (source.enclosing_class(n) is W and f is not None and f.name in ships):
                    chk.ob("O7.2", "no other reader of the draining property", False, n, f"{source.qualname(n)} drains the sampler: those samples are never shipped")
    return [x for x in ships if x not in inner], payload_field, (h_attr, h_par, fns)


def _driver_roles(drv):
    """(post-processor attribute of Driver, the Driver methods that call it)"""
    D = drv.cls("Driver")
    dm = drv.methods(D)
    spp = sorted({n.targets[0].attr for f in dm.values() for n in walk_body(f) if isinstance(n, ast.Assign) and len(n.targets) == 1 and is_self_attr(n.targets[0])
                  and isinstance(n.value, ast.Call) and last_attr(n.value.func) == "SamplePostprocessor"})
    if len(spp) != 1:
        raise AnchorMissing(f"the attribute of Driver that holds the SamplePostprocessor: found {spp}")
    pps = [f for f in dm.values() if any(isinstance(c, ast.Call) and is_self_attr(c.func, spp[0]) for c in walk_body(f))]
    if not pps:
        raise AnchorMissing(f"a Driver method that calls the post-processor `self.{spp[0]}(...)`")
    return D, spp[0], pps


def _run_pp(drv, D, spp, pp, raw_attr, content):
    """evaluate the post-processing routine with self.<raw_attr> = content; returns (interp, self object, [(argument, raw attribute at call time)])"""
    it = _Interp([drv])
    proc = _O("post_processor")
    fields = {spp: proc}
    if raw_attr is not None:
        fields[raw_attr] = content
    selfo = _O("self", D, drv, **fields)
    it.watch = lambda: (selfo.f.get(raw_attr), list(selfo.f.get(raw_attr)) if isinstance(selfo.f.get(raw_attr), list) else None)
    it.call(_Fn(pp, drv, selfo), [], {}, pp)
    _require_loops_modelled(it, [content])
    return it, selfo, [e for e in it.effects if e.path == "post_processor"]


def _o74(chk, drv):
    D, spp, pps = _driver_roles(drv)
    raw_attr = None
    for pp in pps:
        # which attribute reaches the post-processor: evaluated on an object without values, the argument names it
        try:
            it, selfo, calls = _run_pp(drv, D, spp, pp, None, None)
        except (_Undecided, _Need) as x:
            chk.unknown("O7.4", f"post-processing routine `{pp.name}` not evaluated: {x}", pp)
            continue
        attrs = sorted({a for e in calls for a in _self_attr_terms(e.args, selfo)} | {a for e in calls for x in e.args for a, v in selfo.f.items() if a != spp and v is x and isinstance(x, list)})
        if len(calls) != 1 or len(attrs) != 1:
            chk.unknown("O7.4", f"`{pp.name}`: {len(calls)} call(s) of the post-processor fed from attribute(s) {attrs}", pp)
            continue
        raw_attr = attrs[0]
        strict = [a for a in calls[0].args if isinstance(a, _T) and a.op == "slice" and any(p not in (None, 0) for p in a.args[1:3])]
        big = list(range(70000))
        try:
            it, selfo, calls = _run_pp(drv, D, spp, pp, raw_attr, big)
        except (_Undecided, _Need) as x:
            chk.unknown("O7.4", f"post-processing routine `{pp.name}` not evaluated on a list: {x}", pp)
            continue
        bad = []
        if strict:
            bad.append(f"only a part of `self.{raw_attr}` is processed ({calls[0].node and short(calls[0].node.args[0], 40)})")
        if len(calls) != 1 or not calls[0].args or not isinstance(calls[0].args[0], list) or calls[0].args[0] != list(range(70000)):
            got = calls[0].args[0] if calls and calls[0].args else None
            bad.append(f"the post-processor receives {len(got) if isinstance(got, list) else got!r} of 70000 pending samples")
        else:
            at_call, content = calls[0].state
            if at_call is calls[0].args[0] or (content is not None and len(content) > 0):
                bad.append(f"`self.{raw_attr}` still holds the batch while it is processed (reset comes afterwards): samples arriving meanwhile are dropped by the reset, or the batch is processed again")
        after = selfo.f.get(raw_attr)
        if not isinstance(after, list) or len(after) != 0:
            bad.append(f"after post-processing `self.{raw_attr}` holds {len(after) if isinstance(after, list) else after!r} element(s): they are processed again by the next round")
        chk.ob("O7.4", "snapshot; reset; process(snapshot)", not bad, pp, "; ".join(bad) or f"raw list = self.{raw_attr}")
    if raw_attr is None:
        raise AnchorMissing("the attribute of Driver whose value reaches the post-processor")
    return D, spp, pps, raw_attr


def _o73(chk, drv, raw_attr, ships):
    D, DA = drv.cls("Driver"), drv.cls("DriverActor")
    h = drv.methods(DA).get("receiveMsg_UpdateSamples")
    if h is None:
        raise AnchorMissing("DriverActor.receiveMsg_UpdateSamples")
    dm = drv.methods(D)
    hx = _Expand(drv, DA).function(h)
    mp = params_of(h)[1]
    # the driver attribute of the actor and the Driver method the handler hands the message to
    tgt = [(c.func.value.attr, c.func.attr) for c in walk_body(hx) if isinstance(c, ast.Call) and isinstance(c.func, ast.Attribute) and is_self_attr(c.func.value) and c.func.attr in dm
           and any(isinstance(x, ast.Name) and x.id == mp for a in list(c.args) + [k.value for k in c.keywords] for x in ast.walk(a))]
    if len(set(tgt)) != 1:
        raise AnchorMissing(f"the Driver method that DriverActor.receiveMsg_UpdateSamples hands the message to: found {sorted(set(tgt))}")
    dattr, mname = tgt[0]
    us = dm[mname]

    def fresh():
        old = _rep(2, "old")
        return old, _O("driver", D, drv, **{raw_attr: list(old)})

    try:
        bad = []
        for payload in (_rep(3), []):
            old, d = fresh()
            it = _Interp([drv])
            it.call(_Fn(us, drv, d), [payload], {}, us)
            _require_loops_modelled(it, [payload, old])
            got = d.f.get(raw_attr)
            if not (isinstance(got, list) and len(got) == len(old) + len(payload) and all(a is b for a, b in zip(got, old + payload))):
                bad.append(f"a payload of {len(payload)} after 2 pending samples leaves {[getattr(x, 'name', x) for x in got] if isinstance(got, list) else got!r}")
        chk.ob("O7.3", "raw_samples += samples", not bad, us, "; ".join(bad) or f"self.{raw_attr} grows by the whole payload in `{mname}`")
    except (_Undecided, _Need) as x:
        chk.unknown("O7.3", f"`{mname}` not evaluated: {x}", us)
    # end to end: the message the worker's ship routine builds, delivered to the handler
    flow = _flow_of(drv)
    try:
        bad = []
        for n in ships:
            sh = _Ship(drv, flow, drv.methods(drv.cls("Worker"))[n], _rep(3))
            if not sh.msgs:
                continue
            old, d = fresh()
            it = _Interp([drv])
            it.call(_Fn(h, drv, _O("actor", DA, drv, **{dattr: d})), [sh.msgs[0][1], _T("global", "sender")], {}, h)
            _require_loops_modelled(it, [old] + [v for v in sh.msgs[0][1].f.values() if isinstance(v, list)])
            got = d.f.get(raw_attr)
            if not (isinstance(got, list) and len(got) == 5 and all(isinstance(x, _O) for x in got) and [x.name for x in got] == ["old0", "old1", "s0", "s1", "s2"]):
                bad.append(f"the shipped samples s0..s2 arrive as {[getattr(x, 'name', x) for x in got] if isinstance(got, list) else got!r}")
        chk.ob("O7.3", "handler passes msg.samples", not bad, h, "; ".join(bad))
    except (_Undecided, _Need) as x:
        chk.unknown("O7.3", f"delivery of UpdateSamples not evaluated: {x}", h)


# ---- O7.5 ------------------------------------------------------------------------------------------------------------------------------------------------
_RECORDS = ("latency", "service_time", "processing_time")
_N_TIMINGS = {0: 1, 1: 1, 2: 2, 3: 1}


def _rep_samples(n):
    """n representative request samples with pairwise distinct field values; samples 0..3 carry dependent timings (a timing shares task, sample type and client id with its
    request - as Sample.dependent_timings builds it - and differs in everything else)."""
    tasks = [_O(f"task{j}", name=f"task-{j}", meta_data={"task-meta": j},
                operation=_O(f"operation{j}", name=f"op-of-task-{j}", type=f"type-of-task-{j}", meta_data={"op-meta": j})) for j in range(2)]
    out = []
    for i in range(n):
        t = tasks[i % 2]
        s = _O(f"sample{i}", client_id=100 + i, absolute_time=1000.0 + i, relative_time=10.0 + i, request_start=500.0 + i, task_start=490.0, task=t, sample_type=f"sample-type-{i}",
               latency=i + 0.125, service_time=i + 0.25, processing_time=i + 0.5, throughput=None, total_ops=1 + i, total_ops_unit="ops", time_period=3.0 + i, percent_completed=None,
               operation_name=f"op{i}", operation_type=f"optype{i}", operation_meta_data={"op-meta": i}, request_meta_data={"req-meta": i})
        s.f["dependent_timings"] = [
            _O(f"timing{i}.{j}", client_id=s.f["client_id"], task=t, sample_type=s.f["sample_type"], absolute_time=2000.0 + 10 * i + j, relative_time=20.0 + 10 * i + j,
               request_start=600.0 + 10 * i + j, task_start=490.0, latency=0, service_time=i + 0.03125 * (j + 1), processing_time=0, throughput=0, total_ops=1 + i, total_ops_unit="ops",
               time_period=3.0 + i, percent_completed=None, operation_name=f"subop{i}.{j}", operation_type=f"subtype{i}.{j}", operation_meta_data={"op-meta": i},
               request_meta_data={"req-meta": i, "sub": j}, dependent_timings=[]) for j in range(_N_TIMINGS.get(i, 0))]
        out.append(s)
    return out


def _ctx_objs(ctx, prefix):
    out = []
    for c in ctx:
        for x in (c if isinstance(c, (tuple, list)) else [c]):
            if isinstance(x, _O) and x.name.startswith(prefix):
                out.append(x)
    return out


class _PostProcessed:
    """SamplePostprocessor.__call__ evaluated for a batch of n representative samples and a down-sampling factor k: the records written (metrics-store calls named
    put_value_cluster_level, arguments bound by the store's own signature), each with the sample / timing of the loop it was written under, and the throughput calls."""

    def __init__(self, drv, met, SP, k, n):
        put = met.methods(met.cls("MetricsStore")).get("put_value_cluster_level")
        if put is None:
            raise AnchorMissing("MetricsStore.put_value_cluster_level")
        pnames = params_of(put)[1:]

        def make(oracle):
            it = _Interp([drv], oracle)
            it.opaque = {"ThroughputCalculator"}
            raw = _rep_samples(n)

            def go():
                o = it.call(_Cls(SP, drv), [], dict(metrics_store=_T("global", "store"), downsample_factor=k, track_meta_data={"track-meta": 1}, challenge_meta_data={"challenge-meta": 1}), SP)
                it.effects.clear()
                it.call(o, [raw], {}, SP)
                return raw

            return it, go

        runs = _explore(make)
        if len(runs) != 1:
            raise _Undecided(f"{len(runs)} paths depend on values the rule has no representative for")
        it, self.raw = runs[0]
        raw_all = self.raw
        self.records, self.calc = [], []
        store = _T("global", "store")
        for e in it.effects:
            if isinstance(e.callee, _T) and e.callee.path() is None and _contains_term(e.callee, store):
                # something computed FROM the metrics store is called (a wrapper built by an unmodelled call ...): whether that writes a record is not known
                raise _Undecided(f"call of `{short(e.node.func, 50) if isinstance(e.node, ast.Call) else e.path}`, a value computed from the metrics store by a call that is not modelled")
            if e.name == "put_value_cluster_level":
                f = dict(zip(pnames, e.args))
                f.update(e.kwargs)
                smp, tim = _ctx_objs(e.ctx, "sample"), _ctx_objs(e.ctx, "timing")
                if not smp and not tim:
                    # an index loop binds no element: the record belongs to the one sample / timing whose fields its arguments were computed from
                    rs, rt = {id(o): o for o in e.reads if o.name.startswith("sample")}, {id(o): o for o in e.reads if o.name.startswith("timing")}
                    smp, tim = (list(rs.values()) if len(rs) == 1 else []), (list(rt.values()) if len(rt) == 1 else [])
                elif not tim:
                    rt = {id(o): o for o in e.reads if o.name.startswith("timing") and any(o is t for t in smp[-1].f["dependent_timings"])}
                    tim = list(rt.values()) if len(rt) == 1 else []
                if tim and not smp:
                    smp = [s_ for s_ in raw_all if any(t is tim[-1] for t in s_.f["dependent_timings"])]
                self.records.append((f, smp[-1] if smp else None, tim[-1] if tim else None, e.node))
            elif any(_mentions(a, self.raw) or (isinstance(a, list) and a and all(isinstance(x, _O) and x.name.startswith("sample") for x in a)) for a in e.args + list(e.kwargs.values())) \
                    and "logg" not in e.path.lower() and e.name not in ("len",):
                self.calc.append(e)
        # a skipped loop over (something computed from) the batch: what it writes is not known - unless it runs over what a call that received the batch returned (the throughput
        # values: those calls are judged on their own)
        _require_loops_modelled(it, [self.raw] + [s_.f["dependent_timings"] for s_ in self.raw], explained={e.path for e in self.calc if e.path.split(".")[0] in it.opaque})
        self.k, self.n = k, n
        self.kept = [s for i, s in enumerate(self.raw) if i % k == 0]


def _field_diffs(f, o, name):
    """differences between a written record and what the property demands for object o (sample or timing) and record `name`; unknown reads are returned separately."""
    want = {"unit": "ms", "task": o.f["task"].f["name"], "operation": o.f["operation_name"], "operation_type": o.f["operation_type"], "sample_type": o.f["sample_type"],
            "absolute_time": o.f["absolute_time"], "relative_time": o.f["relative_time"]}
    bad, unk = [], []
    v = f.get("value")
    src = o.f[name]
    if isinstance(v, _T) and v.op == "call" and (v.args[0].path() or "").endswith("seconds_to_ms") and len(v.args[1]) == 1:
        if not _same(v.args[1][0], src):
            bad.append(f"value=seconds_to_ms({v.args[1][0]!r}) (expected the {name} {src!r} of {o.name})")
    elif isinstance(v, (int, float)) and not isinstance(v, bool):
        if abs(v - 1000 * src) > 1e-9:
            bad.append(f"value={v!r} (expected {1000 * src!r} ms)")
    else:
        unk.append(f"value={v!r}")
    for k, w in want.items():
        g = f.get(k)
        if isinstance(g, _T):
            unk.append(f"{k}={g!r}")
        elif not _same(g, w):
            bad.append(f"{k}={g!r} (expected {w!r} of {o.name})")
    return bad, unk


def _o75(chk, drv, met):
    SP = drv.cls("SamplePostprocessor")
    spc = drv.methods(SP).get("__call__")
    if spc is None:
        raise AnchorMissing("SamplePostprocessor.__call__")
    try:
        runs = [_PostProcessed(drv, met, SP, k, 6) for k in (1, 2, 3)]
        one = _PostProcessed(drv, met, SP, 1, 1)
        none = _PostProcessed(drv, met, SP, 1, 0)
    except (_Undecided, _Need) as x:
        chk.unknown("O7.5", f"SamplePostprocessor.__call__ not evaluated on the representative batch: {x}", spc)
        return spc
    drv._c07_pp = runs  # O7.11 reads the sample attribute behind the records' sample type off the same evaluation
    main = lambda r: [(f, s, n_) for f, s, t, n_ in r.records if s is not None and t is None and f.get("name") != "throughput"]  # noqa: E731
    dep = lambda r: [(f, s, t, n_) for f, s, t, n_ in r.records if t is not None]  # noqa: E731
    site = lambda recs: next((n_ for *_, n_ in recs if n_ is not None), spc)  # noqa: E731
    stray = [f.get("name") for r in runs for f, s, t, _ in r.records if s is None and t is None and f.get("name") in _RECORDS]
    if stray:
        chk.unknown("O7.5", f"record(s) {sorted(set(stray))}: the sample they belong to is not recognised (not written under a loop over the batch, arguments not read from one sample)", spc)
        return spc
    # A: exactly the three records per kept sample
    bad = []
    for r in runs:
        for s in r.kept:
            names = sorted(str(f.get("name")) for f, s2, _ in main(r) if s2 is s)
            if names != sorted(_RECORDS):
                bad.append(f"factor {r.k}: {s.name} yields {names}")
    chk.ob("O7.5", "exactly three records per kept sample", not bad, site(main(runs[0])), "; ".join(bad[:3]) or f"names={sorted(_RECORDS)}")
    unknown = []
    for name in _RECORDS:
        bad = []
        for r in runs:
            got = [s.name for f, s, _ in main(r) if f.get("name") == name]
            want = [s.name for s in r.kept]
            if sorted(got) != sorted(want):
                bad.append(f"factor {r.k}: written for {got}, the down-sampling keeps {want}")
        chk.ob("O7.5", "record guarded only by the down-sampling test", not bad, site([x for x in main(runs[0]) if x[0].get("name") == name]), "; ".join(bad[:2]) or f"{name}: one per kept sample for factors 1, 2, 3")
    cid_vals = []
    for name in _RECORDS:
        bad, unk, nocid, mdunk = [], [], [], []
        recs = [(f, s, n_) for r in runs for f, s, n_ in main(r) if f.get("name") == name]
        for f, s, _ in recs:
            b, u_ = _field_diffs(f, s, name)
            bad += b
            unk += u_
            md = f.get("meta_data")
            if isinstance(md, dict):
                if "client_id" in md:
                    cid_vals.append((md["client_id"], s))
                else:
                    nocid.append(f"{s.name}: meta_data keys {sorted(map(str, md))}")
            else:
                mdunk.append(f"meta_data={md!r}"[:80])
        st = site(recs)
        if unk and not bad:
            unknown.append(f"{name} record: {unk[0]}")
        chk.ob("O7.5", f"{name} record fed from the sample's {name} and identity fields", not bad, st, "; ".join(bad[:3]))
        if mdunk and not nocid:
            unknown.append(f"{name} record: {mdunk[0]}")
        chk.ob("O7.5", f"{name} record carries the client id", not nocid, st, "; ".join(nocid[:2]))
    bad = [f"{s.name}: client_id={v!r} (expected {s.f['client_id']})" for v, s in cid_vals if not _same(v, s.f["client_id"])]
    if not cid_vals:
        unknown.append("no client id located in any record")
    chk.ob("O7.5", "client id meta data is the sample's client id", not bad, site(main(runs[0])), "; ".join(bad[:2]))
    # dependent timings
    bad_count, bad_each, bad_fields, bad_guard, unk = [], [], [], [], []
    for r in runs:
        for i, s in enumerate(r.raw):
            ts = s.f["dependent_timings"]
            got = [(f, t) for f, s2, t, _ in dep(r) if any(t is x for x in ts)]
            if s in r.kept:
                if len(got) != len(ts):
                    bad_count.append(f"factor {r.k}: {s.name} has {len(ts)} dependent timing(s), {len(got)} record(s)")
                for t in ts:
                    mine = [f for f, t2 in got if t2 is t]
                    if len(mine) != 1 or mine[0].get("name") != "service_time":
                        bad_each.append(f"factor {r.k}: {t.name} yields {[f.get('name') for f in mine]}")
                    for f in mine[:1]:
                        b, u_ = _field_diffs(f, t, "service_time")
                        bad_fields += b
                        unk += u_
                        md = f.get("meta_data")
                        if isinstance(md, dict) and "client_id" in md and not _same(md["client_id"], s.f["client_id"]):
                            bad_fields.append(f"{t.name}: client_id={md['client_id']!r}")
            elif got:
                bad_guard.append(f"factor {r.k}: {s.name} is dropped by the down-sampling but {len(got)} of its dependent timings are recorded")
    ds = site(dep(runs[0]))
    chk.ob("O7.5", "one record per dependent timing", not bad_count, ds, "; ".join(bad_count[:2]) or "loops=1 puts=1")
    if unk and not bad_fields:
        unknown.append(f"dependent record: {unk[0]}")
    chk.ob("O7.5", "dependent record fed from the timing itself", not bad_fields, ds, "; ".join(bad_fields[:3]))
    chk.ob("O7.5", "dependent record unconditional within its loop", not bad_each, ds, "; ".join(bad_each[:2]))
    chk.ob("O7.5", "dependent timings under the same down-sampling guard", not bad_guard, ds, "; ".join(bad_guard[:2]))
    # throughput from the unfiltered batch
    bad = []
    for r in runs:
        calls = [e for e in r.calc if e.name != "put_value_cluster_level"]
        calls = [e for e in calls if e.path.split(".")[0] == "ThroughputCalculator"] or calls  # the calls on the throughput calculator (an unmodelled object), if it is one
        whole = [e for e in calls if any(isinstance(a, list) and len(a) == len(r.raw) and all(x is y for x, y in zip(a, r.raw)) for a in e.args + list(e.kwargs.values()))]
        if len(whole) != 1 or len(calls) != 1:
            bad.append(f"factor {r.k}: {len(calls)} call(s) receive samples, {len(whole)} of them the whole batch of {len(r.raw)}"
                       + "".join(f" ({e.path} gets {len([a for a in e.args if isinstance(a, list)][0]) if any(isinstance(a, list) for a in e.args) else '?'})" for e in calls if e not in whole))
    tc = runs[0].calc[0].node if runs[0].calc else spc
    chk.ob("O7.5", "throughput computed from the unfiltered list", not bad, tc, "; ".join(bad[:2]) or (short(tc, 60) if tc is not spc else ""))
    # no early exit of a loop over the batch (structural, on the routine together with its helpers)
    sx = _Expand(drv, SP).function(spc)
    rawp = params_of(spc)[1] if len(params_of(spc)) > 1 else None
    sdefs = local_defs(sx)
    loops = [n for n in walk_body(sx) if isinstance(n, (ast.For, ast.While)) and rawp is not None
             and any(isinstance(x, ast.Name) and x.id == rawp for x in ast.walk(source.inline_node(n.iter if isinstance(n, ast.For) else n.test, sdefs)))]
    exits = [x for L in loops for x in source.walk_local(L, include_root=False) if isinstance(x, (ast.Break, ast.Return))]
    chk.ob("O7.5", "sample loop has no early exit", not exits, exits[0] if exits else (loops[0] if loops else spc), "" if not exits else f"`{short(exits[0], 30)}` at line {exits[0].lineno} ends the loop over the batch early")
    ok = len(main(one)) == 3 and len([e for e in one.calc if e.name != "put_value_cluster_level"]) == 1 and not main(none)
    chk.ob("O7.5", "early return only for an empty batch", ok, spc, "" if ok else f"a batch of one sample yields {len(main(one))} record(s) and {len(one.calc)} throughput call(s)")
    for m in unknown[:3]:
        chk.unknown("O7.5", m + " - no representative value for what it reads", spc)
    return spc


# ---- O7.6 / O7.8 -------------------------------------------------------------------------------------------------------------------------------------------
def _resolves_to(e, name, defs):
    """expression e is the local `name` or a chain of single-assignment copies of it"""
    seen = 0
    while isinstance(e, ast.Name) and seen < 6:
        if e.id == name:
            return True
        e = defs.get(e.id)
        seen += 1
    return False


def _eval_paths(mods, fn, mod, mkself, args=(), kwargs=None, setup=None):
    """method fn evaluated on a fresh object for every sequence of decisions on unknown values: [(interp, self object, returned value)]"""
    def make(oracle):
        it = _Interp(mods, oracle)
        o = mkself()
        if setup is not None:
            setup(it, o)
        return (it, o), lambda: it.call(_Fn(fn, mod, o), list(args), dict(kwargs or {}), fn)

    return [(it, o, ret) for (it, o), ret in _explore(make)]


def _paths(mods, fn, mod, selfname, selfcls, args, kwargs):
    return [(it, o) for it, o, _ in _eval_paths(mods, fn, mod, lambda: _O(selfname, selfcls, mod), args, kwargs)]


def _o76(chk, repo, drv, rc, met, spp_attr, pps):
    D, DA = drv.cls("Driver"), drv.cls("DriverActor")
    dm, dam = drv.methods(D), drv.methods(DA)
    hj = dam.get("receiveMsg_JoinPointReached")
    ent = sorted({c.func.attr for c in walk_body(hj) if isinstance(c, ast.Call) and isinstance(c.func, ast.Attribute) and is_self_attr(c.func.value) and c.func.attr in dm}) if hj is not None else []
    jr = dm[ent[0]] if len(ent) == 1 else dm.get("joinpoint_reached")
    if jr is None:
        raise AnchorMissing("the Driver method that handles JoinPointReached")
    X = _Expand(drv, D)
    jx = X.function(jr)
    te = [c for c in walk_body(jx) if isinstance(c, ast.Call) and last_attr(c.func) == "to_externalizable"]
    orig = [c for c in _calls_named(repo, "to_externalizable") if source.enclosing_class(c) is D]
    closure = {jr.name} | X.inlined
    for c in orig:
        fn = source.enclosing_func(c)
        if fn.name not in closure:
            chk.unknown("O7.6", f"the hand-over in Driver.{fn.name} is not reached from the join-point handling through helpers that can be analysed with it", c)
    if len(te) < 2:
        raise AnchorMissing(f"to_externalizable calls in the join-point handling of Driver (found {len(te)} of {len(orig)})")
    # who may call: a helper on the hand-over path has no caller outside the join-point handling
    outside = []
    on_path = {source.enclosing_func(c).name for c in orig}
    grew = True
    while grew:  # the helpers through which the join-point handling reaches a hand-over
        grew = False
        for name in closure - on_path:
            if any(isinstance(x, ast.Call) and is_self_attr(x.func) and x.func.attr in on_path for x in walk_body(dm[name])):
                on_path.add(name)
                grew = True
    for name in sorted(on_path - {jr.name}):
        for x in _calls_named(repo, name):
            if source.enclosing_class(x) is D and is_self_attr(x.func) and source.enclosing_func(x).name not in closure:
                outside.append(x)
    imf = met.methods(met.cls("InMemoryMetricsStore")).get("to_externalizable")
    clear = params_of(imf)[1] if imf is not None and len(params_of(imf)) > 1 else "clear"
    gj = cfg_of(jx)
    jdefs = local_defs(jx)
    ppc = [c for c in walk_body(jx) if isinstance(c, ast.Call) and (is_self_attr(c.func, spp_attr) or (is_self_attr(c.func) and c.func.attr in {p.name for p in pps}))]
    pre_pp = False
    if not ppc and hj is not None:
        hx = _Expand(drv, DA).function(hj)
        gh = cfg_of(hx)
        jc = [c for c in walk_body(hx) if isinstance(c, ast.Call) and isinstance(c.func, ast.Attribute) and is_self_attr(c.func.value) and c.func.attr == jr.name]
        pc = [c for c in walk_body(hx) if isinstance(c, ast.Call) and isinstance(c.func, ast.Attribute) and is_self_attr(c.func.value) and c.func.attr in {p.name for p in pps}]
        pre_pp = bool(jc) and bool(pc) and all(gh.dominated_by_nodes(gh.node_of(j), [gh.node_of(p_) for p_ in pc]) for j in jc)
    cbs = []
    for c in te:
        cl = arg_of(c, 0, clear)
        cl = jdefs.get(cl.id, cl) if isinstance(cl, ast.Name) else cl
        if cl is None or isinstance(cl, ast.Constant):
            chk.ob("O7.6", "hand-over clears the driver's store", cl is not None and cl.value is True, c, f"{clear}={u(cl) if cl is not None else 'default False'}")
        else:
            chk.unknown("O7.6", f"`{short(cl, 40)}` passed for `{clear}` is not a literal", c)
        ok = (pre_pp or (bool(ppc) and gj.dominated_by_nodes(gj.node_of(c), [gj.node_of(p_) for p_ in ppc]))) and not outside
        chk.ob("O7.6", "post-processing precedes the hand-over", ok, c,
               f"also reachable through Driver.{source.enclosing_func(outside[0]).name} without post-processing" if outside else "no post-processing on some path to it" if not ok else "")
        # the externalised value reaches a callback of the driver actor
        asg = source.parent(c)
        v = asg.targets[0].id if isinstance(asg, ast.Assign) and len(asg.targets) == 1 and isinstance(asg.targets[0], ast.Name) and asg.value is c else None

        def carries(a):
            return a is c or (v is not None and _resolves_to(a, v, jdefs))

        def actor_cb(x):  # name of the driver-actor method that call x invokes (through local aliases of the actor / of the bound method), or None
            fn_ = source.inline_node(x.func, jdefs)
            return fn_.attr if isinstance(fn_, ast.Attribute) and is_self_attr(fn_.value) and fn_.attr in dam else None

        cb = [x for x in walk_body(jx) if isinstance(x, ast.Call) and any(carries(a) for a in list(x.args) + [k.value for k in x.keywords]) and actor_cb(x)]
        if v is not None and sum(1 for n in walk_body(jx) if isinstance(n, ast.Name) and isinstance(n.ctx, ast.Store) and n.id == v) > 1:
            # the local is bound more than once in the routine: only uses dominated by this binding count
            cb = [x for x in cb if gj.dominated_by_nodes(gj.node_of(x), [gj.node_of(c)])]
        used = v is not None and any(isinstance(n, ast.Name) and isinstance(n.ctx, ast.Load) and n.id == v for n in walk_body(jx))
        if not cb and (v is None or used):
            # the value goes somewhere, but not as such into a callback of the driver actor: where it ends up is not recognised (a value that is bound to a local which is
            # never read again IS located and wrong: the externalised - and cleared - metrics are dropped)
            chk.unknown("O7.6", f"what `{short(source.enclosing_stmt(c), 60)}` does with the externalised metrics is not recognised", c)
            continue
        chk.ob("O7.6", "externalised metrics handed to the driver actor", len(cb) == 1, c, short(cb[0], 60) if cb else "value not passed on")
        if cb:
            chk.ob("O7.6", "hand-over callback reached on every normal path after externalising", gj.must_pass(gj.node_of(c), [gj.node_of(cb[0])], normal_only=True), cb[0], "")
            b = source.bind_args(cb[0], dam[actor_cb(cb[0])])
            par = [p for p, a in b.items() if carries(a)]
            if par and (actor_cb(cb[0]), par[0]) not in cbs:
                cbs.append((actor_cb(cb[0]), par[0]))
    # the message chain, evaluated: actor callback -> message -> race-control handler -> coordinator -> bulk_add
    BA, CO = rc.cls("BenchmarkActor"), rc.cls("BenchmarkCoordinator")
    bam, com = rc.methods(BA), rc.methods(CO)
    final = None
    if len(cbs) < 2:
        chk.unknown("O7.6", f"driver-actor callbacks that receive the externalised metrics: found {cbs}, expected one per kind of step boundary", jr)
    for cbname, par in cbs:
        cbf = dam[cbname]
        others = [p for p in params_of(cbf)[1:] if p != par]
        M = _O("metrics")
        try:
            sent, per_path, blank = [], [], []
            import itertools
            for combo in itertools.islice(itertools.product((0, 1.0), repeat=len(others)), 4):
                for it, o in _paths([drv], cbf, drv, "actor", DA, [], {par: M, **dict(zip(others, combo))}):
                    objs = [a for e in it.effects for a in e.args + list(e.kwargs.values()) if isinstance(a, _O) and a.cls is not None and a is not o]
                    mine = [a for a in objs if any(v_ is M for v_ in a.f.values())]
                    blank += [a for a in objs if not a.f]
                    per_path.append((combo, len(mine)))
                    sent += mine
        except (_Undecided, _Need) as x:
            chk.unknown("O7.6", f"DriverActor.{cbname} not evaluated: {x}", cbf)
            continue
        if blank:  # a message object without any evaluated field: its constructor is not modelled, so what it carries is not known (not: it carries nothing)
            chk.unknown("O7.6", f"the fields of the `{blank[0].name}` message built by DriverActor.{cbname} are not recognised (its class has no constructor the evaluation can follow)", cbf)
            continue
        msgname = sent[0].cls.name if sent else "?"
        bad = [f"{dict(zip(others, combo))}: {k} message(s) carrying the metrics" for combo, k in per_path if k != 1]
        chk.ob("O7.6", f"{msgname}: metrics parameter becomes the message's first field, sent unconditionally", not bad, cbf, "; ".join(bad[:2]))
        if not sent:
            chk.unknown("O7.6", f"no message built by DriverActor.{cbname} carries the metrics it was given", cbf)
            continue
        msg = sent[0]
        fld = [k for k, v_ in msg.f.items() if v_ is M]
        chk.ob("O7.6", f"{msgname}.metrics := first constructor parameter", len(fld) == 1, msg.cls, f"field(s) {fld} hold the externalised metrics")
        hname = f"receiveMsg_{msgname}"
        h = bam.get(hname)
        if h is None:
            chk.unknown("O7.6", f"no handler {hname} in BenchmarkActor", BA)
            continue
        try:
            runs = _paths([rc, drv], h, rc, "actor", BA, [msg, _T("global", "sender")], {})
        except (_Undecided, _Need) as x:
            chk.unknown("O7.6", f"BenchmarkActor.{hname} not evaluated: {x}", h)
            continue
        cattr = sorted({n.targets[0].attr for f_ in bam.values() for n in walk_body(f_) if isinstance(n, ast.Assign) and len(n.targets) == 1 and is_self_attr(n.targets[0])
                        and isinstance(n.value, ast.Call) and last_attr(n.value.func) == CO.name})
        to_co = (lambda e: e.path.startswith(f"actor.{cattr[0]}.")) if len(cattr) == 1 else (lambda e: True)
        passes = [[e for e in it.effects if to_co(e) and any(a is M for a in e.args + list(e.kwargs.values()))] for it, _ in runs]
        ok = all(len(p) == 1 for p in passes) and len({p[0].name for p in passes}) == 1
        if not ok and len(cattr) != 1:
            chk.unknown("O7.6", f"which attribute of BenchmarkActor holds the coordinator is not recognised ({cattr})", h)
            continue
        chk.ob("O7.6", f"{hname} passes msg.metrics to the coordinator exactly once", ok, passes[0][0].node if passes and passes[0] else h,
               "" if ok else f"calls receiving the metrics per path: {[[e.path for e in p] for p in passes][:3]}")
        if hname == "receiveMsg_BenchmarkComplete":
            final = (h, passes, ok)
        if not (passes and passes[0]):
            continue
        coname = passes[0][0].name
        co = com.get(coname)
        if co is None:
            chk.unknown("O7.6", f"`{passes[0][0].path}` is not a method of BenchmarkCoordinator", passes[0][0].node)
            continue
        try:
            runs = _paths([rc, drv], co, rc, "coordinator", CO, [M], {})
        except (_Undecided, _Need) as x:
            chk.unknown("O7.6", f"BenchmarkCoordinator.{coname} not evaluated: {x}", co)
            continue
        adds = [[e for e in it.effects if e.name == "bulk_add" and any(a is M for a in e.args + list(e.kwargs.values()))] for it, _ in runs]
        ok = all(len(a) == 1 for a in adds)
        chk.ob("O7.6", f"coordinator.{coname}: exactly one unconditional bulk_add(metrics)", ok, co, "" if ok else f"bulk_add calls receiving the metrics per path: {[len(a) for a in adds]}")
    return final


def _o78(chk, rc, final):
    BA = rc.cls("BenchmarkActor")
    h = rc.methods(BA).get("receiveMsg_BenchmarkComplete")
    if h is None:
        raise AnchorMissing("BenchmarkActor.receiveMsg_BenchmarkComplete")
    if final is None or final[0] is not h:
        chk.unknown("O7.8", "the BenchmarkComplete message built by the driver actor was not located (see O7.6)", h)
        return
    _, passes, ok = final
    node = passes[0][0].node if passes and passes[0] else None
    if ok and node is not None and source.enclosing_func(node) is h:
        gh = cfg_of(h)
        ok = gh.must_pass(gh.entry, [gh.node_of(node)])
    chk.ob("O7.8", "the final metrics of BenchmarkComplete reach the coordinator on every path", ok, node if node is not None else h, "")


def _store_hook_calls(met, f):
    """(routine f of MetricsStore analysed together with the base-class helpers it calls, its calls of the store hooks): a store hook is a method the concrete (in-memory)
    store implements - the role is decided by who implements the callee, not by its name."""
    MS, IM = met.cls("MetricsStore"), met.cls("InMemoryMetricsStore")
    impl = set(met.methods(IM))
    fx = _Expand(met, MS, keep=impl).function(f)
    return fx, [c for c in walk_body(fx) if isinstance(c, ast.Call) and is_self_attr(c.func) and c.func.attr in impl]


def _record_hook(met):
    """name of the per-record store hook: the one method of the concrete store that `MetricsStore._put_metric` hands the record it built to (None: not exactly one)."""
    pm = met.methods(met.cls("MetricsStore")).get("_put_metric")
    if pm is None:
        raise AnchorMissing("MetricsStore._put_metric")
    names = sorted({c.func.attr for c in _store_hook_calls(met, pm)[1]})
    return names[0] if len(names) == 1 else None


# ---- O7.7 / O7.10 ------------------------------------------------------------------------------------------------------------------------------------------
def _o77(chk, met):
    IM, MS = met.cls("InMemoryMetricsStore"), met.cls("MetricsStore")
    te_f = met.methods(IM).get("to_externalizable")
    if te_f is None:
        raise AnchorMissing("InMemoryMetricsStore.to_externalizable")
    cp = params_of(te_f)[1] if len(params_of(te_f)) > 1 else None
    if cp is None:
        raise AnchorMissing("the clear parameter of InMemoryMetricsStore.to_externalizable")

    def ext(attr, docs, clear):
        out = []

        def make(oracle):
            it = _Interp([met], oracle)
            o = _O("store", IM, met, **({attr: docs()} if attr else {}))
            return (it, o), lambda: it.call(_Fn(te_f, met, o), [], {cp: clear}, te_f)

        for (it, o), ret in _explore(make):
            out.append((it, o, ret))
        return out

    docs_attr = None
    try:
        # which attribute is serialised: evaluated without values, the returned term names it
        attrs = sorted({a for it, o, ret in ext(None, None, False) for a in _self_attr_terms(ret, o)})
        if len(attrs) != 1:
            chk.unknown("O7.7", f"InMemoryMetricsStore.to_externalizable: the returned representation is built from attribute(s) {attrs}", te_f)
        else:
            docs_attr = attrs[0]
            orig = _rep(3, "doc")
            res = {c: ext(docs_attr, lambda: list(orig), c) for c in (True, False)}
            ok = all(_mentions(ret, orig) for it, o, ret in res[True])
            chk.ob("O7.7", "snapshot before reset", ok, te_f, "" if ok else "with clear=True the externalised value no longer contains the documents that were stored")
            bad = []
            for it, o, ret in res[True]:
                after = o.f.get(docs_attr)
                if not (isinstance(after, list) and not after):
                    bad.append(f"clear=True leaves {len(after) if isinstance(after, list) else after!r} document(s) in the store: handed over again at the next boundary")
            for it, o, ret in res[False]:
                after = o.f.get(docs_attr)
                if not (isinstance(after, list) and len(after) == 3 and all(a is b for a, b in zip(after, orig))):
                    bad.append("clear=False changes the stored documents")
            chk.ob("O7.7", "reset iff clear", not bad, te_f, "; ".join(bad[:2]))
            ok = all(_mentions(ret, orig) for it, o, ret in res[False])
            chk.ob("O7.7", "the snapshot is serialised", ok, te_f, "" if ok else "the externalised value is not built from the stored documents")
    except (_Undecided, _Need) as x:
        chk.unknown("O7.7", f"InMemoryMetricsStore.to_externalizable not evaluated: {x}", te_f)
    ba = met.methods(MS).get("bulk_add")
    if ba is None:
        raise AnchorMissing("MetricsStore.bulk_add")
    pm = met.methods(MS).get("_put_metric")
    if pm is None:
        raise AnchorMissing("MetricsStore._put_metric")
    # the store hooks, by role (who implements them and what they are handed), not by name: the per-record hook is the method of the concrete store that `_put_metric`
    # hands the record it built to; bulk_add may use the same hook per restored document or a hook of its own that takes the whole collection
    px, pm_calls = _store_hook_calls(met, pm)
    pm_hooks = sorted({c.func.attr for c in pm_calls})
    addname = pm_hooks[0] if len(pm_hooks) == 1 else None
    if docs_attr is not None:
        try:
            restored, old = _rep(3, "restored"), _rep(1, "old")
            memento = _O("memento")

            def restore(o):
                it = _Interp([met])
                it.model = lambda path, args, kwargs: list(restored) if path.endswith("loads") else args[0] if path.endswith("decompress") and args else NotImplemented
                it.call(_Fn(ba, met, o), [memento], {}, ba)
                return it

            o = _O("store", IM, met, **{docs_attr: list(old)})
            it = restore(o)
            _require_loops_modelled(it, [memento, restored])
            if not any(e.name == "loads" for e in it.effects):
                chk.unknown("O7.7", "MetricsStore.bulk_add: how the hand-over is restored (…loads) is not recognised", ba)
            else:
                got = o.f.get(docs_attr)
                ok = isinstance(got, list) and [getattr(x, "name", x) for x in got] == ["old0", "restored0", "restored1", "restored2"]
                chk.ob("O7.7", "bulk_add adds every restored document", ok, ba, "" if ok else f"after restoring 3 documents into a store holding 1: {[getattr(x, 'name', x) for x in got] if isinstance(got, list) else got!r}")
            # the hook(s) bulk_add uses, each evaluated on its own. What a hook is handed (one restored document per call / the restored collection) is observed by
            # evaluating bulk_add on a store whose hooks are left unmodelled: their calls are then recorded with their arguments
            ba_hooks = sorted({x.attr for x in ast.walk(_store_hook_calls(met, ba)[0]) if is_self_attr(x) and isinstance(x.ctx, ast.Load) and x.attr in met.methods(IM)})
            handed = {}
            if ba_hooks:
                o = _O("store", IM, met, **{docs_attr: list(old)})
                for h in ba_hooks:
                    o.on_read[h] = lambda h=h, o=o: _T("attr", o, h)
                handed = {h: [e.args + list(e.kwargs.values()) for e in restore(o).effects if e.path == f"store.{h}"] for h in ba_hooks}
            else:
                chk.unknown("O7.7", "the hook through which bulk_add hands the restored documents to the store: none found", ba)
            per_record = [addname] if addname is not None else []
            for h in ba_hooks:
                calls = handed.get(h) or []
                if calls and all(len(a) == 1 and any(a[0] is r for r in restored) for a in calls):
                    per_record += [h] if h not in per_record else []
                elif calls and all(len(a) == 1 and isinstance(a[0], (list, tuple)) and a[0] and all(any(x is r for r in restored) for x in a[0]) for a in calls):
                    # a hook that takes the collection: it must add every element once, in order, to what is already stored
                    hf = met.methods(IM)[h]
                    o = _O("store", IM, met, **{docs_attr: list(old)})
                    ds = _rep(2, "doc")
                    it = _Interp([met])
                    it.call(_Fn(hf, met, o), [list(ds)], {}, hf)
                    _require_loops_modelled(it, [ds])
                    got = o.f.get(docs_attr)
                    ok = isinstance(got, list) and len(got) == 3 and got[0] is old[0] and got[1] is ds[0] and got[2] is ds[1]
                    chk.ob("O7.7", "the collection hook of bulk_add appends every document", ok, hf, "" if ok else f"store holds {got!r} after adding two documents to one"[:160])
                elif h != addname:
                    chk.unknown("O7.7", f"what bulk_add hands to the store hook `{h}` is not recognised: {calls!r}"[:200], ba)
            if addname is None:
                chk.unknown("O7.7", f"the per-record hook `_put_metric` calls on the store: found {pm_hooks}", pm)
            for h in per_record:
                addf = met.methods(IM)[h]
                o = _O("store", IM, met, **{docs_attr: list(old)})
                d = _O("doc")
                _Interp([met]).call(_Fn(addf, met, o), [d], {}, addf)
                got = o.f.get(docs_attr)
                ok = isinstance(got, list) and len(got) == 2 and got[0] is old[0] and got[1] is d
                what = "one document to one"
                if ok:  # a record that equals the one stored last is a record of its own (two requests may yield equal documents)
                    what = "an equal document a second time"
                    _Interp([met]).call(_Fn(addf, met, o), [d], {}, addf)
                    got = o.f.get(docs_attr)
                    ok = isinstance(got, list) and len(got) == 3 and got[0] is old[0] and got[1] is d and got[2] is d
                chk.ob("O7.7", "_add appends the document", ok, addf, "" if ok else f"store holds {got!r} after adding {what}")
        except (_Undecided, _Need) as x:
            chk.unknown("O7.7", f"MetricsStore.bulk_add / the store's add hook not evaluated: {x}", ba)
    # _put_metric reaches the per-record hook on every normal path
    if addname is None:
        if docs_attr is None:
            chk.unknown("O7.7", f"the per-record hook `_put_metric` calls on the store: found {pm_hooks}", pm)
    else:
        gp = cfg_of(px)
        chk.ob("O7.7", "_put_metric stores the record on every normal path", gp.must_pass(gp.entry, [gp.node_of(n) for n in pm_calls]), pm, "")
    return docs_attr


class _EsFlush:
    """roles in EsMetricsStore, derived by evaluation: the buffer attribute (what the add hook appends to) and, in flush, the call that receives the buffer (the send)."""

    def __init__(self, met):
        self.EM = EM = met.cls("EsMetricsStore")
        emm = met.methods(EM)
        hook = _record_hook(met) or "_add"  # the per-record hook by role (what `_put_metric` hands the record to)
        self.add, self.fl = emm.get(hook), emm.get("flush")
        if self.fl is None or self.add is None:
            raise AnchorMissing(f"EsMetricsStore.flush / EsMetricsStore.{hook}")
        d = _O("doc")

        def make(oracle):  # (a hook that tests the not yet known buffer first is followed on both arms)
            it = _Interp([met], oracle)
            o = _O("store", EM, met)
            return (it, o), lambda: it.call(_Fn(self.add, met, o), [d], {}, self.add)

        bufs = sorted({a for (it, o), _ in _explore(make) for a in {e.path.split(".")[1] for e in it.effects if e.path.startswith("store.") and e.path.count(".") == 2 and any(x is d for x in e.args)}
                       | {a for a, v in o.f.items() if _mentions(v, d)}})
        if len(bufs) != 1:
            raise AnchorMissing(f"the buffer attribute of EsMetricsStore (what `_add` appends the record to): found {bufs}")
        self.buf = bufs[0]
        self.met = met

    def run(self, content, refresh):
        """[(interp, store object, send effects)] per path"""
        met, EM, buf = self.met, self.EM, self.buf

        def make(oracle):
            it = _Interp([met], oracle)
            o = _O("store", EM, met, **{buf: list(content)})
            it.watch = lambda: (o.f.get(buf), list(o.f[buf]) if isinstance(o.f.get(buf), list) else None)
            return (it, o), lambda: it.call(_Fn(self.fl, met, o), [], {params_of(self.fl)[1]: refresh} if len(params_of(self.fl)) > 1 else {}, self.fl)

        out = []
        for (it, o), _ in _explore(make):
            _require_loops_modelled(it, [content])
            sends = [e for e in it.effects if "logg" not in e.path.lower() and any(isinstance(a, list) and (a is e.state[0] or (a and all(isinstance(x, _O) and x.name.startswith("buffered") for x in a)) or (not content and a == []))
                                                                                  for a in e.args + list(e.kwargs.values()))]
            out.append((it, o, sends))
        return out

    def send_nodes(self):
        return [e.node for _, _, sends in self.run(_rep(2, "buffered"), True) for e in sends]


def _o710(chk, met):
    try:
        es = _EsFlush(met)
        EM, buf, fl = es.EM, es.buf, es.fl
        old, d = _rep(1, "buffered"), _O("doc")
        o = _O("store", EM, met, **{buf: list(old)})
        _Interp([met]).call(_Fn(es.add, met, o), [d], {}, es.add)
        got = o.f.get(buf)
        ok = isinstance(got, list) and len(got) == 2 and got[0] is old[0] and got[1] is d
        what = "one record to one"
        if ok:  # a record that equals the one buffered last is a record of its own
            what = "an equal record a second time"
            _Interp([met]).call(_Fn(es.add, met, o), [d], {}, es.add)
            got = o.f.get(buf)
            ok = isinstance(got, list) and len(got) == 3 and got[0] is old[0] and got[1] is d and got[2] is d
        chk.ob("O7.10", "_add appends the record to the buffer", ok, es.add, "" if ok else f"buffer holds {got!r} after adding {what}")
        content = _rep(2, "buffered")
        bad_send, bad_empty = [], []
        nodes = []
        for refresh in (True, False):
            for it, o, sends in es.run(content, refresh):
                whole = [e for e in sends if any(isinstance(a, list) and len(a) == 2 and all(x is y for x, y in zip(a, content)) for a in e.args + list(e.kwargs.values()))]
                nodes += [e.node for e in sends]
                if len(sends) != 1 or len(whole) != 1:
                    bad_send.append(f"refresh={refresh}: {len(sends)} call(s) receive the buffer, {len(whole)} of them all 2 buffered records")
                elif whole[0].state[1] is None or len(whole[0].state[1]) != 2:
                    bad_empty.append(f"refresh={refresh}: the buffer holds {whole[0].state[1]!r} when the send is issued")
                after = o.f.get(buf)
                if not (isinstance(after, list) and not after):
                    bad_empty.append(f"refresh={refresh}: {len(after) if isinstance(after, list) else after!r} record(s) remain buffered after the flush: sent again by the next one")
        chk.ob("O7.10", "flush sends the whole buffer (guarded only by non-emptiness)", not bad_send, nodes[0] if nodes else fl, "; ".join(bad_send[:2]))
        # only after: on the routine's control flow, the reset is not followed by the send and every normal path from the send reaches it
        rs = [n for n in walk_body(fl) if isinstance(n, (ast.Assign, ast.AugAssign)) and any(is_self_attr(x, buf) and isinstance(x.ctx, ast.Store) for t in (n.targets if isinstance(n, ast.Assign) else [n.target]) for x in ast.walk(t))]
        bi = [n for n in dict.fromkeys(nodes) if n is not None and source.enclosing_func(n) is fl]
        if bi and rs and not bad_empty:
            gfl = cfg_of(fl)
            if any(gfl.path_exists(gfl.node_of(r), gfl.node_of(bi[0])) for r in rs):
                bad_empty.append("the buffer can be emptied on a path that reaches the send afterwards")
            if not gfl.must_pass(gfl.node_of(bi[0]), [gfl.node_of(r) for r in rs], normal_only=True):
                bad_empty.append("a normal path from the send leaves flush without emptying the buffer")
        chk.ob("O7.10", "buffer emptied after (and only after) the send returned", not bad_empty, rs[0] if rs else fl, "; ".join(bad_empty[:2]))
    except (_Undecided, _Need) as x:
        chk.unknown("O7.10", f"EsMetricsStore.flush / _add not evaluated: {x}", met.cls("EsMetricsStore"))
    flush_no_fallible_gap(chk, "O7.10", met)
    EM, MS, IM = met.cls("EsMetricsStore"), met.cls("MetricsStore"), met.cls("InMemoryMetricsStore")
    te2 = met.methods(EM).get("to_externalizable")
    if te2 is None:
        raise AnchorMissing("EsMetricsStore.to_externalizable")
    try:
        cp = params_of(te2)[1] if len(params_of(te2)) > 1 else None
        rets = [ret for c in (True, False) for _, _, ret in _eval_paths([met], te2, met, lambda: _O("store", EM, met), [], {cp: c} if cp else {})]
        chk.ob("O7.10", "hand-over representation is None", all(r is None for r in rets), te2, "" if all(r is None for r in rets) else f"returns {rets!r}"[:120])
    except (_Undecided, _Need) as x:
        chk.unknown("O7.10", f"EsMetricsStore.to_externalizable not evaluated: {x}", te2)
    ba2 = met.methods(MS).get("bulk_add")
    if ba2 is None:
        raise AnchorMissing("MetricsStore.bulk_add")
    try:
        bad = []
        for it, o, _ in _eval_paths([met], ba2, met, lambda: _O("store", IM, met), [None]):
            touched = [e.path for e in it.effects if "logg" not in e.path.lower() and e.name not in ("debug", "info")]
            if touched or o.f:
                bad.append(f"a None hand-over reaches {touched[:2] or sorted(o.f)}")
        chk.ob("O7.10", "bulk_add ignores an empty (None) hand-over", not bad, ba2, "; ".join(bad[:2]))
    except (_Undecided, _Need) as x:
        chk.unknown("O7.10", f"MetricsStore.bulk_add(None) not evaluated: {x}", ba2)


# ---- O7.9 ----------------------------------------------------------------------------------------------------------------------------------------------------
def _o79(chk, drv):
    flow = _flow_of(drv)
    W = drv.cls("Worker")
    wm = drv.methods(W)
    ship = set(flow.drainers())
    handlers = {n for n in wm if n.startswith("receiveMsg_") or n == "receiveUnrecognizedMessage"}

    def is_barrier(c, defs):
        if not (isinstance(c, ast.Call) and last_attr(c.func) in ("send", "tell") and len(c.args) >= 2):
            return False
        m = c.args[1]
        m = defs.get(m.id, m) if isinstance(m, ast.Name) else m
        return isinstance(m, ast.Call) and last_attr(m.func) == "JoinPointReached"

    # the routine in which the join-point arm is visible: the outermost non-handler method that, together with its helpers, sends JoinPointReached
    cands = {}
    for n, f in wm.items():
        if n in ship or n == "__init__":
            continue
        X = _Expand(drv, W, keep=ship)
        fx = X.function(f)
        fdefs = local_defs(fx)
        if any(is_barrier(c, fdefs) for c in walk_body(fx)):
            cands[n] = (fx, set(X.inlined))
    pool = {n: v for n, v in cands.items() if n not in handlers} or cands
    outer = [n for n in pool if not any(n in inl for m, (_, inl) in pool.items() if m != n)]
    if len(outer) != 1:
        raise AnchorMissing(f"the routine of Worker that sends JoinPointReached: found {sorted(outer) or sorted(cands)}")
    wd, (wx, inlined) = wm[outer[0]], pool[outer[0]]
    gw, wdefs = cfg_of(wx), _alias_defs(wx)
    jp = [c for c in walk_body(wx) if is_barrier(c, wdefs)]
    sc = [c for c in walk_body(wx) if isinstance(c, ast.Call) and is_self_attr(c.func) and c.func.attr in ship]
    ok = bool(sc) and all(gw.dominated_by_nodes(gw.node_of(j), [gw.node_of(c) for c in sc]) for j in jp)
    chk.ob("O7.9", "send_samples() on every path to JoinPointReached", ok, jp[0], "" if ok else "the final drain is conditional or missing")
    drop = [n for n in walk_body(wx) if isinstance(n, ast.Assign) and any(is_self_attr(t, flow.sampler) for t in n.targets) and source.is_const(n.value) and n.value.value is None]
    ok = bool(sc) and all(gw.dominated_by_nodes(gw.node_of(d), [gw.node_of(c) for c in sc]) for d in drop)
    chk.ob("O7.9", "final drain precedes dropping the sampler", ok, drop[0] if drop else wd, "")
    res = [n for n in walk_body(wx) if isinstance(n, ast.Call) and isinstance(n.func, ast.Attribute) and n.func.attr in ("result", "exception") and flow._is(n.func.value, flow.future, wdefs)]
    # the drains that no wait for the executor can follow (an additional, earlier drain - e.g. on entry to drive() - is harmless) still cover every path to the barrier message
    late = [c for c in sc if not any(gw.path_exists(gw.node_of(c), gw.node_of(r)) for r in res)]
    opaque = [c.func.attr for c in walk_body(wx) if isinstance(c, ast.Call) and is_self_attr(c.func) and c.func.attr in wm and c.func.attr not in ship and c.func.attr != wd.name
              and any(isinstance(x, ast.Attribute) and x.attr in ("result", "exception") for x in ast.walk(wm[c.func.attr]))]
    # the future handed to something else than result() / exception() (concurrent.futures.wait(...), a done() poll, a callback ...): a wait in a spelling this rule does not know
    elsewhere = [x for x in walk_body(wx) if isinstance(x, ast.Call) and not (isinstance(x.func, ast.Attribute) and x.func.attr in ("result", "exception", "submit"))
                 and (any(flow._is(a, flow.future, wdefs) for a in list(x.args) + [k.value for k in x.keywords] + [e for a in x.args if isinstance(a, (ast.List, ast.Tuple, ast.Set)) for e in a.elts])
                      or (isinstance(x.func, ast.Attribute) and flow._is(x.func.value, flow.future, wdefs)))]
    if not res and opaque:
        chk.unknown("O7.9", f"the wait for the executor may happen inside `{opaque[0]}`, which is not analysed together with `{wd.name}`", wd)
    elif not res and elsewhere:
        chk.unknown("O7.9", f"how `{wd.name}` waits for the executor is not recognised (`{short(elsewhere[0], 50)}` instead of result() / exception() on the future)", elsewhere[0])
    else:
        ok = bool(res) and bool(late) and all(gw.dominated_by_nodes(gw.node_of(j), [gw.node_of(c) for c in late]) for j in jp)
        chk.ob("O7.9", "the executor has finished before the final drain", ok, late[0] if late else (sc[0] if sc else wd), "" if ok else "no drain after the wait for the executor covers every path to JoinPointReached")
    # periodic drain in the wake-up handler
    wk = wm.get("receiveMsg_WakeupMessage")
    if wk is None:
        raise AnchorMissing("Worker.receiveMsg_WakeupMessage")
    kx = _Expand(drv, W, keep=ship | {wd.name}).function(wk)
    pdr = [c for c in walk_body(kx) if isinstance(c, ast.Call) and is_self_attr(c.func) and c.func.attr in ship]
    chk.ob("O7.9", "periodic drain on wake-up", bool(pdr), wk, "")
    drain_before_drive_rule(chk, "O7.9", drv)
    # periodic shipping while the executor runs: the wake-up that finds it still running (the one that re-arms the timer) has shipped what was queued so far
    gk = cfg_of(kx)
    rearm = [c for c in walk_body(kx) if isinstance(c, ast.Call) and is_self_attr(c.func) and c.func.attr == "wakeupAfter"]
    if not rearm:
        chk.unknown("O7.9", "the wake-up handler does not re-arm its timer itself (wakeupAfter not found in it or its helpers)", wk)
    else:
        ok = bool(pdr) and all(gk.dominated_by_nodes(gk.node_of(r), [gk.node_of(d) for d in pdr]) for r in rearm)
        chk.ob("O7.9", "the wake-up that finds the executor still running ships the queued samples before it re-arms the timer", ok, rearm[0],
               "" if ok else "the periodic wake-up re-arms the timer without shipping: samples pile up in the bounded queue until the task ends (and are dropped once it is full)",
               key=f"{_D}:Worker.receiveMsg_WakeupMessage:periodic-drain-before-rearm")
    repl = [n for n in walk_body(wx) if isinstance(n, ast.Assign) and any(is_self_attr(t, flow.sampler) for t in n.targets) and isinstance(n.value, ast.Call)]
    others = [n for f_ in wm.values() if f_ is not wd and f_.name != "__init__" and f_.name not in inlined for n in walk_body(f_)
              if isinstance(n, ast.Assign) and any(is_self_attr(t, flow.sampler) for t in n.targets)]
    if not repl and not others:
        chk.unknown("O7.9", f"no replacement of the sampler located in `{wd.name}` and its helpers", wd)
    else:
        chk.ob("O7.9", "the sampler is replaced only in drive()", bool(repl) and not others, others[0] if others else wd, "" if not others else f"`{short(others[0], 50)}` in {source.qualname(others[0])}")


# ---- O7.11 ---------------------------------------------------------------------------------------------------------------------------------------------------
def _sample_type_position(drv, arity, async_consumer=None):
    """index of the element that carries a metrics.SampleType in the tuples the schedule generator yields: the element read from a property whose returns mention SampleType"""
    props = {f.name for c in drv.classes() for f in drv.methods(c).values() if _is_property(f)
             and any(isinstance(r, ast.Return) and r.value is not None and any(isinstance(x, ast.Attribute) and (dotted(x) or "").split(".")[-2:-1] == ["SampleType"] for x in ast.walk(r.value)) for r in walk_body(f))}
    pos = None
    for f in drv.functions():
        ys = [y.value for y in walk_body(f) if isinstance(y, ast.Yield) and isinstance(y.value, ast.Tuple) and len(y.value.elts) == arity]
        if not ys:
            continue
        if async_consumer is not None and isinstance(f, ast.AsyncFunctionDef) != async_consumer:
            continue  # an `async for` consumes an asynchronous generator (and a `for` a plain one): other generators yielding tuples of this size are not the schedule
        here = None
        binds = {}
        for n in walk_body(f):
            if isinstance(n, ast.Assign):
                for t in n.targets:
                    if isinstance(t, ast.Name):
                        binds.setdefault(t.id, []).append(n.value)
            elif isinstance(n, ast.Name) and isinstance(n.ctx, ast.Store) and not (isinstance(source.parent(n), ast.Assign) and n in source.parent(n).targets):
                binds.setdefault(n.id, []).append(None)  # bound some other way (loop target, unpacking, with ... as): not followed

        def reads_prop(e):  # the property read itself, or a local every binding of which is such a read
            if isinstance(e, ast.Name):
                vs = binds.get(e.id, [])
                return bool(vs) and all(isinstance(v, ast.Attribute) and v.attr in props for v in vs)
            return isinstance(e, ast.Attribute) and e.attr in props

        for y in ys:
            p = {i for i, e in enumerate(y.elts) if reads_prop(e)}
            here = p if here is None else here & p
        if here:
            pos = here if pos is None else pos | here
    return sorted(pos or ())


def _o711(chk, drv, ex, holders):
    h_attr, h_par, _ = holders
    EX = source.enclosing_class(ex)
    S, q, drain_fn, add_fn, qcalls = _sampler_roles(drv)
    exx = _Expand(drv, EX).function(ex)
    edefs = local_defs(exx)
    mine = {a for c, a in h_attr if c == EX.name}
    if not mine:
        raise AnchorMissing("the attribute of AsyncExecutor that holds the worker's sampler (followed from Worker through the constructors)")

    def is_sampler(e, depth=0):
        if isinstance(e, ast.Name) and e.id in edefs and depth < 4:
            return is_sampler(edefs[e.id], depth + 1)
        return is_self_attr(e) and e.attr in mine

    def is_add(fn_, depth=0):
        if isinstance(fn_, ast.Name) and fn_.id in edefs and depth < 4:
            return is_add(edefs[fn_.id], depth + 1)
        return isinstance(fn_, ast.Attribute) and fn_.attr == add_fn.name and is_sampler(fn_.value)

    adds = [c for c in walk_body(exx) if isinstance(c, ast.Call) and is_add(c.func)]
    if not adds:
        raise AnchorMissing(f"the call of Sampler.{add_fn.name} on the executor's sampler in AsyncExecutor.__call__")
    # the role chain: record field sample_type <- sample attribute A <- (Sample constructor) <- parameter P of the sampler's add <- the executor's argument. The first two links
    # are decided on VALUES: A is the attribute of the representative samples whose value the evaluated post-processor writes into the sample_type field of the three records
    # (whatever locals / aliases / helpers the value travels through), P is the parameter of the add routine whose marker value arrives in attribute A of the object that the
    # evaluated add routine enqueues (whatever the constructor of that object looks like).
    sm = drv.methods(S)
    add_orig = sm.get(add_fn.name, add_fn)
    runs = getattr(drv, "_c07_pp", None)
    if not runs:
        chk.unknown("O7.11", "which sample attribute becomes the sample type of the records is not recognised: the post-processor was not evaluated (see O7.5)", add_orig)
        return
    A = set()
    for f, s_, t_, _ in runs[0].records:
        if s_ is None or t_ is not None or f.get("name") not in _RECORDS:
            continue
        v = f.get("sample_type")
        if isinstance(v, _T) and v.op == "attr" and v.args[0] is s_:
            A.add(v.args[1])  # read from the sample without a representative value: the term names the attribute
        else:
            A |= {k for k, x in s_.f.items() if not isinstance(x, (_O, list, dict)) and x is not None and _same(x, v)} or {None}
    P = None
    why = f"sample attribute(s) whose value the post-processor records as sample type: {sorted(map(str, A))}"
    if len(A) == 1 and None not in A:
        attr = next(iter(A))
        ps = params_of(add_orig)[1:] + [a.arg for a in add_orig.args.kwonlyargs]
        try:
            def make(oracle):
                qm = _QueueModel([])
                marks = {p: _T("global", f"arg:{p}") for p in ps}
                return (qm, marks), lambda: _sampler_eval(drv, S, q, add_orig, qm, [], marks, oracle)

            found = set()
            for (qm, marks), (ret, exc, it) in _explore(make):
                for obj in qm.put_calls:
                    v = _Interp([drv]).getattr(obj, attr) if isinstance(obj, _O) else None
                    found.add(next((p for p, m in marks.items() if v is m or (isinstance(v, _T) and v == m)), None))
            if len(found) == 1 and None not in found:
                P = next(iter(found))
            else:
                why = f"attribute `{attr}` of the enqueued object is fed from parameter(s) {sorted(map(str, found))} of `{add_orig.name}`"
        except (_Undecided, _Need) as x:
            why = f"`{add_orig.name}` not evaluated: {x}"
    if P is None:
        chk.unknown("O7.11", f"the parameter of Sampler.{add_fn.name} that becomes the sample type of the records is not recognised ({why})", add_orig)
        return
    for c in adds:
        L = source.enclosing(c, (ast.AsyncFor, ast.For))
        targets = (L.target.elts if isinstance(L.target, ast.Tuple) else [L.target]) if L is not None else []
        pos = _sample_type_position(drv, len(targets), isinstance(L, ast.AsyncFor)) if targets else []
        a = source.bind_args(c, add_orig).get(P)
        if L is None or len(pos) != 1 or a is None or not isinstance(targets[pos[0]], ast.Name):
            chk.unknown("O7.11", f"request loop / position of the sample type in what the schedule yields / argument for `{P}` not recognised (positions {pos})", c)
            continue
        want = targets[pos[0]]
        r = a
        while isinstance(r, ast.Name) and r.id in edefs and r.id != want.id:
            r = edefs[r.id]
        ok = isinstance(r, ast.Name) and r.id == want.id
        if not ok and any(isinstance(x, ast.Name) and x.id == want.id for x in ast.walk(source.inline_node(r, edefs))):
            # computed FROM the schedule's sample type, but not the value itself: whether it is preserved is a question about values this rule has no answer to
            chk.unknown("O7.11", f"`{P}` := {short(a, 40)} is computed from the schedule's sample type `{want.id}`; whether it equals it is not decided", c)
            continue
        chk.ob("O7.11", "sampler.add receives the sample type yielded by the schedule for this request", ok, c,
               f"`{P}` := {short(a, 40)}; the schedule's sample type is loop target {pos[0]} (`{u(want)}`) of {[u(t) for t in targets]}")


# ---- O7.12 / O7.13: where the samples are PRODUCED (the request loop of the load generator, the composite runner) ----------------------------------------------
class _ModelInterp(_Interp):
    """_Interp with three hooks through which a rule supplies its model of what the evaluated routine does not build itself:
         decide(term)                   -> truth of an unknown value (None: not decided by the model, explored both ways)
         intercept(callee, args, kwargs) -> value of a call (NotImplemented: evaluated as usual)
         stream(term, iter node)        -> the elements of a collection that is not modelled (None: the loop is skipped and remembered, as usual)
       `not <term>` is decided as the negation of <term> (one decision, not two)."""

    def __init__(self, mods, oracle=()):
        super().__init__(mods, oracle)
        self.decide = self.intercept = self.stream = None

    def truth(self, v):
        if isinstance(v, _T):
            if v.op == "not" and len(v.args) == 1:
                return not self.truth(v.args[0])
            if self.decide is not None:
                d = self.decide(v)
                if d is not None:
                    return d
        return super().truth(v)

    def iterate(self, v, node):
        if isinstance(v, _T) and self.stream is not None:
            r = self.stream(v, node)
            if r is not None:
                return list(r)
        return super().iterate(v, node)

    def call(self, f, args, kwargs, node):
        if self.depth > 0 and self.intercept is not None:
            r = self.intercept(f, args, kwargs)
            if r is not NotImplemented:
                return r
        return super().call(f, args, kwargs, node)


class _RequestLoop:
    """The load generator's request loop (AsyncExecutor.__call__) evaluated on an EMPTY executor object - every attribute it reads is a term named after the attribute, so no
    constructor parameter, attribute or local is located by name - for a schedule of `n` requests and one interleaving of the events the loop can observe:
      the schedule   the collection the routine's `async for` runs over hands out n rows; the elements of row i are terms derived from the term `request<i>` (whatever the
                     arity and the order of a row are)
      a request      is EXECUTED when an element of a row is called (the runner; through execute_single or directly); it answers {weight, unit, success}
      ext_at = j     the completion event of the parallel element (the event the executor itself sets when a completing task ends, see `completion_event`) is set by ANOTHER
                     client while request j is in flight: is_set() on it answers False until j requests have been executed, True afterwards (0: never). Other events: never set.
      done_at = j    the runner reports completion with request j: an attribute of an element of row j that is tested for truth is true, of other rows false (0: never)
      throttled      comparisons computed from the scheduled time of a request (the task has a target throughput and the request is due in the future)
      fail_at = j    request j fails: the runner answers {weight 0, success False}. Whether the task aborts on errors is left open; a decision sequence on which the routine ends
                     with an exception (the race fails, no sample matters) is counted in `aborted` and not kept in `paths`.
    Unknown values the model does not decide (does the task complete its parent, is there a ramp-up wait ...) are explored both ways: `paths` holds, per decision sequence,
    (decisions that were true, requests executed, effects, executor object). Nothing of the repository is run."""

    def __init__(self, drv, EX, fn, n, event=None, ext_at=0, done_at=0, throttled=False, fail_at=0):
        self.paths, self.aborted = [], 0
        bases = [_T("global", f"request{i + 1}") for i in range(n)]
        self.bases = bases

        def row_of(v):
            return next((i for i, b in enumerate(bases) if _contains_term(v, b)), None)

        def make(oracle):
            it = _ModelInterp([drv], oracle)
            selfo = _O("executor", EX, drv)
            done, handed = [], []

            def stream(v, node):
                L = source.parent(node)
                if not isinstance(L, ast.AsyncFor) or handed:
                    return None
                handed.append(v)
                k = len(L.target.elts) if isinstance(L.target, (ast.Tuple, ast.List)) else None
                return [b if k is None else tuple(_T("item", b, j) for j in range(k)) for b in bases]

            def intercept(f, args, kwargs):
                if not isinstance(f, _T):
                    return NotImplemented
                if f.op == "item" and row_of(f) is not None:
                    done.append(row_of(f))
                    return {"weight": 0, "unit": "ops", "success": False} if fail_at == row_of(f) + 1 else {"weight": 1, "unit": "ops", "success": True}
                if f.op == "attr" and f.args[1] == "is_set" and not args and not kwargs:
                    return bool(event is not None and ext_at and _RequestLoop.chain(f.args[0], selfo) == event and len(done) >= ext_at)
                return NotImplemented

            def decide(v):
                i = row_of(v)
                if i is None:
                    return None
                if v.op == "attr":
                    return done_at == i + 1
                if v.op == "cmp":
                    return throttled
                return None

            it.stream, it.intercept, it.decide = stream, intercept, decide

            def go():
                try:
                    it.call(_Fn(fn, drv, selfo), [], {}, fn)
                except _Undecided:
                    if it.raised is None:
                        raise
                    return True
                return False

            return (it, selfo, done), go

        for (it, selfo, done), aborted in _explore(make):
            if aborted:
                self.aborted += 1
            else:
                self.paths.append((sorted(k for k, v in it.memo.items() if v), list(done), list(it.effects), selfo))

    @staticmethod
    def chain(v, selfo):
        """the attribute names that lead from the executor object to the term v (`self.a.b` -> ("a", "b")); None if v is not such a chain"""
        names = []
        while isinstance(v, _T) and v.op == "attr":
            names.append(v.args[1])
            v = v.args[0]
        return tuple(reversed(names)) if v is selfo and names else None

    @staticmethod
    def completion_event(drv, EX, fn):
        """Role: the event through which the executor signals that a completing task has ended = the receiver of the `.set()` calls the routine makes for an empty schedule
        (whichever helper makes them), as the chain of attributes that leads to it from the executor. None if there is not exactly one."""
        run_ = _RequestLoop(drv, EX, fn, 0)
        evs = set()
        for _, _, effects, selfo in run_.paths:
            for e in effects:
                c = e.callee
                if isinstance(c, _T) and c.op == "attr" and c.args[1] == "set" and _RequestLoop.chain(c.args[0], selfo) is not None:
                    evs.add(_RequestLoop.chain(c.args[0], selfo))
        return next(iter(evs)) if len(evs) == 1 else None


_LOOP_SCENARIOS = (
    ("no event", dict()),
    ("the task has a target throughput (requests are due in the future)", dict(throttled=True)),
    ("another client completes the parallel element while request 1 is in flight", dict(ext_at=1)),
    ("another client completes the parallel element while request 2 is in flight", dict(ext_at=2)),
    ("another client completes the parallel element while the last request is in flight", dict(ext_at=3)),
    ("the runner reports completion with request 1", dict(done_at=1)),
    ("the runner reports completion with request 2", dict(done_at=2)),
    ("the runner reports completion with request 2 while another client completes the parallel element", dict(done_at=2, ext_at=2)),
    ("request 2 fails and the task goes on", dict(fail_at=2)),
)


def _o712(chk, drv, ex, holders):
    """Decided on VALUES (see _RequestLoop): for every scenario and every decision on what the model leaves open, the requests that were executed are exactly the requests for
    which the sampler's add routine was called, once each. Structural is only which attribute of the executor holds the worker's sampler (followed from the Worker through the
    constructors) and what the add routine of the sampler is called."""
    h_attr, _, _ = holders
    EX = source.enclosing_class(ex)
    _, _, _, add_fn, _ = _sampler_roles(drv)
    mine = {a for c, a in h_attr if EX is not None and c == EX.name}
    if not mine:
        raise AnchorMissing("the attribute of AsyncExecutor that holds the worker's sampler (followed from Worker through the constructors)")
    try:
        event = _RequestLoop.completion_event(drv, EX, ex)
        if event is None:
            chk.unknown("O7.12", "the completion event of the load generator (the one event it sets itself when a completing task has ended) is not recognised", ex)
            return
        runs = [(name, kw, _RequestLoop(drv, EX, ex, 3, event=event, **kw)) for name, kw in _LOOP_SCENARIOS]
    except (_Undecided, _Need) as x:
        chk.unknown("O7.12", f"the request loop of the load generator is not evaluated on the model schedule: {x}", ex)
        return

    def is_add(e, selfo):
        c = e.callee
        return isinstance(c, _T) and c.op == "attr" and c.args[1] == add_fn.name and isinstance(c.args[0], _T) and c.args[0].op == "attr" and c.args[0].args[0] is selfo and c.args[0].args[1] in mine

    def owner(e, bases):
        """the request a call of the add routine belongs to: the row of the loop iteration it was made under, else the row its arguments were computed from"""
        under = [i for i, b in enumerate(bases) if any(_contains_term(c, b) for c in e.ctx)]
        return under[-1] if under else next((i for i, b in enumerate(bases) if any(_contains_term(a, b) for a in e.args + list(e.kwargs.values()))), None)

    if not any(done for _, _, r in runs for _, done, _, _ in r.paths):
        chk.unknown("O7.12", "no request is executed on the model schedule (the runner the schedule hands out is never called): the request loop is not recognised", ex)
        return
    if not any(is_add(e, selfo) for _, _, r in runs for _, _, effects, selfo in r.paths for e in effects):
        chk.unknown("O7.12", f"no call of `{add_fn.name}` on the executor's sampler ({sorted(mine)}) is made on the model schedule: where requests are sampled is not recognised", ex)
        return
    for name, kw, r in runs:
        bad, site = [], ex
        if not r.paths:
            chk.unknown("O7.12", f"scenario `{name}`: the request loop ends with an exception on every decision sequence", ex)
            continue
        for dec, done, effects, selfo in r.paths:
            adds = [e for e in effects if is_add(e, selfo)]
            got = sorted((-1 if owner(e, r.bases) is None else owner(e, r.bases)) + 1 for e in adds)
            want = sorted(i + 1 for i in done)
            if got != want:
                site = next((e.node for e in adds if isinstance(e.node, ast.AST)), ex)
                bad.append(f"requests executed {want}, samples handed to the sampler for {got}" + (f" (when {', '.join(d[:70] for d in dec)})" if dec else ""))
        chk.ob("O7.12", f"every executed request is handed to the sampler exactly once: {name}", not bad, site, "; ".join(dict.fromkeys(bad)) if bad else
               f"schedule of 3 requests, {len(r.paths)} decision sequence(s): requests executed / sampled {sorted({tuple(i + 1 for i in done) for _, done, _, _ in r.paths})}",
               key=f"{_D}:AsyncExecutor.__call__:request-sampled:{name}")


_RN = "esrally/driver/runner.py"


def _leaf(k, op_type):
    return {"name": f"sub-{k}", "operation-type": op_type}


def _structures(op_type):
    """representative request structures of a composite operation: [(description, structure, leaves)]"""
    out = []
    for name, shape in (
            ("a plain sequence of sub-requests", [0, 1]),
            ("streams at the end of the structure", [0, [1, 2], [3]]),
            ("streams that are followed by another sub-request (open-point-in-time, concurrent searches, close-point-in-time)", [0, [1, 2], [3], 4]),
            ("two groups of streams, each followed by a sub-request", [[0], 1, [2, 3], 4]),
            ("nested streams", [[[0, 1], 2, [3]], 4, [[5]]])):
        leaves = {}

        def build(x):
            if isinstance(x, list):
                return {"stream": [build(y) for y in x]}
            leaves[x] = _leaf(x, op_type)
            return leaves[x]

        out.append((name, [build(x) for x in shape], leaves))
    return out


_AWAITED_AS_IS = ("create_task", "ensure_future", "shield", "wait_for")  # asyncio wrappers whose awaited result is the result of their first argument


def _composite_run(rn, C, structure, leaves, oracle):
    """Composite.__call__ evaluated for one request structure. A sub-request is EXECUTED when an object that is not the composite itself is called with the description of a
    leaf (the timing wrapper around the leaf's runner); it answers a response that carries a dependent timing. Coroutines are evaluated where they are created:
    create_task(c) / ensure_future(c) stand for c's result, gather(*cs) for the list of results. Returns (interp, go) for _explore; go() -> (value returned, responses handed out)."""
    it = _ModelInterp([rn], oracle)
    handed = []

    def intercept(f, args, kwargs):
        vals = list(args) + list(kwargs.values())
        if isinstance(f, (_O, _T)):
            hit = [k for k, lf in leaves.items() if any(a is lf or (isinstance(a, dict) and a.get("name") == lf["name"]) for a in vals)]  # (the description itself or a copy of it)
            if len(hit) == 1 and not (isinstance(f, _O) and f.cls is C):
                resp = {"weight": 1, "unit": "ops", "success": True, "dependent_timing": {"operation": leaves[hit[0]]["name"], "service_time": 0.25 + hit[0]}}
                handed.append((hit[0], resp))
                return resp
        if isinstance(f, _T):
            last = (f.path() or "").rsplit(".", 1)[-1]
            if last in _AWAITED_AS_IS and args and not isinstance(args[0], _T):
                return args[0]
            if last == "gather" and not any(isinstance(a, _T) for a in args):
                return list(args)
        return NotImplemented

    it.intercept = intercept

    def go():
        o = it.call(_Cls(C, rn), [], {}, C)
        it.effects.clear()
        return it.call(o, [_T("global", "es"), {"name": "composite-op", "requests": structure}], {}, C), handed

    return it, go


def _o713(chk, repo):
    """Decided on VALUES: the composite runner is evaluated on representative request structures; the list it returns as the request's dependent timings must hold the response
    of every executed sub-request exactly once - whichever way the streams are joined (loop, comprehension, helper, chain) and wherever in the structure they stand."""
    rn = repo.module(_RN)
    chk.use(rn)
    C = rn.cls("Composite")
    call = rn.methods(C).get("__call__")
    if call is None:
        raise AnchorMissing("Composite.__call__")
    # the operation type of the model sub-requests: one the composite accepts (read off the evaluated constructor, whatever container it keeps them in)
    op_type = "search"
    try:
        it0 = _Interp([rn])
        o = it0.call(_Cls(C, rn), [], {}, C)
        for v in o.f.values():
            if isinstance(v, (list, tuple, set)) and v and all(isinstance(x, str) for x in v):
                op_type = sorted(v)[0] if op_type not in v else op_type
                break
    except (_Undecided, _Need):
        pass
    for name, structure, leaves in _structures(op_type):
        key = f"{_RN}:Composite.__call__:dependent-timings:{name}"
        what = f"the composite request's dependent timings hold every executed sub-request exactly once: {name}"
        try:
            runs = _explore(lambda oracle: _composite_run(rn, C, structure, leaves, oracle))
        except (_Undecided, _Need) as x:
            chk.unknown("O7.13", f"Composite.__call__ not evaluated on the structure `{name}`: {x}", call)
            continue
        bad, unk = [], None
        for it, (ret, handed) in runs:
            lists = [v for v in (ret.values() if isinstance(ret, dict) else [ret]) if isinstance(v, list)]
            if len(lists) != 1:
                unk = f"what Composite.__call__ returns ({ret!r:.80}) carries {len(lists)} lists: the dependent timings are not recognised"
                break
            foreign = [x for x in lists[0] if not any(x is r for _, r in handed)]
            if foreign:
                unk = f"the returned timings contain `{foreign[0]!r:.60}`, which is not the response of a model sub-request"
                break
            if len(handed) != len(leaves):
                unk = f"{len(handed)} of the {len(leaves)} sub-requests of the structure are executed on the model"
                break
            counts = {k: sum(1 for x in lists[0] if x is r) for k, r in handed}
            lost, dup = sorted(k for k, c in counts.items() if c == 0), sorted(k for k, c in counts.items() if c > 1)
            if lost or dup:
                bad.append(f"{len(handed)} sub-requests executed, {len(lists[0])} timings returned"
                           + (f"; no timing for {[leaves[k]['name'] for k in lost]}" if lost else "") + (f"; more than one timing for {[leaves[k]['name'] for k in dup]}" if dup else ""))
        if unk is not None:
            chk.unknown("O7.13", f"structure `{name}`: {unk}", call)
            continue
        chk.ob("O7.13", what, not bad, call, "; ".join(dict.fromkeys(bad)) if bad else f"{len(leaves)} sub-requests executed, one timing each ({len(runs)} decision sequence(s))", key=key)


# ---- O7.14 what add enqueues carries every argument -------------------------------------------------------------------------------------------------------
_NAMED_BY_PROPERTY = ("task", "client_id", "sample_type", "latency", "service_time", "processing_time")


def _o714(chk, drv):
    """Decided on VALUES: the sampler's add routine is evaluated with one distinct marker per parameter against the queue model; the object it enqueues (built by the evaluated
    constructor of the sample class, whatever its spelling: positional, keywords, a helper, a dataclass) must hold the marker of EVERY parameter, and where the sample exposes an
    attribute / accessor with the name of a parameter the property names (task, client id, sample type, the three times) it must answer the marker of that very parameter."""
    S, q, smp, add, qcalls = _sampler_roles(drv)
    add_fn = drv.methods(S).get(add.name, add)
    ps = [p for p in params_of(add_fn)[1:]] + [a.arg for a in add_fn.args.kwonlyargs]
    if len(ps) < 2:
        chk.unknown("O7.14", f"`{add.name}` takes the finished sample ({ps}): the place where the sample is built from the request's values was not recognised", add)
        return
    try:
        def make(oracle):
            qm = _QueueModel([])
            marks = {p: _T("global", f"arg:{p}") for p in ps}
            return (qm, marks), lambda: _sampler_eval(drv, S, q, add_fn, qm, [], marks, oracle)

        lost, crossed, seen = {}, [], 0
        for (qm, marks), (ret, exc, it) in _explore(make):
            if exc is not None or len(qm.put_calls) != 1:
                continue  # (judged by O7.1)
            obj = qm.put_calls[0]
            if not (isinstance(obj, _O) and obj.cls is not None):
                raise _Undecided(f"what is enqueued is `{obj!r:.60}`, not an object of a class of the module")
            seen += 1
            for p, m in marks.items():
                if not _mentions(obj, m):
                    lost[p] = obj
            for p in _NAMED_BY_PROPERTY:
                if p not in marks:
                    continue
                it2 = _Interp([drv])
                has = p in obj.f or it2.class_attr(obj.cls, obj.mod, p) is not None
                if not has:
                    continue
                try:
                    v = it2.call(_Fn(ast.parse(f"lambda o: o.{p}", mode="eval").body, drv), [obj], {}, add_fn)
                except (_Undecided, _Need):
                    continue
                other = [p2 for p2, m2 in marks.items() if p2 != p and v is m2]
                if other and v is not marks[p]:
                    crossed.append(f"the sample's `{p}` answers the value `{add.name}` received as `{other[0]}`")
        if not seen:
            raise _Undecided("no path of the routine enqueues exactly one object")
        what = "the sample that is enqueued holds the value of every parameter of add (the dependent timings included)"
        key = f"{_D}:{S.name}.{add.name}:sample-carries-every-argument"
        chk.ob("O7.14", what, not lost, add, "; ".join(f"the value handed in as `{p}` is not part of the enqueued {o.name}: it is dropped between the load generator and the post-processor" for p, o in lost.items())
               or f"{len(ps)} parameters, each held by the enqueued object", key=key)
        chk.ob("O7.14", "the sample answers under the name of a parameter (task, client id, sample type, latency, service_time, processing_time) the value of that parameter", not crossed, add,
               "; ".join(dict.fromkeys(crossed)), key=f"{_D}:{S.name}.{add.name}:sample-fields-not-crossed")
    except (_Undecided, _Need) as x:
        chk.unknown("O7.14", f"`{add.name}` not evaluated against the queue model: {x}", add)


# ---- O7.15 throughput from all samples, whatever their order in the batch -----------------------------------------------------------------------------------
_TP_BATCHES = (
    ("samples of one task", "aaaa"),
    ("samples of two tasks, one task after the other", "aaabb"),
    ("samples of two tasks of a parallel element, interleaved (shipments of two workers alternate)", "ababa"),
    ("samples of three tasks, interleaved", "abcabca"),
)


def _tp_samples(pattern):
    tasks = {c: _O(f"task-{c}", name=f"task-{c}", operation=_O(f"operation-{c}", name=f"op-{c}", type="bulk", meta_data={})) for c in sorted(set(pattern))}
    out = []
    for i, c in enumerate(pattern):
        out.append(_O(f"sample{i}", client_id=i % 2, absolute_time=1000.0 + i, relative_time=10.0 + i, request_start=500.0 + i, task_start=490.0, task=tasks[c], sample_type="normal",
                      latency=0.5, service_time=0.25, processing_time=0.75, throughput=100.0 + i, total_ops=1 + i, total_ops_unit="docs", time_period=1.0, percent_completed=None,
                      operation_name=f"op-{c}", operation_type="bulk", operation_meta_data={}, request_meta_data={}, dependent_timings=[]))
    return tasks, out


def _tp_run(drv, TC, calc, pattern, oracle):
    it = _ModelInterp([drv], oracle)

    def key_of(kf, x, node):
        return x if kf is None else it.call(kf, [x], {}, node)

    def intercept(f, args, kwargs):
        if isinstance(f, _T) and f.op == "builtin" and f.args[0] == "sorted" and len(args) == 1 and set(kwargs) <= {"key", "reverse"}:
            xs = it.iterate(args[0], calc)
            if xs is None or _opaque(kwargs.get("reverse", False)):
                return NotImplemented
            ks = [(key_of(kwargs.get("key"), x, calc), x) for x in xs]
            if any(_opaque(k) or not isinstance(k, (int, float, str)) for k, _ in ks):
                return NotImplemented
            return [x for _, x in sorted(ks, key=lambda kx: kx[0], reverse=bool(kwargs.get("reverse", False)))]
        if isinstance(f, _T) and (f.path() or "") in ("operator.attrgetter", "attrgetter") and len(args) == 1 and not kwargs and isinstance(args[0], str) and args[0].isidentifier():
            return _Fn(ast.parse(f"lambda o: o.{args[0]}", mode="eval").body, drv)  # operator.attrgetter("a") is `lambda o: o.a`
        if isinstance(f, _T) and (f.path() or "") in ("operator.itemgetter", "itemgetter") and len(args) == 1 and not kwargs and isinstance(args[0], (int, str)):
            return _Fn(ast.parse(f"lambda o: o[{args[0]!r}]", mode="eval").body, drv)
        if isinstance(f, _T) and (f.path() or "") in ("collections.defaultdict", "defaultdict") and len(args) == 1 and not kwargs and not isinstance(args[0], (_O, _Fn)):
            return _DefaultDict(lambda: it.call(args[0], [], {}, calc))
        if isinstance(f, _T) and (f.path() or "") in ("itertools.groupby", "groupby") and args and not isinstance(args[0], _T):
            xs = it.iterate(args[0], calc)
            kf = kwargs.get("key", args[1] if len(args) > 1 else None)
            groups = []  # CONSECUTIVE elements with the same key, as itertools.groupby hands them out
            for x in xs:
                k = key_of(kf, x, calc)
                if groups and (groups[-1][0] is k or (not _opaque(k) and not _opaque(groups[-1][0]) and groups[-1][0] == k)):
                    groups[-1][1].append(x)
                else:
                    groups.append((k, [x]))
            return groups
        return NotImplemented

    it.intercept = intercept
    it.eager_generators = True

    def go():
        tasks, batch = _tp_samples(pattern)
        o = it.call(_Cls(TC, drv), [], {}, TC)
        return tasks, batch, it.call(_Fn(calc, drv, o), [list(batch)], {}, calc)

    return it, go


def _o715(chk, drv):
    """Decided on VALUES: ThroughputCalculator.calculate evaluated on batches of representative samples whose runner reports the throughput itself (every sample then maps to one
    throughput value carrying the sample's own times and throughput): the result must hold, under each task, exactly one value per sample of that task - for batches in which the
    samples of several tasks are interleaved as for batches of one task."""
    TC = drv.cls("ThroughputCalculator")
    calc = drv.methods(TC).get("calculate")
    if calc is None:
        raise AnchorMissing("ThroughputCalculator.calculate")
    for name, pattern in _TP_BATCHES:
        key = f"{_D}:ThroughputCalculator.calculate:every-sample-counted:{pattern}"
        what = f"throughput is computed from all samples of the batch: {name}"
        try:
            runs = _explore(lambda oracle: _tp_run(drv, TC, calc, pattern, oracle))
            bad = []
            for it, (tasks, batch, ret) in runs:
                if not isinstance(ret, dict):
                    raise _Undecided(f"calculate returns {ret!r:.60}")
                if it.skipped:
                    raise _Undecided(f"the loop `for ... in {short(it.skipped[0][0].iter, 50)}` runs over a collection that is not modelled")
                for e in it.effects:  # a call that is not modelled receives samples: what it does with them is not known
                    if "logg" not in e.path.lower() and any(_mentions(a, s_) for a in e.args + list(e.kwargs.values()) for s_ in batch):
                        raise _Undecided(f"`{e.path}` (not modelled) receives samples of the batch")
                for c, t in tasks.items():
                    vals = [v for k, v in ret.items() if k is t]
                    vals = vals[0] if vals else []
                    vals = [list(v.f.values()) if isinstance(v, _O) else v for v in vals] if isinstance(vals, list) else vals  # (a record object per value: its fields)
                    if not isinstance(vals, list) or any(not isinstance(v, (tuple, list)) for v in vals):
                        raise _Undecided(f"the throughput values of task {t.name} are {vals!r:.60}")
                    for s in batch:
                        if s.f["task"] is not t:
                            continue
                        n = sum(1 for v in vals if any(x is s.f["throughput"] or (isinstance(x, float) and x == s.f["throughput"]) for x in v))
                        if n != 1:
                            bad.append(f"the sample at position {batch.index(s)} of the batch (task {t.name}, throughput {s.f['throughput']}) yields {n} throughput value(s)"
                                       + (": it is part of no throughput value" if n == 0 else ""))
                foreign = [k for k in ret if not any(k is t for t in tasks.values())]
                if foreign:
                    raise _Undecided(f"the result is keyed by {foreign[0]!r:.40}")
        except (_Undecided, _Need) as x:
            chk.unknown("O7.15", f"ThroughputCalculator.calculate not evaluated on `{name}`: {x}", calc)
            continue
        chk.ob("O7.15", what, not bad, calc, "; ".join(list(dict.fromkeys(bad))[:2]) or f"{len(pattern)} samples, one throughput value each under its own task", key=key)


def run(chk):
    repo = chk.repo
    drv, met, rc = repo.module(_D), repo.module(_M), repo.module(_R)
    chk.use(drv, met, rc)
    chk.explanation = (
        "Decides the shipping / post-processing / hand-over skeleton. Roles (sampler / future / queue / raw-list / buffer attributes, ship routine, update routine, message fields, "
        "callbacks) are derived from data flow, routines are analysed together with the helper methods they call, and wherever the question is about values the EXTRACTED routine is "
        "evaluated on representative inputs (no repository code is run): the sampler's drain dequeues through the queue's own get until Empty and returns all of it; the ship "
        "routine reads the draining property once and what it read is the payload that arrives in the driver's raw list, appended whole; post-processing hands the whole pending "
        "list to the post-processor after the attribute was reset; for batches of six samples and factors 1, 2, 3 every kept sample yields exactly the three records with the "
        "values / task / operation / type / sample type / times / client id of that sample, every dependent timing of a kept sample one service_time record fed from the timing, "
        "nothing for dropped samples, and the throughput calculation receives the whole batch; every hand-over clears the driver's store after post-processing and travels through "
        "the actor callback, the message and the race-control handler into exactly one bulk_add on every path; the in-memory and ES stores keep / send / clear their buffers "
        "exactly once; a two-fact abstract interpretation of the Worker's handlers (may the load generator still add samples / may the sampler hold undrained samples) shows that "
        "every replacement or drop of the sampler follows a drain taken after the completion of the load generator was observed."
    )
    chk.not_decided = ("at-least/at-most-once under message loss, ES bulk partial failures, the executor-thread/actor-thread race on the queue; the worker analysis assumes the "
                       "driver's protocol (Drive is sent only to workers waiting at a join point; the handlers that deliver the executor's inputs run before the first executor).")
    # ---- O7.1 drain / add ---------------------------------------------------------------------------------------------
    chk.rule("O7.1", "the sampler's drain loops until queue.Empty and returns every dequeued element; add drops only on queue.Full", 3,
             "any burst of samples: some are dequeued and dropped, or an unrelated error silently loses a sample")
    _o71(chk, drv)

    # ---- O7.2 drain read once -----------------------------------------------------------------------------------------------
    chk.rule("O7.2", "in the ship routine the draining property is evaluated exactly once and that value is both the UpdateSamples payload and the return value", 2,
             "two reads: the second read drains samples that are never sent")
    ships, _, holders = _o72(chk, repo, drv)

    # ---- O7.4 snapshot-and-reset (evaluated first: it names the raw list) ------------------------------------------------------------------------
    chk.rule("O7.4", "post-processing takes a local reference to the raw list, resets the attribute, then processes the local (in that order)", 1,
             "samples arriving during post-processing are lost, or a batch is processed twice")
    _, spp_attr, pps, raw_attr = _o74(chk, drv)

    # ---- O7.3 driver appends the whole payload ---------------------------------------------------------------------------------
    chk.rule("O7.3", "the driver appends the whole UpdateSamples payload to the raw list", 2, "samples lost between worker and post-processing")
    _o73(chk, drv, raw_attr, ships)

    # ---- O7.5 three records per sample -------------------------------------------------------------------------------------------------
    chk.rule("O7.5", "under the down-sampling guard exactly three put_value calls {latency, service_time, processing_time}, each fed from the sample attribute of the same "
             "name, plus one service_time per dependent timing fed from the timing; task/operation/type/sample-type/times/client id come from the same object; "
             "throughput is computed from the unfiltered list", 12,
             "records missing/duplicated per request, or a record filed under the wrong task / operation type / sample type / client")
    _o75(chk, drv, met)

    from rules.C01 import executor_wiring

    executor_wiring(chk, "O7.5", drv)
    from rules.C06 import lazy_batch_rule

    lazy_batch_rule(chk, "O7.5", drv)

    # ---- O7.6 hand-over ---------------------------------------------------------------------------------------------------------------------
    chk.rule("O7.6", "every to_externalizable call in the driver passes clear=True, is preceded on every path by post-processing, and its value flows through the "
             "message field `metrics` into exactly one bulk_add on the race-control side, for TaskFinished and for BenchmarkComplete", 8,
             "multi-step race: step k's records are handed over again at every later boundary (duplicates), or the last batch of a step is not handed over")
    final = _o76(chk, repo, drv, rc, met, spp_attr, pps)

    # ---- O7.7 in-memory store -----------------------------------------------------------------------------------------------------------------
    chk.rule("O7.7", "in-memory store: clear replaces the list after the snapshot reference is taken and the snapshot is what is serialised; bulk_add adds every document", 3,
             "hand-over returns an empty/incomplete list, or drops documents when restoring")
    _o77(chk, met)

    # ---- O7.10 ES-backed store buffer -------------------------------------------------------------------------------------------------------------------------
    chk.rule("O7.10", "ES-backed store: every record is appended to the buffer; flush sends the whole buffer through the guarded bulk call and empties it only after the send returned; "
             "its hand-over is None (records go to Elasticsearch directly, nothing to add twice)", 4,
             "records dropped before being sent, or re-sent on the next flush (duplicates) with the ES metrics store")
    _o710(chk, met)

    # ---- O7.8 store before exit ----------------------------------------------------------------------------------------------------------------
    chk.rule("O7.8", "BenchmarkComplete handling hands the message's metrics to the coordinator on every path (unconditionally)", 1, "the final batch is lost")
    _o78(chk, rc, final)

    # ---- O7.9 samples precede the barrier message ----------------------------------------------------------------------------------------------
    chk.rule("O7.9", "on the join-point path the final drain (send_samples) is unconditional, precedes send(JoinPointReached) and precedes dropping the sampler; every path on which the "
             "worker replaces or drops its sampler passes through a drain of the old one after the last point at which the load generator can add samples; samples are shipped "
             "periodically while it runs", 2,
             "last step of any race (or the last sample of any step, or of any round of a parallel element with more tasks than clients): samples queued after the last periodic "
             "drain are never shipped")
    _o79(chk, drv)

    # ---- O7.11 the sample type a record carries ----------------------------------------------------------------------------------------------
    chk.rule("O7.11", "the sample type of a record is the one the schedule computed for that request, and the clock it is computed from starts at the task's start, "
             "not after the client's ramp-up wait", 2,
             "a task with ramp-up: requests issued after the warm-up period by a late-starting client are recorded as warm-up samples and vanish from every statistic")
    from rules.C05 import timer_before_rampup_rule

    ex, ge, *_ = timer_before_rampup_rule(chk, "O7.11", drv, "the warm-up clock of client i starts ramp*i/total late: its normal samples are labelled warm-up")
    _o711(chk, drv, ex, holders)

    # ---- O7.12 every executed request is sampled -------------------------------------------------------------------------------------------------
    chk.rule("O7.12", "every request the load generator executes is handed to the sampler exactly once, whatever ends the task: the end of the schedule, the runner's own "
             "completion, or another client completing the parallel element while the request is in flight", len(_LOOP_SCENARIOS),
             "a parallel element with completed-by: every client of a task that does not complete the element loses the sample (latency, service_time, processing_time and the "
             "throughput contribution) of the request it was executing when the completing task ended")
    _o712(chk, drv, ex, holders)

    # ---- O7.13 one dependent timing per executed sub-request ----------------------------------------------------------------------------------------
    chk.rule("O7.13", "the dependent timings a composite request reports hold the response of every executed sub-request exactly once, wherever in the request structure "
             "its streams stand", 5,
             "a composite operation whose concurrent streams are followed by another sub-request (open-point-in-time, searches, close-point-in-time): the service_time records of "
             "the streams' sub-requests never reach the metrics store (or reach it twice)")
    _o713(chk, repo)

    # ---- O7.14 the enqueued sample carries everything add was given -----------------------------------------------------------------------------------------
    chk.rule("O7.14", "the sample the sampler enqueues for a request holds every value the load generator handed to add - the dependent timings of the request's sub-requests "
             "included - and answers under the name of a parameter the value of that parameter", 2,
             "a composite operation (or any runner reporting dependent timings): the service_time records of the sub-requests never reach the metrics store; or records filed "
             "with the values of another field")
    _o714(chk, drv)

    # ---- O7.15 throughput from all samples ------------------------------------------------------------------------------------------------------------------
    chk.rule("O7.15", "throughput is computed from ALL samples of a post-processing round: every sample handed to ThroughputCalculator.calculate contributes exactly once, under its "
             "own task, also when the samples of several tasks are interleaved in the batch", len(_TP_BATCHES),
             "a parallel element whose tasks run on different clients / workers: the shipments alternate in the raw list and only the last run of consecutive samples of a task "
             "is counted - throughput far too low while all latency / service_time records are there")
    _o715(chk, drv)


from sa.selftest import V  # noqa: E402

_V_SAMPLE_TAIL = "                    percent_completed,\n                    dependent_timing,\n                )\n            )\n        except queue.Full"
_V_SAMPLE_TIMES = "                    latency,\n                    service_time,\n                    processing_time,\n                    throughput,\n"
_V_GROUPING = ("        samples_per_task = {}\n        # first we group all samples by task (operation).\n        for sample in samples:\n            k = sample.task\n"
               "            if k not in samples_per_task:\n                samples_per_task[k] = []\n            samples_per_task[k].append(sample)\n")

VARIANTS = [
    V("drain read twice", "break", _D, "                self.send(self.driver_actor, UpdateSamples(self.worker_id, samples))", "                self.send(self.driver_actor, UpdateSamples(self.worker_id, self.sampler.samples))", "O7.2"),
    V("drain stops at 1000", "break", _D, "            while True:\n                samples.append(self.q.get_nowait())", "            while len(samples) < 1000:\n                samples.append(self.q.get_nowait())", "O7.1"),
    V("add swallows everything", "break", _D, "        except queue.Full:\n            self.logger.warning(\"Dropping sample", "        except Exception:\n            self.logger.warning(\"Dropping sample", "O7.1"),
    V("driver keeps only latest payload", "break", _D, "            self.raw_samples += samples", "            self.raw_samples = samples", "O7.3"),
    V("reset after processing", "break", _D, "        raw_samples = self.raw_samples\n        self.raw_samples = []\n        self.sample_post_processor(raw_samples)", "        raw_samples = self.raw_samples\n        self.sample_post_processor(raw_samples)\n        self.raw_samples = []", "O7.4"),
    V("process attribute after reset", "break", _D, "        self.sample_post_processor(raw_samples)", "        self.sample_post_processor(self.raw_samples)", "O7.4"),
    V("latency record fed with service_time", "break", _D, '                    name="latency",\n                    value=convert.seconds_to_ms(sample.latency),', '                    name="latency",\n                    value=convert.seconds_to_ms(sample.service_time),', "O7.5"),
    V("seed m2: dependent record uses the parent's operation type", "break", _D, "                        operation_type=timing.operation_type,", "                        operation_type=sample.operation_type,", "O7.5"),
    V("throughput from downsampled list", "break", _D, "        aggregates = self.throughput_calculator.calculate(raw_samples)", "        aggregates = self.throughput_calculator.calculate(raw_samples[:: self.downsample_factor])", "O7.5"),
    V("processing_time record dropped", "break", _D, '                self.metrics_store.put_value_cluster_level(\n                    name="processing_time",', '                (lambda **kw: None)(\n                    name="processing_time",', "O7.5"),
    V("sample type from first sample", "break", _D, '                    name="service_time",\n                    value=convert.seconds_to_ms(sample.service_time),\n                    unit="ms",\n                    task=sample.task.name,\n                    operation=sample.operation_name,\n                    operation_type=sample.operation_type,\n                    sample_type=sample.sample_type,',
      '                    name="service_time",\n                    value=convert.seconds_to_ms(sample.service_time),\n                    unit="ms",\n                    task=sample.task.name,\n                    operation=sample.operation_name,\n                    operation_type=sample.operation_type,\n                    sample_type=raw_samples[0].sample_type,', "O7.5"),
    V("seed m3: step hand-over without clear", "break", _D, "        m = self.metrics_store.to_externalizable(clear=True)\n        self.driver_actor.on_task_finished(m, waiting_period)", "        m = self.metrics_store.to_externalizable()\n        self.driver_actor.on_task_finished(m, waiting_period)", "O7.6"),
    V("hand-over before post-processing", "break", _D, "            self.logger.debug(\"Postprocessing samples...\")\n            self.post_process_samples()\n            if self.finished():", "            if self.finished():", "O7.6"),
    V("coordinator drops task metrics", "break", _R, "        self.logger.info(\"Bulk adding request metrics to metrics store.\")\n        self.metrics_store.bulk_add(new_metrics)\n\n    def on_benchmark_complete", "        self.logger.info(\"Bulk adding request metrics to metrics store.\")\n\n    def on_benchmark_complete", "O7.6"),
    V("in-memory clear before snapshot", "break", _M, "        docs = self.docs\n        if clear:\n            self.docs = []", "        if clear:\n            self.docs = []\n        docs = self.docs", "O7.7"),
    V("final metrics stored only when non-empty", "break", _R, "        self.coordinator.on_benchmark_complete(msg.metrics)\n        self.send(self.main_driver, thespian.actors.ActorExitRequest())", "        if msg.metrics:\n            self.coordinator.on_benchmark_complete(msg.metrics)\n        self.send(self.main_driver, thespian.actors.ActorExitRequest())", "O7.8"),
    V("seed m1: final drain only when a future exists", "break", _D, "                self.executor_future.result()\n            self.send_samples()", "                self.executor_future.result()\n                self.send_samples()", "O7.9"),
    V("JoinPointReached before final drain", "break", _D, "            self.send_samples()\n            self.cancel.clear()\n            self.complete.clear()\n            self.executor_future = None\n            self.sampler = None\n            self.send(self.driver_actor, JoinPointReached(self.worker_id, task_allocations))",
      "            self.send(self.driver_actor, JoinPointReached(self.worker_id, task_allocations))\n            self.send_samples()\n            self.cancel.clear()\n            self.complete.clear()\n            self.executor_future = None\n            self.sampler = None", "O7.9"),
    V("ES buffer emptied before sending", "break", _M, "            self._client.bulk_index(index=self._index, items=self._docs)\n            sw.stop()", "            docs, self._docs = self._docs, []\n            self._client.bulk_index(index=self._index, items=self._docs)\n            sw.stop()", "O7.10"),
    V("ES buffer never emptied", "break", _M, "                sw.total_time(),\n            )\n        self._docs = []", "                sw.total_time(),\n            )", "O7.10"),
    # F23 (rally f7c4bc2): the old sampler is drained after the executor is known to have finished, before it is replaced
    V("F23 reverted: next round's sampler replaces the old one without a final drain", "break", _D,
      "                self.send_samples()\n                self.sampler = Sampler(", "                self.sampler = Sampler(", "O7.9"),
    V("F23: the drain comes after the replacement (drains the new, empty sampler)", "break", _D,
      "                self.send_samples()\n                self.sampler = Sampler(start_timestamp=time.perf_counter(), buffer_size=self.sample_queue_size)\n",
      "                self.sampler = Sampler(start_timestamp=time.perf_counter(), buffer_size=self.sample_queue_size)\n                self.send_samples()\n", "O7.9"),
    [V("F23: the only drain before the replacement runs before the done() check (wake-up handler), none in drive()", "break", _D,
       "                self.send_samples()\n                self.sampler = Sampler(", "                self.sampler = Sampler(", "O7.9"),
     V("", "break", _D, "            elif self.executor_future is not None and self.executor_future.done():", "            elif self.send_samples() is not None and self.executor_future is not None and self.executor_future.done():")],
    [V("samples are shipped only once the executor has finished, never while it runs", "break", _D,
       "            current_samples = self.send_samples()\n            if self.cancel.is_set():", "            current_samples = None\n            if self.cancel.is_set():", "O7.9"),
     V("", "break", _D, "                    self.executor_future = None\n                    self.drive()", "                    self.executor_future = None\n                    self.send_samples()\n                    self.drive()")],
    # preserving
    V("F23 respelled: the final drain is hoisted above the debug line", "keep", _D,
      "                self.logger.debug(\"Worker[%d] is executing tasks at index [%d].\", self.worker_id, self.current_task_index)\n"
      "                # the previous tasks may have finished after the last periodic drain: ship their remaining samples before the sampler is replaced\n                self.send_samples()\n",
      "                self.send_samples()\n                self.logger.debug(\"Worker[%d] is executing tasks at index [%d].\", self.worker_id, self.current_task_index)\n"),
    [V("F23 respelled: the final drain sits in the wake-up handler AFTER the done() check instead of in drive()", "keep", _D,
       "                self.send_samples()\n                self.sampler = Sampler(", "                self.sampler = Sampler("),
     V("", "keep", _D, "                    self.executor_future = None\n                    self.drive()", "                    self.executor_future = None\n                    self.send_samples()\n                    self.drive()")],
    [V("F23 respelled: the final drain is taken for the whole not-a-join-point arm (also before skipped rows)", "keep", _D,
       "            if self.complete.is_set():\n                self.logger.info(\n                    \"Worker[%d] skips tasks",
       "            self.send_samples()\n            if self.complete.is_set():\n                self.logger.info(\n                    \"Worker[%d] skips tasks"),
     V("", "keep", _D, "                self.send_samples()\n                self.sampler = Sampler(", "                self.sampler = Sampler(")],
    V("tuple-swap snapshot", "keep", _D, "        raw_samples = self.raw_samples\n        self.raw_samples = []\n        self.sample_post_processor(raw_samples)", "        raw_samples, self.raw_samples = self.raw_samples, []\n        self.sample_post_processor(raw_samples)"),
    V("extend instead of +=", "keep", _D, "            self.raw_samples += samples", "            self.raw_samples.extend(samples)"),
    V("positional clear", "keep", _D, "        m = self.metrics_store.to_externalizable(clear=True)\n        self.driver_actor.on_task_finished(m, waiting_period)", "        m = self.metrics_store.to_externalizable(True)\n        self.driver_actor.on_task_finished(m, waiting_period)"),
]


# texts shared by the round-2 variants
_V_DEP_LOOP = """                for timing in sample.dependent_timings:
                    self.metrics_store.put_value_cluster_level(
                        name="service_time",
                        value=convert.seconds_to_ms(timing.service_time),
                        unit="ms",
                        task=timing.task.name,
                        operation=timing.operation_name,
                        operation_type=timing.operation_type,
                        sample_type=timing.sample_type,
                        absolute_time=timing.absolute_time,
                        relative_time=timing.relative_time,
                        meta_data=self.merge(timing.request_meta_data, client_id_meta_data),
                    )
"""
_V_DEP_HELPER = """    def _store_sub_requests(self, request, cid_meta):
        for t in request.dependent_timings:
            self.metrics_store.put_value_cluster_level(
                name="service_time",
                value=convert.seconds_to_ms(t.service_time),
                unit="ms",
                task=t.task.name,
                operation=t.operation_name,
                operation_type=t.operation_type,
                sample_type=t.sample_type,
                absolute_time=t.absolute_time,
                relative_time=t.relative_time,
                meta_data=self.merge(t.request_meta_data, cid_meta),
            )

    def merge(self, *args):
"""

_V_THREE = """                self.metrics_store.put_value_cluster_level(
                    name="latency",
                    value=convert.seconds_to_ms(sample.latency),
                    unit="ms",
                    task=sample.task.name,
                    operation=sample.operation_name,
                    operation_type=sample.operation_type,
                    sample_type=sample.sample_type,
                    absolute_time=sample.absolute_time,
                    relative_time=sample.relative_time,
                    meta_data=meta_data,
                )

                self.metrics_store.put_value_cluster_level(
                    name="service_time",
                    value=convert.seconds_to_ms(sample.service_time),
                    unit="ms",
                    task=sample.task.name,
                    operation=sample.operation_name,
                    operation_type=sample.operation_type,
                    sample_type=sample.sample_type,
                    absolute_time=sample.absolute_time,
                    relative_time=sample.relative_time,
                    meta_data=meta_data,
                )

                self.metrics_store.put_value_cluster_level(
                    name="processing_time",
                    value=convert.seconds_to_ms(sample.processing_time),
                    unit="ms",
                    task=sample.task.name,
                    operation=sample.operation_name,
                    operation_type=sample.operation_type,
                    sample_type=sample.sample_type,
                    absolute_time=sample.absolute_time,
                    relative_time=sample.relative_time,
                    meta_data=meta_data,
                )
"""


def _v_table(rows):
    return f"""                for record_name, seconds in ({rows}):
                    self.metrics_store.put_value_cluster_level(
                        record_name,
                        convert.seconds_to_ms(seconds),
                        "ms",
                        task=sample.task.name,
                        operation=sample.operation_name,
                        operation_type=sample.operation_type,
                        sample_type=sample.sample_type,
                        absolute_time=sample.absolute_time,
                        relative_time=sample.relative_time,
                        meta_data=meta_data,
                    )
"""


_V_GETATTR = """                for record_name in ("latency", "service_time", "processing_time"):
                    self.metrics_store.put_value_cluster_level(
                        name=record_name,
                        value=convert.seconds_to_ms(getattr(sample, record_name)),
                        unit="ms",
                        task=sample.task.name,
                        operation=sample.operation_name,
                        operation_type=sample.operation_type,
                        sample_type=sample.sample_type,
                        absolute_time=sample.absolute_time,
                        relative_time=sample.relative_time,
                        meta_data=meta_data,
                    )
"""

_V_SHIP = """    def send_samples(self):
        if self.sampler:
            samples = self.sampler.samples
            if len(samples) > 0:
                self.send(self.driver_actor, UpdateSamples(self.worker_id, samples))
            return samples
        return None
"""
_V_SHIP_HELPER = """    def send_samples(self):
        if not self.sampler:
            return None
        drained = self.sampler.samples
        self._ship(drained)
        return drained

    def _ship(self, batch):
        if batch:
            self.send(self.driver_actor, UpdateSamples(client_id=self.worker_id, samples=batch))
"""
_V_SHIP_HELPER_BAD = _V_SHIP_HELPER.replace("samples=batch))", "samples=self.sampler.samples))")

_V_JP_ARM = """            # clients that don't execute tasks don't need to care about waiting
            if self.executor_future is not None:
                self.executor_future.result()
            self.send_samples()
            self.cancel.clear()
            self.complete.clear()
            self.executor_future = None
            self.sampler = None
            self.send(self.driver_actor, JoinPointReached(self.worker_id, task_allocations))
"""
_V_JP_HELPER = """    def _arrive_at_join_point(self, allocations):
        # clients that don't execute tasks don't need to care about waiting
        if self.executor_future is not None:
            self.executor_future.result()
        self.send_samples()
        self.cancel.clear()
        self.complete.clear()
        self.executor_future = None
        self.sampler = None
        barrier = JoinPointReached(self.worker_id, allocations)
        self.send(self.driver_actor, barrier)

    def at_joinpoint(self):
"""

_V_LOOP_HEAD = "        for idx, sample in enumerate(raw_samples):\n            if idx % self.downsample_factor == 0:\n"
_V_FLUSH = """        if self._docs:
            sw = time.StopWatch()
            sw.start()
            self._client.bulk_index(index=self._index, items=self._docs)
            sw.stop()
"""
_V_DONE = "            elif self.executor_future is not None and self.executor_future.done():"
_V_FIN_HELPER = "    def _executor_finished(self):\n        return self.executor_future is not None and self.executor_future.done()\n\n    def at_joinpoint(self):\n"
_V_ADD_CALL = "                self.sampler.add(\n                    self.task,\n                    self.client_id,\n                    sample_type,"
_V_TF_SEND = "        self.send(self.benchmark_actor, TaskFinished(metrics, next_task_scheduled_in))"
_V_HANDOVER = "        m = self.metrics_store.to_externalizable(clear=True)\n        self.driver_actor.on_task_finished(m, waiting_period)"

VARIANTS += [
    # ---- hardening round 2: refactored shapes the re-stated obligations accept (keep) and the same shapes with the defect inside (break) -------------------------------
    V("R2 sampler attribute of the worker renamed", "keep", _D, r"self\.sampler\b(?=( = None| = Sampler|,\n                    self\.cancel|:\n            samples|\.samples))", "self.active_sampler", count=6, regex=True),
    [V("R2 queue attribute of the sampler renamed", "keep", _D, "self.q = queue.Queue", "self.pending = queue.Queue"), V("", "keep", _D, "self.q.put_nowait(", "self.pending.put_nowait("), V("", "keep", _D, "self.q.get_nowait()", "self.pending.get_nowait()")],
    V("R2 drain: try inside the loop, break on Empty", "keep", _D, "        try:\n            while True:\n                samples.append(self.q.get_nowait())\n        except queue.Empty:\n            pass\n        return samples",
      "        while True:\n            try:\n                item = self.q.get_nowait()\n                samples.append(item)\n            except queue.Empty:\n                break\n        return samples"),
    V("R2 ship routine: guard clause, helper, keyword arguments", "keep", _D, _V_SHIP, _V_SHIP_HELPER),
    V("R2 raw list of the driver renamed", "keep", _D, r"self\.raw_samples", "self.pending_samples", count=4, regex=True),
    V("R2 the three records from a table (positional name / value / unit)", "keep", _D, _V_THREE, _v_table('("latency", sample.latency), ("service_time", sample.service_time), ("processing_time", sample.processing_time)')),
    V("R2 the three records by getattr over the record names", "keep", _D, _V_THREE, _V_GETATTR),
    [V("R2 dependent timings in a helper with other parameter names", "keep", _D, _V_DEP_LOOP, "                self._store_sub_requests(sample, client_id_meta_data)\n"), V("", "keep", _D, "    def merge(self, *args):\n", _V_DEP_HELPER)],
    V("R2 index loop instead of enumerate", "keep", _D, _V_LOOP_HEAD, "        for idx in range(len(raw_samples)):\n            sample = raw_samples[idx]\n            if idx % self.downsample_factor == 0:\n"),
    V("R2 kept samples by slice", "keep", _D, _V_LOOP_HEAD, "        for sample in raw_samples[:: self.downsample_factor]:\n            if True:\n"),
    V("R2 guard clause `continue` in the sample loop", "keep", _D, _V_LOOP_HEAD, "        for idx, sample in enumerate(raw_samples):\n            if idx % self.downsample_factor != 0:\n                continue\n            if True:\n"),
    V("R2 message built before the send, keyword arguments", "keep", _D, _V_TF_SEND, "        finished = TaskFinished(metrics=metrics, next_task_scheduled_in=next_task_scheduled_in)\n        self.send(self.benchmark_actor, finished)"),
    [V("R2 message field renamed on both sides", "keep", _D, "class TaskFinished:\n    def __init__(self, metrics, next_task_scheduled_in):\n        self.metrics = metrics", "class TaskFinished:\n    def __init__(self, request_metrics, next_task_scheduled_in):\n        self.request_metrics = request_metrics"),
     V("", "keep", _R, "        self.coordinator.on_task_finished(msg.metrics)", "        handed_over = msg.request_metrics\n        self.coordinator.on_task_finished(handed_over)")],
    V("R2 hand-over without a local", "keep", _D, _V_HANDOVER, "        self.driver_actor.on_task_finished(self.metrics_store.to_externalizable(clear=True), waiting_period)"),
    [V("R2 in-memory snapshot in a helper", "keep", _M, "        docs = self.docs\n        if clear:\n            self.docs = []\n        compressed", "        docs = self._take(clear)\n        compressed"),
     V("", "keep", _M, "    def to_externalizable(self, clear=False):\n        docs = self._take", "    def _take(self, reset):\n        current = self.docs\n        if reset:\n            self.docs = []\n        return current\n\n    def to_externalizable(self, clear=False):\n        docs = self._take")],
    V("R2 ES flush: local alias of the buffer for test and send", "keep", _M, _V_FLUSH, _V_FLUSH.replace("        if self._docs:\n", "        docs = self._docs\n        if docs:\n").replace("items=self._docs", "items=docs")),
    V("R2 ES add: += instead of append", "keep", _M, "    def _add(self, doc):\n        self._docs.append(doc)", "    def _add(self, doc):\n        self._docs += [doc]"),
    [V("R2 join-point arm of drive() in a helper, barrier message in a local", "keep", _D, _V_JP_ARM, "            self._arrive_at_join_point(task_allocations)\n"), V("", "keep", _D, "    def at_joinpoint(self):\n", _V_JP_HELPER)],
    [V("R2 completion test of the wake-up handler in a helper", "keep", _D, _V_DONE, "            elif self._executor_finished():"), V("", "keep", _D, "    def at_joinpoint(self):\n", _V_FIN_HELPER)],
    V("R2 executor: sampler through a local alias, sample type through a local", "keep", _D, _V_ADD_CALL, "                sink = self.sampler\n                kind = sample_type\n                sink.add(\n                    self.task,\n                    self.client_id,\n                    kind,"),
    [V("R2 drive() renamed", "keep", _D, r"self\.drive\(\)", "self.drive_on()", count=4, regex=True), V("", "keep", _D, "    def drive(self):\n        assert self.config", "    def drive_on(self):\n        assert self.config")],
    V("R2 joinpoint_reached renamed", "keep", _D, r"\bjoinpoint_reached\b", "on_join_point", count=3, regex=True),
    V("R2 ship routine renamed", "keep", _D, r"send_samples", "ship_samples", count=4, regex=True),
    V("R2 table: latency row fed with the service time", "break", _D, _V_THREE, _v_table('("latency", sample.service_time), ("service_time", sample.service_time), ("processing_time", sample.processing_time)'), "O7.5"),
    V("R2 table: processing_time row missing", "break", _D, _V_THREE, _v_table('("latency", sample.latency), ("service_time", sample.service_time)'), "O7.5"),
    [V("R2 helper: dependent record takes the parent's operation type", "break", _D, _V_DEP_LOOP, "                self._store_sub_requests(sample, client_id_meta_data)\n", "O7.5"),
     V("", "break", _D, "    def merge(self, *args):\n", _V_DEP_HELPER.replace("operation_type=t.operation_type", "operation_type=request.operation_type"))],
    [V("R2 helper: dependent timings recorded for dropped samples too", "break", _D, _V_DEP_LOOP, "", "O7.5"),
     V("", "break", _D, "            if idx % self.downsample_factor == 0:\n                final_sample_count += 1", "            self._store_sub_requests(sample, {\"client_id\": sample.client_id})\n            if idx % self.downsample_factor == 0:\n                final_sample_count += 1"),
     V("", "break", _D, "    def merge(self, *args):\n", _V_DEP_HELPER)],
    V("R2 index loop reads the first sample", "break", _D, _V_LOOP_HEAD, "        for idx in range(len(raw_samples)):\n            sample = raw_samples[0]\n            if idx % self.downsample_factor == 0:\n", "O7.5"),
    V("R2 down-sampling counts from 1", "break", _D, "        for idx, sample in enumerate(raw_samples):", "        for idx, sample in enumerate(raw_samples, 1):", "O7.5"),
    V("R2 slice starts at 1", "break", _D, _V_LOOP_HEAD, "        for sample in raw_samples[1 :: self.downsample_factor]:\n            if True:\n", "O7.5"),
    V("R2 client id of the first sample", "break", _D, "                client_id_meta_data = {\"client_id\": sample.client_id}", "                client_id_meta_data = {\"client_id\": raw_samples[0].client_id}", "O7.5"),
    V("R2 ship helper drains a second time", "break", _D, _V_SHIP, _V_SHIP_HELPER_BAD, "O7.2"),
    V("R2 ship helper ships only batches of more than one sample", "break", _D, _V_SHIP, _V_SHIP_HELPER.replace("        if batch:\n", "        if len(batch) > 1:\n"), "O7.2"),
    V("R2 update routine drops the first sample of a payload", "break", _D, "            self.raw_samples += samples\n", "            self.raw_samples += samples[1:]\n", "O7.3"),
    V("R2 TaskFinished sent only when a waiting period follows", "break", _D, _V_TF_SEND, "        if next_task_scheduled_in > 0:\n            self.send(self.benchmark_actor, TaskFinished(metrics, next_task_scheduled_in))", "O7.6"),
    V("R2 TaskFinished carries the waiting period in the metrics field", "break", _D, _V_TF_SEND, "        self.send(self.benchmark_actor, TaskFinished(next_task_scheduled_in, metrics))", "O7.6"),
    V("R2 handler local takes the wrong message field", "break", _R, "        self.coordinator.on_task_finished(msg.metrics)", "        handed_over = msg.next_task_scheduled_in\n        self.coordinator.on_task_finished(handed_over)", "O7.6"),
    V("R2 coordinator adds the task metrics twice", "break", _R, "        self.metrics_store.bulk_add(new_metrics)\n\n    def on_benchmark_complete", "        self.metrics_store.bulk_add(new_metrics)\n        self.metrics_store.bulk_add(new_metrics)\n\n    def on_benchmark_complete", "O7.6"),
    V("R2 hand-over without a local and without clear", "break", _D, _V_HANDOVER, "        self.driver_actor.on_task_finished(self.metrics_store.to_externalizable(), waiting_period)", "O7.6"),
    V("R2 in-memory swap keeps the documents when clearing", "break", _M, "        docs = self.docs\n        if clear:\n            self.docs = []", "        docs = self.docs\n        self.docs = docs if clear else []", "O7.7"),
    V("R2 bulk_add skips the first restored document", "break", _M, "            for doc in pickle.loads(zlib.decompress(memento)):\n                self._add(doc)", "            for doc in pickle.loads(zlib.decompress(memento))[1:]:\n                self._add(doc)", "O7.7"),
    V("R2 ES flush sends a copy that misses the newest record", "break", _M, "            self._client.bulk_index(index=self._index, items=self._docs)", "            self._client.bulk_index(index=self._index, items=self._docs[:-1])", "O7.10"),
    V("R2 ES flush: buffer emptied before the aliased send", "break", _M, _V_FLUSH, _V_FLUSH.replace("        if self._docs:\n", "        docs = self._docs\n        self._docs = []\n        if docs:\n").replace("items=self._docs", "items=docs"), "O7.10"),
    V("R2 ES add replaces the buffer", "break", _M, "    def _add(self, doc):\n        self._docs.append(doc)", "    def _add(self, doc):\n        self._docs = [doc]", "O7.10"),
    [V("R2 join-point helper: final drain only when a future exists", "break", _D, _V_JP_ARM, "            self._arrive_at_join_point(task_allocations)\n", "O7.9"),
     V("", "break", _D, "    def at_joinpoint(self):\n", _V_JP_HELPER.replace("            self.executor_future.result()\n        self.send_samples()", "            self.executor_future.result()\n            self.send_samples()"))],
    [V("R2 helper completion test, final drain of drive() removed (F23 in the refactored shape)", "break", _D, _V_DONE, "            elif self._executor_finished():", "O7.9"), V("", "break", _D, "    def at_joinpoint(self):\n", _V_FIN_HELPER),
     V("", "break", _D, "                self.send_samples()\n                self.sampler = Sampler(", "                self.sampler = Sampler(")],
    V("R2 executor: the sample-type local is bound to a constant", "break", _D, _V_ADD_CALL, "                kind = metrics.SampleType.Normal\n                self.sampler.add(\n                    self.task,\n                    self.client_id,\n                    kind,", "O7.11"),
    V("R2 Sampler.add hands the client id to the Sample as its sample type", "break", _D, "                    task,\n                    sample_type,\n                    meta_data,\n                    latency,", "                    task,\n                    client_id,\n                    meta_data,\n                    latency,", "O7.11"),
]


# texts shared by the round-3 variants
_V_DRAIN = "        try:\n            while True:\n                samples.append(self.q.get_nowait())\n        except queue.Empty:\n            pass\n        return samples"
_V_IMPORT = ("import concurrent.futures\n", "import concurrent.futures\nimport contextlib\n")


def _v_suppress(what="queue.Empty", test="True"):
    return f"        with contextlib.suppress({what}):\n            while {test}:\n                samples.append(self.q.get_nowait())\n        return samples"


_V_PUT = "        try:\n            self.q.put_nowait(\n                Sample("
_V_PUT_VIA = "        try:\n            self._enqueue(\n                Sample("
_V_PUT_HELPER = "    def _enqueue(self, item):\n        self.q.put_nowait(item)\n\n    @property\n    def samples(self):\n"
_V_US_CLASS = "    def __init__(self, client_id, samples):\n        self.client_id = client_id\n        self.samples = samples\n"
_V_TF_CLASS = "class TaskFinished:\n    def __init__(self, metrics, next_task_scheduled_in):\n        self.metrics = metrics\n        self.next_task_scheduled_in = next_task_scheduled_in\n"
_V_PUT_VALUE = r"self\.metrics_store\.put_value_cluster_level\("
_V_SAMPLE_LOOP = "        for idx, sample in enumerate(raw_samples):\n"

VARIANTS += [
    # ---- hardening round 3: the drain / add / message / sample-type obligations are decided on values; shapes they now accept (keep), the same shapes with a defect (break) -----
    [V("R3 drain under contextlib.suppress(queue.Empty)", "keep", _D, _V_DRAIN, _v_suppress()), V("", "keep", _D, *_V_IMPORT)],
    V("R3 drain: emptiness test instead of the Empty signal (single consumer)", "keep", _D, _V_DRAIN, "        while not self.q.empty():\n            samples.append(self.q.get_nowait())\n        return samples"),
    V("R3 drain: get(block=False), walrus-free accumulate into a second name", "keep", _D, _V_DRAIN,
      "        drained = samples\n        while True:\n            try:\n                drained.append(self.q.get(block=False))\n            except queue.Empty:\n                return drained"),
    [V("R3 suppress(Exception): every error of the dequeue ends the drain silently", "break", _D, _V_DRAIN, _v_suppress("Exception"), "O7.1"), V("", "break", _D, *_V_IMPORT)],
    [V("R3 suppress(queue.Full): the Empty that ends the drain escapes with what was read", "break", _D, _V_DRAIN, _v_suppress("queue.Full"), "O7.1"), V("", "break", _D, *_V_IMPORT)],
    [V("R3 suppress shape, drain stops after 1000 elements", "break", _D, _V_DRAIN, _v_suppress(test="len(samples) < 1000"), "O7.1"), V("", "break", _D, *_V_IMPORT)],
    V("R3 drain returns a fresh list instead of what it read", "break", _D, _V_DRAIN, _V_DRAIN.replace("        return samples", "        return []"), "O7.1"),
    [V("R3 add: the put in a helper method", "keep", _D, _V_PUT, _V_PUT_VIA), V("", "keep", _D, "    @property\n    def samples(self):\n", _V_PUT_HELPER)],
    [V("R3 add helper enqueues only samples without a throughput", "break", _D, _V_PUT, _V_PUT_VIA, "O7.1"),
     V("", "break", _D, "    @property\n    def samples(self):\n", _V_PUT_HELPER.replace("        self.q.put_nowait(item)\n", "        if item.throughput is None:\n            self.q.put_nowait(item)\n"))],
    [V("R3 add helper swallows every error of the put", "break", _D, _V_PUT, _V_PUT_VIA, "O7.1"),
     V("", "break", _D, "    @property\n    def samples(self):\n", _V_PUT_HELPER.replace("        self.q.put_nowait(item)\n", "        try:\n            self.q.put_nowait(item)\n        except Exception:\n            pass\n"))],
    V("R3 add enqueues the task instead of a sample", "break", _D, "                    dependent_timing,\n                )\n            )\n        except queue.Full:", "                    dependent_timing,\n                ).task\n            )\n        except queue.Full:", "O7.1"),
    V("R3 UpdateSamples as a dataclass", "keep", _D, "class UpdateSamples:\n", "@dataclass(eq=False)\nclass UpdateSamples:\n    client_id: int\n    samples: list\n\n    def describe(self):\n        return len(self.samples)\n\n\nclass _UpdateSamplesOld:\n"),
    V("R3 TaskFinished as a dataclass with a default", "keep", _D, _V_TF_CLASS, "@dataclass\nclass TaskFinished:\n    metrics: Optional[bytes]\n    next_task_scheduled_in: float = 0.0\n"),
    V("R3 TaskFinished as a NamedTuple", "keep", _D, _V_TF_CLASS, "class TaskFinished(NamedTuple):\n    metrics: Optional[bytes]\n    next_task_scheduled_in: float\n"),
    V("R3 dataclass TaskFinished declares its fields in the other order (positional call sites unchanged)", "break", _D, _V_TF_CLASS,
      "@dataclass\nclass TaskFinished:\n    next_task_scheduled_in: float\n    metrics: Optional[bytes]\n", "O7.6"),
    V("R3 dataclass UpdateSamples whose payload field is not a constructor parameter", "break", _D, "class UpdateSamples:\n",
      "@dataclass\nclass UpdateSamples:\n    client_id: int\n    batch: list\n    samples: list = field(init=False, default_factory=list)\n\n\nclass _UpdateSamplesOld:\n", "O7.3"),
    [V("R3 post-processor: store call and per-sample values hoisted into locals", "keep", _D, _V_PUT_VALUE, "put_value(", count=5, regex=True),
     V("", "keep", _D, _V_SAMPLE_LOOP, "        put_value = self.metrics_store.put_value_cluster_level\n" + _V_SAMPLE_LOOP),
     V("", "keep", _D, r"sample_type=sample\.sample_type,", "sample_type=kind,", count=3, regex=True),
     V("", "keep", _D, "                final_sample_count += 1\n", "                final_sample_count += 1\n                kind = sample.sample_type\n")],
    V("R3 Sample stores the client id as its sample type", "break", _D, "        self.sample_type = sample_type\n        self.request_meta_data", "        self.sample_type = client_id\n        self.request_meta_data", "O7.11"),
    [V("R3 hoisted shape, Sample stores the task as its sample type", "break", _D, _V_PUT_VALUE, "put_value(", "O7.11", count=5, regex=True),
     V("", "break", _D, _V_SAMPLE_LOOP, "        put_value = self.metrics_store.put_value_cluster_level\n" + _V_SAMPLE_LOOP),
     V("", "break", _D, "        self.sample_type = sample_type\n        self.request_meta_data", "        self.sample_type = task\n        self.request_meta_data")],
    V("R3 hand-over bound to a local that is never read again", "break", _D, _V_HANDOVER, "        m = self.metrics_store.to_externalizable(clear=True)\n        self.driver_actor.on_task_finished(None, waiting_period)", "O7.6"),
]

VARIANTS += [
    V("R3 kept samples through itertools.islice", "keep", _D, _V_LOOP_HEAD, "        for sample in itertools.islice(raw_samples, 0, None, self.downsample_factor):\n            if True:\n"),
    V("R3 islice starts at the second sample", "break", _D, _V_LOOP_HEAD, "        for sample in itertools.islice(raw_samples, 1, None, self.downsample_factor):\n            if True:\n", "O7.5"),
    [V("R3 schedule generator yields the sample type through a local", "keep", _D, r"                        self\.task_progress_control\.sample_type,\n", "                        kind,\n", count=2, regex=True),
     V("", "keep", _D, r"                    yield \(\n                        next_scheduled,\n",
       "                    kind = self.task_progress_control.sample_type\n                    yield (\n                        next_scheduled,\n", count=2, regex=True)],
    [V("R3 yielded local, executor hands the percent-completed value to the sampler as sample type", "break", _D, r"                        self\.task_progress_control\.sample_type,\n", "                        kind,\n", "O7.11", count=2, regex=True),
     V("", "break", _D, r"                    yield \(\n                        next_scheduled,\n",
       "                    kind = self.task_progress_control.sample_type\n                    yield (\n                        next_scheduled,\n", count=2, regex=True),
     V("", "break", _D, _V_ADD_CALL, "                self.sampler.add(\n                    self.task,\n                    self.client_id,\n                    percent_completed,")],
]

_V_AT_JP = "    def at_joinpoint(self):\n"
_V_SUBMIT = "                self.executor_future = self.pool.submit(executor)\n"
_V_LAUNCH = "    def _launch(self, work):\n        return self.pool.submit(work)\n\n" + _V_AT_JP
_V_COMMON = """                common = dict(
                    unit="ms",
                    task=sample.task.name,
                    operation=sample.operation_name,
                    operation_type=sample.operation_type,
                    sample_type=sample.sample_type,
                    absolute_time=sample.absolute_time,
                    relative_time=sample.relative_time,
                    meta_data=meta_data,
                )
"""
_V_COMMON_DICT = _V_COMMON + """                self.metrics_store.put_value_cluster_level(name="latency", value=convert.seconds_to_ms(sample.latency), **common)
                self.metrics_store.put_value_cluster_level(name="service_time", value=convert.seconds_to_ms(sample.service_time), **common)
                self.metrics_store.put_value_cluster_level(name="processing_time", value=convert.seconds_to_ms(sample.processing_time), **common)
"""
_V_PARTIAL = _V_COMMON.replace("common = dict(\n", "record = functools.partial(\n                    self.metrics_store.put_value_cluster_level,\n") + """                record(name="latency", value=convert.seconds_to_ms(sample.latency))
                record(name="service_time", value=convert.seconds_to_ms(sample.service_time))
                record(name="processing_time", value=convert.seconds_to_ms(sample.processing_time))
"""
_V_PUT_TAIL = "                    dependent_timing,\n                )\n            )\n        except queue.Full:\n            self.logger.warning(\"Dropping sample for [%s] due to a full sampling queue.\", task.operation.name)\n"
_V_PUT_ONLY = ("                    dependent_timing,\n                )\n            )\n\n    def add_sample(self, sample):\n        try:\n            self.q.put_nowait(sample)\n        except queue.Full:\n"
               "            self.logger.warning(\"Dropping sample for [%s] due to a full sampling queue.\", sample.task.operation.name)\n")

VARIANTS += [
    [V("R3 the pool call in a helper that returns the future", "keep", _D, _V_SUBMIT, "                self.executor_future = self._launch(executor)\n"), V("", "keep", _D, _V_AT_JP, _V_LAUNCH)],
    [V("R3 future from a helper, final drain of drive() removed (F23 in that shape)", "break", _D, _V_SUBMIT, "                self.executor_future = self._launch(executor)\n", "O7.9"), V("", "break", _D, _V_AT_JP, _V_LAUNCH),
     V("", "break", _D, "                self.send_samples()\n                self.sampler = Sampler(", "                self.sampler = Sampler(")],
    V("R3 the three records share a dict of keyword arguments", "keep", _D, _V_THREE, _V_COMMON_DICT),
    V("R3 shared keyword arguments take the sample type of the first sample", "break", _D, _V_THREE, _V_COMMON_DICT.replace("sample_type=sample.sample_type", "sample_type=raw_samples[0].sample_type"), "O7.5"),
    V("R3 the three records through functools.partial", "keep", _D, _V_THREE, _V_PARTIAL),
    V("R3 partial binds the operation name as the task", "break", _D, _V_THREE, _V_PARTIAL.replace("task=sample.task.name", "task=sample.operation_name"), "O7.5"),
    V("R3 partial shape, service_time record missing", "break", _D, _V_THREE, _V_PARTIAL.replace("                record(name=\"service_time\", value=convert.seconds_to_ms(sample.service_time))\n", ""), "O7.5"),
    [V("R3 add builds the sample, a put-only routine enqueues it", "keep", _D, "        try:\n            self.q.put_nowait(\n                Sample(", "        self.add_sample(\n                Sample("), V("", "keep", _D, _V_PUT_TAIL, _V_PUT_ONLY)],
    [V("R3 put-only routine drops the sample on any error", "break", _D, "        try:\n            self.q.put_nowait(\n                Sample(", "        self.add_sample(\n                Sample(", "O7.1"),
     V("", "break", _D, _V_PUT_TAIL, _V_PUT_ONLY.replace("except queue.Full:", "except Exception:"))],
]

_V_DONE_EXC = "            elif self.executor_future is not None and self.executor_future.done():\n                e = self.executor_future.exception(timeout=0)"
_V_DONE_WALRUS = "            elif (fut := self.executor_future) is not None and fut.done():\n                e = fut.exception(timeout=0)"
VARIANTS += [
    V("R3 wake-up handler: the future through an assignment expression", "keep", _D, _V_DONE_EXC, _V_DONE_WALRUS),
    [V("R3 walrus alias of the future, final drain of drive() removed (F23 in that shape)", "break", _D, _V_DONE_EXC, _V_DONE_WALRUS, "O7.9"),
     V("", "break", _D, "                self.send_samples()\n                self.sampler = Sampler(", "                self.sampler = Sampler(")],
    V("R3 hand-over through local aliases of the callback and of the clear flag", "keep", _D, _V_HANDOVER,
      "        clear_store = True\n        notify = self.driver_actor.on_task_finished\n        m = self.metrics_store.to_externalizable(clear=clear_store)\n        notify(m, waiting_period)"),
    V("R3 aliased hand-over whose clear flag is False", "break", _D, _V_HANDOVER,
      "        clear_store = False\n        notify = self.driver_actor.on_task_finished\n        m = self.metrics_store.to_externalizable(clear=clear_store)\n        notify(m, waiting_period)", "O7.6"),
]

# texts shared by the round-4 variants (the store hooks by role: benign/C07-b11)
_V_BULK_LOOP = "            for doc in pickle.loads(zlib.decompress(memento)):\n                self._add(doc)"
_V_BULK_ALL = "            self._add_all(pickle.loads(zlib.decompress(memento)))"
_V_MS_TE = "    def to_externalizable(self, clear=False):\n        raise NotImplementedError(\"abstract method\")\n"
_V_MS_ALL = _V_MS_TE + "\n    def _add_all(self, docs):\n        for doc in docs:\n            self._add(doc)\n"
_V_IM_ADD = "    def _add(self, doc):\n        self.docs.append(doc)\n"
_V_IM_ALL = _V_IM_ADD + "\n    def _add_all(self, docs):\n        self.docs.extend(docs)\n"
_V_ES_ADD = "    def _add(self, doc):\n        self._docs.append(doc)\n"
_V_ES_ALL = _V_ES_ADD + "\n    def _add_all(self, docs):\n        self._docs.extend(docs)\n"


def _v_add_all(kind, name, rule=None, ms=_V_MS_ALL, im=_V_IM_ALL, es=_V_ES_ALL):
    return [V(name, kind, _M, _V_BULK_LOOP, _V_BULK_ALL, rule), V("", kind, _M, _V_MS_TE, ms), V("", kind, _M, _V_IM_ADD, im), V("", kind, _M, _V_ES_ADD, es)]


VARIANTS += [
    # ---- hardening round 4: the per-record hook is what `_put_metric` hands the record to, bulk_add may use a collection hook of its own --------------------------------
    _v_add_all("keep", "R4 bulk_add through a collection hook `_add_all`: base = loop over _add, both stores override it with one extend"),
    _v_add_all("keep", "R4 collection hook only in the base class (loop over the per-record hook), no store overrides it", im=_V_IM_ADD, es=_V_ES_ADD),
    _v_add_all("keep", "R4 collection hook of the in-memory store spelled += instead of extend", im=_V_IM_ALL.replace("self.docs.extend(docs)", "self.docs += docs")),
    V("R4 per-record hook renamed consistently", "keep", _M, r"\b_add\b", "_append_doc", count=6, regex=True),
    [V("R4 _put_metric hands the record to a base-class helper that calls the hook", "keep", _M, "            doc[\"track-params\"] = self._track_params\n        self._add(doc)\n\n    def put_doc",
       "            doc[\"track-params\"] = self._track_params\n        self._store_record(doc)\n\n    def put_doc"),
     V("", "keep", _M, _V_MS_TE, _V_MS_TE + "\n    def _store_record(self, record):\n        self._add(record)\n")],
    _v_add_all("break", "R4 collection hook of the in-memory store replaces what was stored", "O7.7", im=_V_IM_ALL.replace("self.docs.extend(docs)", "self.docs = list(docs)")),
    _v_add_all("break", "R4 collection hook of the in-memory store skips the first document", "O7.7", im=_V_IM_ALL.replace("self.docs.extend(docs)", "self.docs.extend(docs[1:])")),
    _v_add_all("break", "R4 collection hook appends the collection as ONE document", "O7.7", im=_V_IM_ALL.replace("self.docs.extend(docs)", "self.docs.append(docs)")),
    _v_add_all("break", "R4 base-class collection hook (not overridden) stops after the first document", "O7.7", im=_V_IM_ADD, es=_V_ES_ADD,
               ms=_V_MS_ALL.replace("            self._add(doc)\n", "            self._add(doc)\n            break\n")),
    _v_add_all("break", "R4 collection-hook shape, the per-record hook of the in-memory store replaces the list (bulk path unaffected)", "O7.7",
               im=_V_IM_ALL.replace("        self.docs.append(doc)\n", "        self.docs = [doc]\n")),
    V("R4 per-record hook of the in-memory store drops a record equal to the last one", "break", _M, _V_IM_ADD,
      "    def _add(self, doc):\n        if not self.docs or self.docs[-1] != doc:\n            self.docs.append(doc)\n", "O7.7"),
    V("R4 per-record hook of the ES store buffers a record only if it is not buffered yet", "break", _M, _V_ES_ADD,
      "    def _add(self, doc):\n        if doc not in self._docs:\n            self._docs.append(doc)\n", "O7.10"),
    [V("R4 record helper of _put_metric stores only records that carry a task", "break", _M, "            doc[\"track-params\"] = self._track_params\n        self._add(doc)\n\n    def put_doc",
       "            doc[\"track-params\"] = self._track_params\n        self._store_record(doc)\n\n    def put_doc", "O7.7"),
     V("", "break", _M, _V_MS_TE, _V_MS_TE + "\n    def _store_record(self, record):\n        if \"task\" in record:\n            self._add(record)\n")],
]


# ---- seeding round 5: where the samples are produced (O7.12 request loop of the load generator, O7.13 dependent timings of a composite request) ---------------------
_V_COMPLETED = "                else:\n                    completed = self.complete.is_set() or runner.completed\n"
_V_COMPLETED_IF = "                if task_completes_parent:\n                    completed = runner.completed\n" + _V_COMPLETED
_V_EX_CALL = "    async def __call__(self, *args, **kwargs):\n        any_task_completes_parent = self.task.any_completes_parent\n"
_V_LOOP_END = "                if completed:\n                    self.logger.info(\"Task [%s] is considered completed due to external event.\", self.task)\n                    break\n"
_V_JOIN_MID = ("                        streams_timings = await asyncio.gather(*streams)\n                        for stream_timings in streams_timings:\n"
               "                            timings += stream_timings\n                        streams = []\n")
_V_JOIN_END = ("            if streams:\n                streams_timings = await asyncio.gather(*streams)\n                for stream_timings in streams_timings:\n"
               "                    timings += stream_timings\n        except BaseException:\n")

VARIANTS += [
    V("seed m14: a client completed by another task leaves the loop before the request in flight is sampled", "break", _D, _V_COMPLETED,
      "                elif self.complete.is_set():\n                    self.logger.info(\"Task [%s] is considered completed due to external event.\", self.task)\n                    break\n"
      "                else:\n                    completed = runner.completed\n", "O7.12"),
    V("S5 the loop is left on completion BEFORE the last request is sampled", "break", _D, _V_ADD_CALL, "                if completed:\n                    break\n" + _V_ADD_CALL, "O7.12"),
    V("S5 once the element is completed by another client the requests still executed are not sampled any more", "break", _D, _V_ADD_CALL,
      "                if self.complete.is_set() and not task_completes_parent:\n                    continue\n" + _V_ADD_CALL, "O7.12"),
    V("S5 the request with which the runner reports completion is not sampled", "break", _D, _V_COMPLETED_IF,
      "                if runner.completed:\n                    break\n" + _V_COMPLETED_IF, "O7.12"),
    V("S5 only successful requests are sampled", "break", _D, _V_ADD_CALL, "                if not request_meta_data[\"success\"]:\n                    continue\n" + _V_ADD_CALL, "O7.12"),
    V("S5 external completion handled in an arm of its own, sampled like every other request", "keep", _D, _V_COMPLETED,
      "                elif self.complete.is_set():\n                    self.logger.info(\"Task [%s] has been completed by another client.\", self.task)\n                    completed = True\n"
      "                else:\n                    completed = runner.completed\n"),
    V("S5 end of the loop respelled with a continue", "keep", _D, _V_LOOP_END,
      "                if not completed:\n                    continue\n                self.logger.info(\"Task [%s] is considered completed due to external event.\", self.task)\n                break\n"),
    [V("S5 the completion test lives in a helper method", "keep", _D, _V_COMPLETED_IF, "                completed = self._completed(runner, task_completes_parent)\n"),
     V("", "keep", _D, _V_EX_CALL, "    def _completed(self, runner, own_task_completes_parent):\n        if own_task_completes_parent:\n            return runner.completed\n"
       "        return self.complete.is_set() or runner.completed\n\n" + _V_EX_CALL)],
    [V("S5 completion test in a helper method that forgets the sample: the helper's caller leaves the loop at once", "break", _D, _V_COMPLETED_IF,
       "                completed = self._completed(runner, task_completes_parent)\n                if completed and not task_completes_parent:\n                    break\n", "O7.12"),
     V("", "break", _D, _V_EX_CALL, "    def _completed(self, runner, own_task_completes_parent):\n        if own_task_completes_parent:\n            return runner.completed\n"
       "        return self.complete.is_set() or runner.completed\n\n" + _V_EX_CALL)],
    V("seed m13: streams that are followed by a sub-request are only waited for, their timings dropped", "break", _RN, _V_JOIN_MID,
      "                        await asyncio.gather(*streams)\n                        streams = []\n", "O7.13"),
    V("S5 joined streams are not forgotten: their timings are reported again at the end", "break", _RN, _V_JOIN_MID, _V_JOIN_MID.replace("                        streams = []\n", ""), "O7.13"),
    V("S5 the timings of the trailing streams replace what was collected so far", "break", _RN, _V_JOIN_END, _V_JOIN_END.replace("timings += stream_timings", "timings = stream_timings"), "O7.13"),
    V("S5 only the first of several concurrent streams is joined into the timings", "break", _RN, _V_JOIN_MID,
      _V_JOIN_MID.replace("for stream_timings in streams_timings:", "for stream_timings in streams_timings[:1]:"), "O7.13"),
    V("S5 streams joined by a loop over the awaited gather, extend instead of +=", "keep", _RN, _V_JOIN_MID,
      "                        for stream_timings in await asyncio.gather(*streams):\n                            timings.extend(stream_timings)\n                        streams = []\n"),
    V("S5 trailing streams flattened by a comprehension", "keep", _RN, _V_JOIN_END,
      "            if streams:\n                timings += [t for stream_timings in await asyncio.gather(*streams) for t in stream_timings]\n        except BaseException:\n"),
    V("S5 joined streams forgotten with clear()", "keep", _RN, _V_JOIN_MID, _V_JOIN_MID.replace("streams = []", "streams.clear()")),
    # O7.14: what add enqueues
    V("seed m17: the sampler does not hand the dependent timings on to the sample", "break", _D, _V_SAMPLE_TAIL, "                    percent_completed,\n                )\n            )\n        except queue.Full", "O7.14"),
    V("S6 the sample's constructor forgets the dependent timings", "break", _D, "        self._dependent_timing = dependent_timing\n", "        self._dependent_timing = None\n", "O7.14"),
    V("S6 latency and service time change places on their way into the sample", "break", _D, "                    meta_data,\n" + _V_SAMPLE_TIMES, "                    meta_data,\n                    service_time,\n                    latency,\n                    processing_time,\n                    throughput,\n", "O7.14"),
    V("S6 the sample is built without the request's meta data", "break", _D, "                    sample_type,\n                    meta_data,\n                    latency,\n", "                    sample_type,\n                    {},\n                    latency,\n", "O7.14"),
    V("S6 the dependent timings are handed to the sample by keyword", "keep", _D, _V_SAMPLE_TAIL, "                    percent_completed,\n                    dependent_timing=dependent_timing,\n                )\n            )\n        except queue.Full"),
    V("S6 the sample's constructor keeps the dependent timings under another private name", "keep", _D, "        self._dependent_timing = dependent_timing\n", "        self._dependent_timing = self._timings_of_sub_requests = dependent_timing\n"),
    # O7.15: throughput from all samples
    V("seed m18: samples grouped with itertools.groupby over the batch in arrival order", "break", _D, _V_GROUPING,
      "        samples_per_task = {task: list(group) for task, group in itertools.groupby(samples, key=lambda s: s.task)}\n", "O7.15"),
    V("S6 a task's group is overwritten by every sample", "break", _D, "            if k not in samples_per_task:\n                samples_per_task[k] = []\n            samples_per_task[k].append(sample)\n",
      "            samples_per_task[k] = [sample]\n", "O7.15"),
    V("S6 only the samples of the batch's first task are grouped", "break", _D, "            k = sample.task\n            if k not in samples_per_task:\n",
      "            k = sample.task\n            if k is not samples[0].task:\n                continue\n            if k not in samples_per_task:\n", "O7.15"),
    V("S6 grouping respelled with setdefault", "keep", _D, "            if k not in samples_per_task:\n                samples_per_task[k] = []\n            samples_per_task[k].append(sample)\n",
      "            samples_per_task.setdefault(k, []).append(sample)\n"),
    V("S6 groupby over the batch sorted by task first", "keep", _D, _V_GROUPING,
      "        by_name = lambda s: s.task.name\n        samples_per_task = {group[0].task: group for group in (list(g) for _, g in itertools.groupby(sorted(samples, key=by_name), key=by_name))}\n"),
]
