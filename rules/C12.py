"""C12 — cluster engine start/stop is all-or-nothing across hosts and reports failures (DESIGN.md section 4, C12)."""
from __future__ import annotations

import ast

from sa import source
from sa.cfg import cfg_of, guards
from sa.classes import ActorModel, handler_guard, is_failure_send
from sa.source import AnchorMissing, dotted, is_self_attr, last_attr, params_of, short, u, walk_body

from rules.C09 import send_target_ok

_M = "esrally/mechanic/mechanic.py"
_A = "esrally/actor.py"
_L = "esrally/mechanic/launcher.py"


def _local_defs(func):
    """name -> value expr for locals assigned exactly once in the function (simple Name targets)."""
    counts, vals = {}, {}
    for n in walk_body(func):
        if isinstance(n, ast.Assign):
            for t in n.targets:
                if isinstance(t, ast.Name):
                    counts[t.id] = counts.get(t.id, 0) + 1
                    vals[t.id] = n.value
        elif isinstance(n, (ast.AugAssign, ast.AnnAssign)) and isinstance(n.target, ast.Name):
            counts[n.target.id] = counts.get(n.target.id, 0) + 2
        elif isinstance(n, (ast.For, ast.AsyncFor)):
            for t in ast.walk(n.target):
                if isinstance(t, ast.Name):
                    counts[t.id] = counts.get(t.id, 0) + 2
    return {k: v for k, v in vals.items() if counts.get(k) == 1}


def _clone(expr):
    return ast.parse(u(expr), mode="eval").body


def inline_node(expr, defs, depth=0):
    """Substitute single-assignment locals in a fresh copy of expr."""

    class T(ast.NodeTransformer):
        def visit_Name(self, n):
            if isinstance(n.ctx, ast.Load) and n.id in defs and depth < 8:
                return inline_node(defs[n.id], defs, depth + 1)
            return n

    return T().visit(_clone(expr))


def inline(expr, defs, depth=0):
    return u(inline_node(expr, defs, depth))


def call_chain(expr):
    """['len','nodes_by_host','to_ip_port'] for len(nodes_by_host(to_ip_port(x))) plus the innermost argument text."""
    names = []
    e = expr
    while isinstance(e, ast.Call) and len(e.args) >= 1:
        names.append(last_attr(e.func))
        e = e.args[0]
    return names, e


_SUBSCRIPTION_API = "notifyOnSystemRegistrationChanges"  # Thespian: Actor.notifyOnSystemRegistrationChanges(enable=True)
_CHILD_EXIT = "receiveMsg_ChildActorExited"  # Thespian tells the PARENT of an actor that exited


def _self_call(c, selfname="self"):
    return isinstance(c, ast.Call) and isinstance(c.func, ast.Attribute) and isinstance(c.func.value, ast.Name) and c.func.value.id == selfname


def _subscription_calls(func):
    """(call, enable) for every call of the registration-change subscription API in func's own body: enable is the truth value of its (inlined, evaluated) argument,
    True for the default, None if the argument is not decidable."""
    from sa import minieval
    defs = source.local_defs(func)
    out = []
    for c in source.calls_in(func, attr=_SUBSCRIPTION_API):
        a = source.arg_of(c, 0, "enable")
        if a is None:
            out.append((c, True if not c.args and not c.keywords else None))
            continue
        try:
            out.append((c, bool(minieval.ev(source.inline_node(a, defs), {}))))
        except minieval.CannotEval:
            out.append((c, None))
    return out


def _effect_sites(model, ci, m, direct):
    """Calls in m's own body that perform an effect: `direct(call, func)` holds, or the call is self.<method>(...) and a direct site is reachable from that method
    (MRO-resolved self calls and bound-method callbacks)."""
    out = []
    for c in source.calls_in(m):
        if direct(c, m):
            out.append(c)
        elif _self_call(c):
            callee = model.table.method(ci, c.func.attr)
            if callee is not None and callee is not m and any(direct(x, fn) for _, fn in model.method_closure(ci, callee) for x in source.calls_in(fn)):
                out.append(c)
    return out


def _predicate_value(model, ci, call, selfname, rec):
    """Value of `self.<predicate>(<constant>)`: the predicate method's body (a decision ending in returns) is evaluated on the constant argument and the representative object."""
    from sa import minieval
    from sa.tables import decide
    callee = model.table.method(ci, call.func.attr)
    if callee is None or call.keywords or len(call.args) != len(params_of(callee)) - 1:
        raise minieval.CannotEval(f"call {u(call)[:60]}")
    ps = params_of(callee)
    env = {ps[0]: rec}
    for p, a in zip(ps[1:], call.args):
        env[p] = minieval.ev(a, {selfname: rec})

    def atom(n, _e):
        try:
            return bool(minieval.ev(n, dict(env)))
        except minieval.CannotEval:
            return None

    out = decide(callee.body, atom, {})
    if out.kind != "return" or out.value is None:
        raise minieval.CannotEval(f"{callee.name} does not end in a return on this input")
    return bool(minieval.ev(out.value, dict(env)))


def _child_exit_outcome(model, ci, h, status):
    """What the ChildActorExited handler h of actor ci does when the actor's status is `status`: ('failure' | 'forward' | 'nothing', site, text).
    The handler body is evaluated as a decision (sa.tables.decide) with status tests decided on the representative status; the effects on the taken path are inspected:
    a send whose target is an address attribute assigned from a handler's sender (upstream) and whose payload is a BenchmarkFailure (failure) or the received notification (forward).
    Raises Unsupported / UnknownAtom / CannotEval when the handler is not such a decision."""
    from sa import minieval
    from sa.tables import decide
    ps = params_of(h)
    if len(ps) < 3:
        raise minieval.CannotEval(f"{h.name} signature is not (self, msg, sender)")
    selfname, msgname = ps[0], ps[1]
    rec = minieval.Record(status=status)
    upstream = {attr for attr, lst in model.address_attrs(ci).items() if any(kind == "sender" for _, kind, _ in lst)}

    def atom(n, _e):
        try:
            if _self_call(n, selfname) and model.table.method(ci, n.func.attr) is not None:
                return _predicate_value(model, ci, n, selfname, rec)
            return bool(minieval.ev(n, {selfname: rec}))
        except minieval.CannotEval:
            return None

    out = decide(h.body, atom, {})
    binds = {k: v for k, v in getattr(out, "bindings", {}).items() if v is not None}
    if out.kind == "raise":
        return "nothing", out.node, "raises (a guarded handler would report that to the sender of the notification, i.e. to nobody)"
    best = ("nothing", h, f"no send to an upstream address ({sorted(upstream)}) on the path taken in status [{status}]")
    for e in out.effects:
        if not (isinstance(e, ast.Call) and last_attr(e.func) == "send" and _self_call(e, selfname) and len(e.args) >= 2):
            continue
        tgt = source.inline_node(e.args[0], binds)
        pay = source.inline_node(e.args[1], binds)
        if not (isinstance(tgt, ast.Attribute) and isinstance(tgt.value, ast.Name) and tgt.value.id == selfname and tgt.attr in upstream):
            continue
        if isinstance(pay, ast.Call) and last_attr(pay.func) == "BenchmarkFailure":
            return "failure", e, f"send({u(tgt)}, BenchmarkFailure) in status [{status}]"
        if isinstance(pay, ast.Name) and pay.id == msgname and best[0] == "nothing":
            best = ("forward", e, f"forwards the notification to {u(tgt)}")
    return best


def run(chk):
    repo = chk.repo
    model = ActorModel(repo)
    mech = repo.module(_M)
    act = repo.module(_A)
    lau = repo.module(_L)
    chk.use(mech, act, lau)
    chk.explanation = (
        "Decides the structural skeleton of engine start/stop: acknowledgement counting before the transition, who may construct "
        "EngineStarted/EngineStopped, agreement of expected child count and created node actors, the external-cluster bypass, failure reporting "
        "for StartNodes and daemon departure, and the stop order / once-only typestate; that the dispatcher stays subscribed to registration changes while the hosts start "
        "their nodes, that the exit of a node mechanic travels up the creation chain to a BenchmarkFailure, and that every launcher's start() stops the nodes already started "
        "when a later one fails."
    )
    chk.not_decided = "interleavings of remote daemons joining, real process termination, Thespian delivery."

    MA = model.actor("MechanicActor")
    DI = model.actor("Dispatcher")
    NM = model.actor("NodeMechanicActor")
    RA = model.table.get("RallyActor")

    # ---- O12.1 acknowledgement counting -----------------------------------------------------------
    chk.rule("O12.1", "the generic transition helper calls transition() only when the number of received responses (after appending this one) equals "
             "the number of children, and resets the response list before the call", 4,
             "two target hosts, the first acknowledges: race control would be told the engine has started/stopped before the second host is done")
    f = RA.methods.get("transition_when_all_children_responded")
    if f is None:
        raise AnchorMissing("RallyActor.transition_when_all_children_responded")
    ps = params_of(f)
    tparam = ps[-1]
    defs = _local_defs(f)
    g = cfg_of(f)
    tcalls = [n for n in walk_body(f) if isinstance(n, ast.Call) and isinstance(n.func, ast.Name) and n.func.id == tparam]
    chk.ob("O12.1", "transition() call sites in the helper", len(tcalls) == 1, f, f"{len(tcalls)} call site(s)")
    appends = [n for n in walk_body(f) if isinstance(n, ast.Call) and last_attr(n.func) == "append" and isinstance(n.func, ast.Attribute)
               and is_self_attr(n.func.value) and n.args and isinstance(n.args[0], ast.Name) and n.args[0].id == ps[2]]
    resp_attr = appends[0].func.value.attr if appends else None
    for tc in tcalls:
        ok_guard = False
        detail = "no guarding comparison between len(responses) and len(children)"
        for test, pol in guards(tc):
            if not pol or not isinstance(test, ast.Compare) or len(test.ops) != 1:
                continue
            l, r = inline(test.left, defs), inline(test.comparators[0], defs)
            sides = {l, r}
            if f"len(self.{resp_attr})" in sides and "len(self.children)" in sides:
                op = type(test.ops[0])
                if op is ast.Eq or (op is ast.GtE and l == f"len(self.{resp_attr})") or (op is ast.LtE and r == f"len(self.{resp_attr})"):
                    ok_guard = True
                    detail = f"guard `{u(test)}` = `{l} {type(test.ops[0]).__name__} {r}`"
                else:
                    detail = f"guard `{u(test)}` uses operator {type(test.ops[0]).__name__} (lets a transition happen with missing acknowledgements)"
        chk.ob("O12.1", "transition() guarded by responses == children", ok_guard, tc, detail)
        # the count is read after the append
        tn = g.node_of(tc)
        app_nodes = [g.node_of(a) for a in appends]
        ok = bool(app_nodes) and g.dominated_by_nodes(tn, app_nodes)
        # and the local holding the count is assigned after the append
        cnt_assigns = [n for n in walk_body(f) if isinstance(n, ast.Assign) and u(n.value) == f"len(self.{resp_attr})"]
        ok = ok and all(g.dominated_by_nodes(g.node_of(c), app_nodes) for c in cnt_assigns)
        chk.ob("O12.1", "this response is appended before it is counted", ok, tc, f"appends={len(appends)} count reads={len(cnt_assigns)}")
        resets = [n for n in walk_body(f) if isinstance(n, ast.Assign) and any(is_self_attr(t, resp_attr) for t in n.targets)
                  and isinstance(n.value, ast.List) and not n.value.elts]
        ok = bool(resets) and g.dominated_by_nodes(tn, [g.node_of(r) for r in resets])
        chk.ob("O12.1", "response list reset before transition()", ok, tc, f"resets={len(resets)}")
        # expected status is checked
        from sa import pat as _pat121
        ok = any(isinstance(f_, ast.Call) and last_attr(f_.func) == "is_current_status_expected" for f_ in _pat121.fact_nodes(tc))  # a fact: either arm, guard clause or if/else
        chk.ob("O12.1", "transition() only in the expected status", ok, tc, "guarded by is_current_status_expected" if ok else "status is not checked")

    # ---- O12.1b who constructs EngineStarted / EngineStopped -------------------------------------------
    chk.rule("O12.1b", "EngineStarted / EngineStopped are constructed only in a routine whose callers are the all-children transition of "
             "NodesStarted (status starting) / NodesStopped (status cluster_stopping), or the externally-provisioned branch", 2,
             "race control is told 'started' / 'stopped' from some other event")
    spec = {"EngineStarted": ("receiveMsg_NodesStarted", "starting", "receiveMsg_StartEngine"),
            "EngineStopped": ("receiveMsg_NodesStopped", "cluster_stopping", "receiveMsg_StopEngine")}
    for msgname, (ack_handler, status, ext_handler) in spec.items():
        sites = [n for m in repo.all_modules() for n in ast.walk(m.tree) if isinstance(n, ast.Call) and last_attr(n.func) == msgname
                 and isinstance(source.parent(n), ast.Call)]
        if not sites:
            raise AnchorMissing(f"no construction of {msgname}")
        for s in sites:
            fn = source.enclosing_func(s)
            cls = source.enclosing_class(s)
            inst = f"{msgname}() in {cls.name if cls else '?'}.{fn.name if fn else '?'}"
            if cls is None or cls.name != "MechanicActor":
                chk.ob("O12.1b", inst, False, s, "constructed outside MechanicActor")
                continue
            if fn.name.startswith("receive"):
                chk.ob("O12.1b", inst, False, s, "constructed directly in a message handler (bypasses the acknowledgement count)")
                continue
            # callers / references of this routine inside the class
            refs = []
            for m in MA.methods.values():
                for n in walk_body(m):
                    if is_self_attr(n, fn.name) and isinstance(n.ctx, ast.Load):
                        refs.append((m, n))
            allok = bool(refs)
            details = []
            for m, n in refs:
                p = source.parent(n)
                if isinstance(p, ast.Call) and p.func is n:
                    # direct call: must be in ext_handler under the external-true guard
                    gs = guards(p)
                    ext = any(pol and ("extern" in u(t)) for t, pol in gs)
                    ok = m.name == ext_handler and ext
                    details.append(f"direct call in {m.name} {'under external guard' if ext else 'NOT under the external guard'}")
                elif isinstance(p, ast.Call) and last_attr(p.func) == "transition_when_all_children_responded":
                    bound = source.bind_args(p, f)
                    exp = bound.get("expected_status")
                    ok = m.name == ack_handler and exp is not None and source.is_const(exp, status) and bound.get("transition") is n
                    details.append(f"transition callback in {m.name} expected_status={u(exp) if exp is not None else None}")
                elif isinstance(p, ast.keyword) and isinstance(source.parent(p), ast.Call) and last_attr(source.parent(p).func) == "transition_when_all_children_responded":
                    c = source.parent(p)
                    bound = source.bind_args(c, f)
                    exp = bound.get("expected_status")
                    ok = m.name == ack_handler and exp is not None and source.is_const(exp, status) and p.arg == "transition"
                    details.append(f"transition callback in {m.name} expected_status={u(exp) if exp is not None else None}")
                else:
                    ok = False
                    details.append(f"unrecognised use in {m.name}: {short(source.enclosing_stmt(n), 60)}")
                allok = allok and ok
            chk.ob("O12.1b", inst, allok, s, "; ".join(details))

    # ---- O12.1c sibling agreement on the child count ------------------------------------------------------
    chk.rule("O12.1c", "the number of acknowledgements MechanicActor waits for and the number of node actors the Dispatcher creates are computed by the "
             "same function chain over the same host list; every Dispatcher loop iteration registers exactly one node actor (now or when its remote joins)", 3,
             "several nodes per host / several hosts: the mechanic waits for fewer (early 'started') or more (hang) acknowledgements than node actors exist")
    se = MA.methods.get("receiveMsg_StartEngine")
    de = DI.methods.get("receiveMsg_StartEngine")
    if se is None or de is None:
        raise AnchorMissing("receiveMsg_StartEngine of MechanicActor/Dispatcher")
    sdefs, ddefs = _local_defs(se), _local_defs(de)
    child_assign = [n for n in walk_body(se) if isinstance(n, ast.Assign) and any(is_self_attr(t, "children") for t in n.targets)]
    chain_m = None
    for n in child_assign:
        v = inline_node(n.value, sdefs)
        for c in ast.walk(v):
            if isinstance(c, ast.Call) and last_attr(c.func) == "len":
                chain_m = call_chain(c)
    loops = [n for n in walk_body(de) if isinstance(n, ast.For) and any(isinstance(c, ast.Call) and last_attr(c.func) == "createActor" for c in ast.walk(n))]
    chain_d = None
    if loops:
        it = inline_node(loops[0].iter, ddefs)
        if isinstance(it, ast.Call) and last_attr(it.func) in ("items", "keys", "values"):
            it = it.func.value
        chain_d = call_chain(it)
    if chain_m is None or chain_d is None:
        raise AnchorMissing("child-count expression in MechanicActor.receiveMsg_StartEngine or node loop in Dispatcher.receiveMsg_StartEngine")
    ok = chain_m[0][1:] == chain_d[0] and last_attr(chain_d[1]) == "hosts" and isinstance(chain_d[1], ast.Attribute) \
        and isinstance(chain_d[1].value, ast.Name) and chain_d[1].value.id == params_of(de)[1]
    chk.ob("O12.1c", "expected children vs created node actors", ok, child_assign[0], f"mechanic: {'∘'.join(chain_m[0])}({u(chain_m[1])}); dispatcher iterates {'∘'.join(chain_d[0])}({u(chain_d[1])})")
    # msg.hosts = hosts precedes the send to the dispatcher
    hs = [n for n in walk_body(se) if isinstance(n, ast.Assign) and any(isinstance(t, ast.Attribute) and t.attr == "hosts" for t in n.targets)]
    sends = [c for c in source.calls_in(se, attr="send") if any(isinstance(x, ast.Call) and last_attr(x.func) == "createActor" for x in ast.walk(c))]
    gse = cfg_of(se)
    ok = bool(hs) and bool(sends) and inline(hs[0].value, sdefs) == u(chain_m[1]) and gse.dominated_by_nodes(gse.node_of(sends[0]), [gse.node_of(hs[0])])
    chk.ob("O12.1c", "the dispatcher receives the same host list", ok, hs[0] if hs else se, f"{short(hs[0], 40) if hs else 'no hosts assignment'} precedes {short(sends[0], 50) if sends else 'no send'}")
    # each loop iteration: createActor appended to pending or submsg appended to remotes
    gd = cfg_of(de)
    loop = loops[0]
    regs = [gd.node_of(c) for c in ast.walk(loop) if isinstance(c, ast.Call) and last_attr(c.func) == "append"
            and isinstance(c.func, ast.Attribute) and (is_self_attr(c.func.value, "pending") or (isinstance(c.func.value, ast.Subscript) and is_self_attr(c.func.value.value, "remotes")))]
    head = gd.node_of(loop)
    starts = gd.edge_targets(head, "iter")
    ok = bool(regs) and all(head.id not in gd.reachable([s], avoid=regs) or s in regs for s in starts)
    chk.ob("O12.1c", "every host entry registers a node actor or a pending remote", ok, loop, f"{len(regs)} registration site(s) in the loop")
    # remotes are all turned into actors on join, and all pending are sent
    cu = DI.methods.get("receiveMsg_ActorSystemConventionUpdate")
    sap = DI.methods.get("send_all_pending")
    if cu is None or sap is None:
        raise AnchorMissing("Dispatcher.receiveMsg_ActorSystemConventionUpdate / send_all_pending")
    ok = any(isinstance(n, ast.For) and isinstance(n.iter, ast.Subscript) and is_self_attr(n.iter.value, "remotes")
             and any(isinstance(c, ast.Call) and last_attr(c.func) == "createActor" for c in ast.walk(n)) for n in walk_body(cu))
    chk.ob("O12.1c", "every deferred start message of a joined remote gets a node actor", ok, cu, "loop over self.remotes[ip] creating actors")
    ok = any(isinstance(n, ast.For) and is_self_attr(n.iter, "pending") and any(isinstance(c, ast.Call) and last_attr(c.func) == "send" for c in ast.walk(n))
             and not any(isinstance(b, (ast.Break, ast.Return, ast.If, ast.Continue)) for b in ast.walk(n)) for n in walk_body(sap))
    chk.ob("O12.1c", "send_all_pending sends every pending start message", ok, sap, "unconditional loop over self.pending with send")
    # the wait ends when the map of awaited remotes is EMPTY: a joined remote's entry is deleted whenever it is present, and the map (a defaultdict) is never subscripted in a test
    # (a mere look-up of an unknown address would create an entry that nothing removes)
    from sa import pat as _p12
    dels = [n for n in walk_body(cu) if isinstance(n, ast.Delete) and any(isinstance(t, ast.Subscript) and is_self_attr(t.value, "remotes") for t in n.targets)]
    ok = bool(dels) and all(all(_p12.is_(f_, "E_k in self.remotes") for f_ in _p12.fact_nodes(d, stop=None) if "remoteAdded" not in u(f_)) for d in dels)
    chk.ob("O12.1c", "the entry of a joined remote is removed whenever it is present (guarded by membership only)", ok, dels[0] if dels else cu,
           "" if ok else f"removal guarded by {[u(f_) for d in dels for f_ in _p12.fact_nodes(d)]}", key=f"{_M}:Dispatcher.receiveMsg_ActorSystemConventionUpdate:del-guard")
    viv = [t for n in walk_body(cu) if isinstance(n, (ast.If, ast.While, ast.IfExp)) for t in ast.walk(n.test) if isinstance(t, ast.Subscript) and is_self_attr(t.value, "remotes")]
    chk.ob("O12.1c", "no auto-vivifying look-up of the awaited-remotes map inside a condition", not viv, viv[0] if viv else cu,
           "" if not viv else f"`{u(viv[0])}` in a test creates an empty entry for an address that is not awaited: `not self.remotes` never becomes true and the parked start messages are never sent",
           key=f"{_M}:Dispatcher.receiveMsg_ActorSystemConventionUpdate:no-vivify")
    # ... exactly once: a later convention notification (another daemon joining) reaches send_all_pending again, so the list must be empty by then
    gsap = cfg_of(sap)
    sloops = [n for n in walk_body(sap) if isinstance(n, ast.For) and is_self_attr(n.iter, "pending")]
    resets = [n for n in walk_body(sap) if (isinstance(n, ast.Assign) and any(is_self_attr(t, "pending") for t in n.targets) and isinstance(n.value, (ast.List, ast.Tuple)) and not n.value.elts)
              or (isinstance(n, ast.Expr) and isinstance(n.value, ast.Call) and u(n.value.func) == "self.pending.clear")]
    ok = bool(sloops) and bool(resets) and gsap.must_pass(gsap.node_of(sloops[0]), [gsap.node_of(r) for r in resets], normal_only=True)
    chk.ob("O12.1c", "the pending list is emptied once its messages were sent (no host is started twice)", ok, resets[0] if resets else sap,
           "" if ok else "send_all_pending can return with the sent messages still parked: the next convention notification re-sends every StartNodes",
           key=f"{_M}:Dispatcher.send_all_pending:reset")

    # node actors are placed by capability ({"ip": <host>}): an actor system qualifies only if it DECLARES the required capability with the required value — a system that does
    # not declare it at all (the coordinator's own system: {"coordinator": True}) must not qualify, or the remote host's nodes are started on the coordinator
    from sa import minieval as _me12
    from sa.tables import decide as _dec12, Unsupported as _Uns12
    from sa.sym import UnknownAtom as _UA12
    am = repo.module("esrally/actor.py")
    cc = am.methods(am.cls("RallyActor")).get("actorSystemCapabilityCheck")
    if cc is None:
        raise AnchorMissing("RallyActor.actorSystemCapabilityCheck")
    cps = params_of(cc)
    lp12 = [n for n in walk_body(cc) if isinstance(n, ast.For) and isinstance(n.iter, ast.Call) and u(n.iter.func) == f"{cps[-1]}.items" and isinstance(n.target, ast.Tuple) and len(n.target.elts) == 2]
    if not lp12:
        chk.unknown("O12.1c", "actorSystemCapabilityCheck is not a loop over requirements.items()", cc)
    else:
        nm_, vl_ = (t.id for t in lp12[0].target.elts)
        for label, caps, want in (("capability declared with the required value", {"ip": "10.0.0.2"}, True), ("capability declared with another value", {"ip": "10.0.0.9"}, False),
                                  ("capability not declared at all", {"coordinator": True}, False)):
            env_ = {cps[-2]: caps, cps[-1]: {"ip": "10.0.0.2"}, nm_: "ip", vl_: "10.0.0.2"}

            def atom12(n, env, env_=env_):
                try:
                    return bool(_me12.ev(n, dict(env_)))
                except _me12.CannotEval:
                    return None

            def hook12(s_, env, b, env_=env_):
                # locals of the loop body are evaluated as they are bound
                if isinstance(s_, ast.Assign) and len(s_.targets) == 1 and isinstance(s_.targets[0], ast.Name):
                    try:
                        env_[s_.targets[0].id] = _me12.ev(s_.value, dict(env_))
                        return "skip"
                    except _me12.CannotEval:
                        return None
                return None

            try:
                out = _dec12(lp12[0].body, atom12, {}, on_stmt=hook12)
            except (_Uns12, _UA12) as e:
                chk.unknown("O12.1c", f"capability check body is not a decision over (declared value, required value): {e}", cc)
                break
            got = not (out.kind == "return" and isinstance(out.value, ast.Constant) and out.value.value is False)
            chk.ob("O12.1c", f"capability check: {label} -> {'qualifies' if want else 'does not qualify'}", got == want, cc, f"{'qualifies' if got else 'does not qualify'}",
                   key=f"esrally/actor.py:RallyActor.actorSystemCapabilityCheck:{label}")

    # ---- O12.2 external bypass ---------------------------------------------------------------------------
    chk.rule("O12.2", "on the externally-provisioned edge of start and of stop no actor is created and no StartEngine/StartNodes/StopNodes is sent; create() raises for external", 3,
             "benchmark-only pipeline: Rally would try to provision/stop a cluster it does not own")
    for hname in ("receiveMsg_StartEngine", "receiveMsg_StopEngine"):
        h = MA.methods.get(hname)
        if h is None:
            raise AnchorMissing(f"MechanicActor.{hname}")
        ifs = [n for n in walk_body(h) if isinstance(n, ast.If) and "extern" in u(n.test)]
        if not ifs:
            chk.ob("O12.2", f"{hname}: external branch", False, h, "no branch on the externally-provisioned flag")
            continue
        for i in ifs:
            pos = not (isinstance(i.test, ast.UnaryOp) and isinstance(i.test.op, ast.Not))
            arm = i.body if pos else i.orelse
            bad = []
            stack = list(arm)
            seen = set()
            while stack:
                st = stack.pop()
                for n in source.walk_local(st):
                    if isinstance(n, ast.Call):
                        nm = last_attr(n.func)
                        if nm in ("createActor", "send_to_children_and_transition") or nm in ("StartNodes", "StopNodes", "StartEngine", "Dispatcher"):
                            bad.append(nm)
                        if isinstance(n.func, ast.Attribute) and isinstance(n.func.value, ast.Name) and n.func.value.id == "self":
                            callee = model.table.method(MA, n.func.attr)
                            if callee is not None and id(callee) not in seen and callee is not h:
                                seen.add(id(callee))
                                stack.extend(callee.body)
            chk.ob("O12.2", f"{hname}: external arm creates/starts/stops nothing", not bad and bool(arm), i, f"reaches {bad}" if bad else "no createActor / StartNodes / StopNodes reachable")
    # the flag consulted at stop time is the one of the CURRENT StartEngine: assigned from the message on every path that reaches the branch (an actor may be reused)
    seh = MA.methods.get("receiveMsg_StartEngine")
    sth = MA.methods.get("receiveMsg_StopEngine")
    flag_reads = [n for n in walk_body(sth) if is_self_attr(n) and "extern" in n.attr and isinstance(n.ctx, ast.Load)] if sth is not None else []
    if seh is not None and flag_reads:
        fl = flag_reads[0].attr
        mp = params_of(seh)[1]
        writes = [n for f_ in MA.methods.values() for n in walk_body(f_) if isinstance(n, (ast.Assign, ast.AugAssign)) and any(is_self_attr(t, fl) for t in (n.targets if isinstance(n, ast.Assign) else [n.target]))]
        in_start = [n for n in writes if source.enclosing_func(n) is seh]
        gse = cfg_of(seh)
        branch = [n for n in walk_body(seh) if isinstance(n, ast.If) and "extern" in u(n.test)]
        from_msg = [n for n in in_start if isinstance(n, ast.Assign) and isinstance(n.value, ast.Attribute) and isinstance(n.value.value, ast.Name) and n.value.value.id == mp]
        ok = len(in_start) == 1 and len(from_msg) == 1 and bool(branch) and gse.dominated_by_nodes(gse.node_of(branch[0]), [gse.node_of(from_msg[0])]) \
            and all(source.enclosing_func(n) is seh or source.enclosing_func(n).name == "__init__" for n in writes)
        chk.ob("O12.2", f"`self.{fl}` is assigned from the StartEngine message before the branch, on every path (never sticky)", ok, in_start[0] if in_start else seh,
               f"writes in the handler: {[short(n, 50) for n in in_start]}" + ("" if ok else " — a provisioned start after an external one keeps the external flag: StopEngine acknowledges without stopping any node"),
               key=f"{_M}:MechanicActor.receiveMsg_StartEngine:flag-from-message")
    else:
        chk.ob("O12.2", "StopEngine consults the externally-provisioned flag", False, sth if sth is not None else MA.node, "no read of the flag in receiveMsg_StopEngine")
    cr = mech.func("create")
    gcr = cfg_of(cr)
    ext_ifs = [n for n in walk_body(cr) if isinstance(n, ast.If) and isinstance(n.test, ast.Name) and n.test.id == "external"]
    ok = False
    for i in ext_ifs:
        tn = gcr.node_of(i)
        starts = gcr.edge_targets(tn, "true")
        ok = bool(starts) and all(gcr.exit.id not in gcr.reachable([s]) for s in starts)
    chk.ob("O12.2", "create(): external raises", ok, ext_ifs[0] if ext_ifs else cr, "the external arm raises on every path" if ok else "create() can build a Mechanic for an external cluster")

    # ---- O12.3 failure reporting ---------------------------------------------------------------------------
    chk.rule("O12.3", "StartNodes handling reports any Exception as BenchmarkFailure to reply_to/sender; NodesStarted is sent only after start_engine() returned", 2,
             "a start failure on one host: race control waits forever (or is told 'started')")
    sn = NM.methods.get("receiveMsg_StartNodes")
    if sn is None:
        raise AnchorMissing("NodeMechanicActor.receiveMsg_StartNodes")
    chk.ob("O12.3", "receiveMsg_StartNodes guarded", handler_guard(sn) is not None, sn, f"guard={handler_guard(sn)}")
    gsn = cfg_of(sn)
    ns = [c for c in source.calls_in(sn, attr="send") if len(c.args) >= 2 and isinstance(c.args[1], ast.Call) and last_attr(c.args[1].func) == "NodesStarted"]
    se_calls = [c for c in source.calls_in(sn, attr="start_engine")]
    ok = bool(ns) and bool(se_calls) and all(gsn.dominated_by_nodes(gsn.node_of(s), [gsn.node_of(c) for c in se_calls]) for s in ns)
    chk.ob("O12.3", "NodesStarted after start_engine()", ok, ns[0] if ns else sn, f"NodesStarted sends={len(ns)} start_engine calls={len(se_calls)}")
    for s in ns:
        chk.ob("O12.3", "NodesStarted goes to reply_to/sender", send_target_ok(s, set(), sn), s, short(s, 70))
    # NodesStarted constructed nowhere else
    others = [n for m in repo.all_modules() for n in ast.walk(m.tree) if isinstance(n, ast.Call) and last_attr(n.func) == "NodesStarted"
              and isinstance(source.parent(n), ast.Call) and source.enclosing_func(n) is not sn]
    chk.ob("O12.3", "NodesStarted constructed only in receiveMsg_StartNodes", not others, others[0] if others else sn, f"{len(others)} other site(s)")

    # ---- O12.4 daemon departure ----------------------------------------------------------------------------------
    chk.rule("O12.4", "when a remote Rally daemon leaves during start-up (not remoteAdded) a BenchmarkFailure is sent to the start sender on every path", 1,
             "remote daemon dies while the dispatcher waits for it: race control hangs")
    gcu = cfg_of(cu)
    addr = model.address_attrs(DI)
    tests = [n for n in walk_body(cu) if isinstance(n, ast.If) and "remoteAdded" in u(n.test)]
    if not tests:
        raise AnchorMissing("Dispatcher.receiveMsg_ActorSystemConventionUpdate: test on remoteAdded")
    t = tests[0]
    neg = isinstance(t.test, ast.UnaryOp) and isinstance(t.test.op, ast.Not)
    label = "true" if neg else "false"
    starts = gcu.edge_targets(gcu.node_of(t), label)
    sends = [gcu.node_of(c) for c in source.calls_in(cu, attr="send") if is_failure_send(c) and send_target_ok(c, set(addr), cu)]
    ok = bool(sends) and bool(starts) and all(s in sends or gcu.must_pass(s, sends) for s in starts)
    chk.ob("O12.4", "Dispatcher: departure -> send(start_sender, BenchmarkFailure)", ok, t,
           "failure sent on every path of the departure branch" if ok else "the departure branch can end without sending a BenchmarkFailure to an address",
           key=f"{_M}:Dispatcher.receiveMsg_ActorSystemConventionUpdate:departure")

    # ---- O12.5 stop order and once-only -----------------------------------------------------------------------------------
    chk.rule("O12.5", "stop_engine: launcher stop < flush(refresh) < store system metrics < store close < cleanup(preserve=configured flag) for every node config; "
             "NodesStopped only after stop_engine(); mechanic reference cleared; exit-request stop guarded by the reference", 8,
             "nodes left running / metrics lost / installation removed although preserve-install is set / node stopped twice")
    M = mech.cls("Mechanic")
    st = mech.methods(M).get("stop_engine")
    if st is None:
        raise AnchorMissing("Mechanic.stop_engine")
    gst = cfg_of(st)

    def find(pred):
        return [n for n in walk_body(st) if isinstance(n, ast.Call) and pred(n)]

    stop_c = find(lambda n: last_attr(n.func) == "stop" and "launcher" in u(n.func))
    flush_c = find(lambda n: last_attr(n.func) in ("flush_metrics", "flush"))
    add_c = find(lambda n: last_attr(n.func) == "_add_results" or last_attr(n.func) == "store_results")
    close_c = find(lambda n: last_attr(n.func) == "close" and "metrics_store" in u(n.func))
    clean_c = find(lambda n: last_attr(n.func) == "cleanup")
    seq = [("launcher.stop", stop_c), ("flush", flush_c), ("store system metrics", add_c), ("metrics_store.close", close_c), ("cleanup", clean_c)]
    for name, cs in seq:
        if not cs:
            raise AnchorMissing(f"Mechanic.stop_engine: call role '{name}' not found")
    for (n1, c1), (n2, c2) in zip(seq, seq[1:]):
        ok = not any(gst.path_exists(gst.node_of(b), gst.node_of(a)) for b in c2 for a in c1)
        chk.ob("O12.5", f"{n1} precedes {n2}", ok, c2[0], "no path runs the later stage before the earlier one" if ok else f"{n2} can run before {n1}")
    # every stage is reached on the normal path (must pass through from entry)
    for name, cs in seq:
        if name == "store system metrics":
            continue  # inside try with NotFound handler by design
        ok = gst.must_pass(gst.entry, [gst.node_of(c) for c in cs]) or name == "cleanup"
        if name == "cleanup":
            loop = source.enclosing(cs[0], ast.For)
            ok = loop is not None and "node_configs" in u(loop.iter) and gst.must_pass(gst.entry, [gst.node_of(loop)]) and not guards(cs[0], stop=loop)
        chk.ob("O12.5", f"{name} on every normal path", ok, cs[0], "")
    rf = source.arg_of(flush_c[0], 0, "refresh")
    chk.ob("O12.5", "flush with refresh", rf is not None and source.is_const(rf, True), flush_c[0], short(flush_c[0], 50))
    pv = source.arg_of(clean_c[0], 0, "preserve")
    init = mech.methods(M).get("__init__")
    pres_ok = False
    if pv is not None and is_self_attr(pv) and init is not None:
        for n in walk_body(init):
            if isinstance(n, ast.Assign) and any(is_self_attr(t, pv.attr) for t in n.targets) and isinstance(n.value, ast.Call) \
                    and any(source.is_const(a, "preserve.install") for a in n.value.args):
                pres_ok = True
    chk.ob("O12.5", "cleanup(preserve=<configured preserve.install>)", pres_ok, clean_c[0], f"preserve={u(pv) if pv is not None else None}")
    # lists emptied
    for attr in ("nodes", "node_configs"):
        resets = [n for n in walk_body(st) if isinstance(n, ast.Assign) and any(is_self_attr(t, attr) for t in n.targets) and isinstance(n.value, ast.List) and not n.value.elts]
        chk.ob("O12.5", f"self.{attr} emptied after stop", bool(resets) and gst.must_pass(gst.entry, [gst.node_of(r) for r in resets]), resets[0] if resets else st, "")
    # node actor
    ur = NM.methods.get("receiveUnrecognizedMessage")
    if ur is None:
        raise AnchorMissing("NodeMechanicActor.receiveUnrecognizedMessage")
    gur = cfg_of(ur)
    nst = [c for c in source.calls_in(ur, attr="send") if len(c.args) >= 2 and isinstance(c.args[1], ast.Call) and last_attr(c.args[1].func) == "NodesStopped"]
    stops = source.calls_in(ur, attr="stop_engine")
    if not nst or not stops:
        raise AnchorMissing("NodeMechanicActor.receiveUnrecognizedMessage: NodesStopped send / stop_engine call")
    clears_all = [n for n in walk_body(ur) if isinstance(n, ast.Assign) and any(is_self_attr(t, "mechanic") for t in n.targets) and source.is_const(n.value) and n.value.value is None]
    for s in nst:
        arm = [t for t, pol in guards(s) if pol and isinstance(t, ast.Call) and dotted(t.func) == "isinstance" and last_attr(t.args[1]) == "StopNodes"]
        chk.ob("O12.5", "NodesStopped only when handling StopNodes", bool(arm), s, "")
        arm_stops = [c for c in stops if any(t is a and pol for a in arm for t, pol in guards(c))]
        ok = bool(arm_stops) and gur.dominated_by_nodes(gur.node_of(s), [gur.node_of(c) for c in arm_stops])
        chk.ob("O12.5", "NodesStopped after stop_engine()", ok, s, "")
        ok = len(arm_stops) == 1 and gur.only_after_normal_return(s, arm_stops[0])
        chk.ob("O12.5", "NodesStopped only when stop_engine() returned (not on its failure edge)", ok, s,
               "" if ok else "the confirmation is also sent on a path on which stop_engine() raised (finally / handler): the coordinator acknowledges EngineStopped for a host that did not stop",
               key=f"{_M}:NodeMechanicActor.receiveUnrecognizedMessage:NodesStopped:normal-only")
        for cl in clears_all:
            ok = gur.only_after_normal_return(cl, arm_stops[0]) if arm_stops and any(t is a and pol for a in arm for t, pol in guards(cl)) else True
            chk.ob("O12.5", "mechanic reference kept when stop_engine() failed (the exit request retries the stop)", ok, cl, "", key=f"{_M}:NodeMechanicActor.receiveUnrecognizedMessage:clear:normal-only")
        clears = [n for n in walk_body(ur) if isinstance(n, ast.Assign) and any(is_self_attr(t, "mechanic") for t in n.targets) and source.is_const(n.value) and n.value.value is None]
        after = [gur.node_of(c) for c in clears]
        ok = bool(after) and gur.must_pass(gur.node_of(s), after, normal_only=True)
        chk.ob("O12.5", "mechanic reference cleared after StopNodes", ok, s, f"{len(clears)} clearing store(s)")
    for c in stops:
        gs = guards(c)
        in_stop_arm = any(pol and isinstance(t, ast.Call) and dotted(t.func) == "isinstance" and last_attr(t.args[1]) == "StopNodes" for t, pol in gs)
        if in_stop_arm:
            continue
        from sa import pat as _pat
        ok = _pat.guarded(c, "self.mechanic", "self.mechanic is not None") is not None
        chk.ob("O12.5", "stop on exit request guarded by the mechanic reference (no second stop)", ok, c, short(source.enclosing_stmt(c), 60))
    nsx = [n for m in repo.all_modules() for n in ast.walk(m.tree) if isinstance(n, ast.Call) and last_attr(n.func) == "NodesStopped"
           and isinstance(source.parent(n), ast.Call) and source.enclosing_func(n) is not ur]
    chk.ob("O12.5", "NodesStopped constructed only in the node actor", not nsx, nsx[0] if nsx else ur, "")

    from rules.C13 import cleanup_isolation_rule

    pv_ = repo.module("esrally/mechanic/provisioner.py")
    chk.use(pv_)
    cleanup_isolation_rule(chk, "O12.5", pv_)

    # ---- O12.6 launcher stop stores system metrics for every node --------------------------------------------------------------------
    chk.rule("O12.6", "each launcher's stop() stores system metrics for every node on every normal path of the loop body (conditional only on the store being present)", 2,
             "a node that had already died / needed kill -9: its system metrics are silently missing")
    for cname in ("ProcessLauncher", "DockerLauncher"):
        c = lau.cls(cname)
        sf = lau.methods(c).get("stop")
        if sf is None:
            raise AnchorMissing(f"{cname}.stop")
        gl = cfg_of(sf)
        loops = [n for n in walk_body(sf) if isinstance(n, ast.For) and u(n.iter) == "nodes"]
        stores = [n for n in walk_body(sf) if isinstance(n, ast.Call) and last_attr(n.func) == "store_system_metrics"]
        if not loops or not stores:
            chk.ob("O12.6", f"{cname}.stop", False, sf, "no loop over nodes / no store_system_metrics call")
            continue
        head = gl.node_of(loops[0])
        store_nodes = [gl.node_of(s) for s in stores]
        allowed_false = []
        for s in stores:
            for t, pol in guards(s, stop=loops[0]):
                if pol and isinstance(t, ast.Name) and "metrics_store" in t.id:
                    tn = gl.node_of(source.parent(t))
                    allowed_false += [(tn.id, y, lab) for (y, lab) in gl.succ[tn.id] if lab == "false"]
                else:
                    allowed_false = None
                    break
            if allowed_false is None:
                break
        if allowed_false is None:
            chk.ob("O12.6", f"{cname}.stop", False, stores[0], "store_system_metrics is guarded by something else than the presence of the metrics store")
            continue
        starts = gl.edge_targets(head, "iter")
        r = gl.reachable(starts, avoid=store_nodes, avoid_edges=allowed_false)
        ok = head.id not in r
        chk.ob("O12.6", f"{cname}.stop stores system metrics per node", ok, stores[0], "every path of the loop body passes the store call" if ok else "a path through the loop body skips store_system_metrics")

    # ---- O12.4b the dispatcher stays subscribed while the hosts start their nodes (F41) -----------------------------------------------------------
    chk.rule("O12.4b", "the Dispatcher subscribes to registration changes on every path of StartEngine that does not send the start messages at once, and no activation that sends the "
             "parked start messages also cancels the subscription (the Dispatcher is never told that start-up has completed: at that point notifications are still needed)", 3,
             "all daemons have joined, one host is still installing / launching its nodes and its daemon leaves: nobody is notified, race control waits forever")
    # the attribute(s) in which (node actor, start message) pairs are parked: self.<X>.append(<something built from createActor(...)>)
    parked = set()
    for f_ in DI.methods.values():
        fdefs = _local_defs(f_)
        for c in source.calls_in(f_, attr="append"):
            if isinstance(c.func, ast.Attribute) and is_self_attr(c.func.value) and c.args \
                    and any(isinstance(x, ast.Call) and last_attr(x.func) == "createActor" for x in ast.walk(inline_node(c.args[0], fdefs))):
                parked.add(c.func.value.attr)
    if not parked:
        raise AnchorMissing("Dispatcher: no attribute in which created node actors are parked together with their start message")

    def is_start_send(c, fn):
        """a send inside a loop over the parked (actor, start message) pairs"""
        if last_attr(c.func) != "send":
            return False
        fdefs = _local_defs(fn)
        for a in source.ancestors(c):
            if a is fn:
                break
            if isinstance(a, (ast.For, ast.AsyncFor)) and any(is_self_attr(x) and x.attr in parked for x in ast.walk(inline_node(a.iter, fdefs))):
                return True
        return False

    def is_cancel(c, fn):
        return any(c is c2 and en is False for c2, en in _subscription_calls(fn))

    def is_subscribe(c, fn):
        return any(c is c2 and en is True for c2, en in _subscription_calls(fn))

    for f_ in DI.methods.values():
        for c, en in _subscription_calls(f_):
            if en is None:
                chk.unknown("O12.4b", f"the argument of `{short(c, 60)}` is not a decidable constant (subscribe or cancel?)", c)
    n_senders = 0
    for name, f_ in DI.methods.items():
        s_sites = _effect_sites(model, DI, f_, is_start_send)
        if not s_sites:
            continue
        n_senders += 1
        c_sites = _effect_sites(model, DI, f_, is_cancel)
        gf = cfg_of(f_)
        clash = [(c, s) for c in c_sites for s in s_sites
                 if c is s or gf.node_of(c) is gf.node_of(s) or gf.path_exists(gf.node_of(c), gf.node_of(s)) or gf.path_exists(gf.node_of(s), gf.node_of(c))]
        chk.ob("O12.4b", f"Dispatcher.{name}: the start messages go out with the subscription still in place", not clash, clash[0][0] if clash else s_sites[0],
               f"{len(s_sites)} site(s) sending the parked start messages, {len(c_sites)} cancelling site(s), none on a common path" if not clash else
               f"`{short(clash[0][0], 70)}` cancels the subscription in the activation that sends the start messages (`{short(clash[0][1], 50)}`): a daemon that leaves while its host "
               "is still starting nodes is reported to nobody",
               key=f"{_M}:Dispatcher.{name}:stays-subscribed")
    if n_senders == 0:
        raise AnchorMissing("Dispatcher: no method sends the parked start messages (send inside a loop over the parked pairs)")
    gde = cfg_of(de)
    sub_or_send = [gde.node_of(c) for c in _effect_sites(model, DI, de, is_subscribe) + _effect_sites(model, DI, de, is_start_send)]
    ok = bool(sub_or_send) and gde.must_pass(gde.entry, sub_or_send, normal_only=True)
    chk.ob("O12.4b", "Dispatcher.receiveMsg_StartEngine: subscribes unless the start messages are sent at once", ok, de,
           "" if ok else "a path parks the start messages without subscribing to registration changes: neither the joining nor the departure of a daemon is ever noticed",
           key=f"{_M}:Dispatcher.receiveMsg_StartEngine:subscribes")

    # ---- O12.4c the death of a node mechanic reaches race control (F42) -----------------------------------------------------------------------------
    chk.rule("O12.4c", "every actor class that creates node mechanic actors handles ChildActorExited (Thespian notifies the PARENT) by sending a BenchmarkFailure or by forwarding the "
             "notification upstream; the actor it is forwarded to (the creator of the forwarding actor) handles it in turn, and in the status in which NodesStarted is awaited the chain "
             "ends in a BenchmarkFailure", 1,
             "the process of one host's node mechanic dies while it starts its nodes (OOM kill, SystemExit in an install hook): only logged as unrecognized, race control waits forever")
    from sa import minieval as _me4c
    from sa.tables import Unsupported as _Uns4c
    from sa.sym import UnknownAtom as _UA4c
    nsh = MA.methods.get("receiveMsg_NodesStarted")
    await_status = None
    if nsh is not None:
        for c in source.calls_in(nsh, attr="transition_when_all_children_responded"):
            exp = source.bind_args(c, f).get("expected_status")  # f: RallyActor.transition_when_all_children_responded (O12.1)
            if exp is not None and isinstance(exp, ast.Constant) and isinstance(exp.value, str):
                await_status = exp.value
    if await_status is None:
        raise AnchorMissing("MechanicActor.receiveMsg_NodesStarted: status in which the acknowledgements are awaited (expected_status of the transition)")

    def creators_of(clsname):
        return [a for a in model.actors if any(isinstance(c, ast.Call) and last_attr(c.func) == "createActor" and c.args and last_attr(c.args[0]) == clsname
                                               for m_ in a.methods.values() for c in walk_body(m_))]

    work = [(a, f"creates {NM.name}") for a in creators_of(NM.name)]
    if not work:
        raise AnchorMissing(f"no actor class creates {NM.name}")
    seen4c = set()
    while work:
        a, why = work.pop(0)
        if a.name in seen4c:
            continue
        seen4c.add(a.name)
        h = model.table.method(a, _CHILD_EXIT)
        key4c = f"{a.module.relpath}:{a.name}.{_CHILD_EXIT}:reports"
        inst = f"{a.name} ({why}): an exited child is reported"
        if h is None:
            chk.ob("O12.4c", inst, False, a.node, f"{a.name} has no {_CHILD_EXIT}: the exit of a child lands in receiveUnrecognizedMessage (logged only); the mechanic keeps waiting for "
                   "the missing NodesStarted", key=key4c)
            continue
        try:
            kind, site, text = _child_exit_outcome(model, a, h, await_status)
        except (_Uns4c, _UA4c, _me4c.CannotEval) as e:
            chk.unknown("O12.4c", f"{a.name}.{_CHILD_EXIT} is not a decision over the actor's status ending in sends: {e}", h)
            continue
        chk.ob("O12.4c", inst, kind in ("failure", "forward"), site, text, key=key4c)
        if kind == "forward":
            ups = creators_of(a.name)
            if not ups:
                chk.unknown("O12.4c", f"{a.name} forwards the notification but no actor class creates {a.name}", h)
            work += [(p, f"creates {a.name}, which forwards the exit of its children") for p in ups]

    # ---- O12.7 launcher start() is all-or-nothing per host (F43) ---------------------------------------------------------------------------------------------
    chk.rule("O12.7", "in every launcher's start(): an exception raised while the node configurations are being started reaches self.stop(<nodes started so far>, ...) before it "
             "leaves start(), and it does leave start() as an exception (sibling agreement of all launchers; the mechanic records the nodes only if ALL of them started)", 4,
             "several nodes per host, the second one fails to start: the failure is reported but the first node is never stopped (tear-down stops an empty list and wipes its installation)")
    se_m = mech.methods(M).get("start_engine")
    if se_m is None:
        raise AnchorMissing("Mechanic.start_engine")
    start_names = {n.value.func.attr for n in walk_body(se_m) if isinstance(n, ast.Assign) and any(is_self_attr(t, "nodes") for t in n.targets)
                   and isinstance(n.value, ast.Call) and isinstance(n.value.func, ast.Attribute) and "launcher" in u(n.value.func.value)}
    stop_names = {c.func.attr for c in stop_c if isinstance(c.func, ast.Attribute)}
    if len(start_names) != 1 or len(stop_names) != 1:
        raise AnchorMissing(f"Mechanic.start_engine / stop_engine: launcher start/stop call (start={sorted(start_names)} stop={sorted(stop_names)})")
    start_name, stop_name = next(iter(start_names)), next(iter(stop_names))
    launchers = [c for c in lau.classes() if start_name in lau.methods(c) and stop_name in lau.methods(c)]
    if len(launchers) < 2:
        raise AnchorMissing(f"{_L}: expected at least two launcher classes with {start_name}() and {stop_name}(), found {[c.name for c in launchers]}")
    for c in launchers:
        sf = lau.methods(c)[start_name]
        stopf = lau.methods(c)[stop_name]
        ps_ = params_of(sf)
        if len(ps_) < 2 or len(params_of(stopf)) < 2:
            raise AnchorMissing(f"{c.name}.{start_name}/{stop_name}: signature")
        cfgs, stop_kw = ps_[1], params_of(stopf)[1]
        ldefs = {k: v for k, v in _local_defs(sf).items()}
        gl = cfg_of(sf)
        key7 = f"{_L}:{c.name}.{start_name}"

        def over_configs(it, ldefs=ldefs, cfgs=cfgs):
            return any(isinstance(x, ast.Name) and x.id == cfgs for x in ast.walk(inline_node(it, ldefs)))

        loops7 = [n for n in walk_body(sf) if isinstance(n, (ast.For, ast.While)) and (over_configs(n.iter) if isinstance(n, ast.For) else over_configs(n.test))]
        comps = [n for n in walk_body(sf) if isinstance(n, (ast.ListComp, ast.GeneratorExp, ast.SetComp, ast.DictComp)) and any(over_configs(g_.iter) for g_ in n.generators)
                 and any(isinstance(x, ast.Call) for x in ast.walk(n.elt if not isinstance(n, ast.DictComp) else n.value))]
        if not loops7 and not comps:
            chk.unknown("O12.7", f"{c.name}.{start_name} does not iterate over its configurations in a recognised form (for loop / comprehension over `{cfgs}`)", sf)
            continue
        # the nodes started so far: locals that grow inside the loop
        acc = set()
        for lp in loops7:
            for n in ast.walk(lp):
                if isinstance(n, ast.Call) and last_attr(n.func) in ("append", "extend", "add", "insert") and isinstance(n.func, ast.Attribute) and isinstance(n.func.value, ast.Name):
                    acc.add(n.func.value.id)
                elif isinstance(n, ast.AugAssign) and isinstance(n.op, ast.Add) and isinstance(n.target, ast.Name):
                    acc.add(n.target.id)
        stops7 = []
        for x in source.calls_in(sf, attr=stop_name):
            if not _self_call(x):
                continue
            a0 = source.arg_of(x, 0, stop_kw)
            if a0 is not None and any(isinstance(y, ast.Name) and y.id in acc for y in ast.walk(inline_node(a0, {k: v for k, v in ldefs.items() if k not in acc}))):
                stops7.append(x)
        stop_nodes = [n_ for x in stops7 for n_ in gl.nodes_of(x)]
        starting = []
        for lp in loops7:
            for st in lp.body:
                for n in ast.walk(st):
                    if isinstance(n, ast.stmt):
                        starting += [x for x in gl.nodes_of(n)]
        for cp in comps:
            starting += gl.nodes_of(cp)
        live = gl.live_nodes()
        starting = [n_ for n_ in starting if n_.id in live]
        # The representative failure: an exception in a LATER iteration. The list of started nodes is then non-empty and a completion flag (a local that only ever holds
        # constants) has the value it was given before the loop. Tests in the clean-up code over these locals alone are decided on that situation: only the edge taken is followed
        # (`if nodes:` may skip the stop for an empty list; `if not complete:` in a finally never skips it for a failure inside the loop).
        flags = {}
        heads = [gl.node_of(lp) for lp in loops7] + [gl.node_of(cp) for cp in comps]
        consts = {}
        for n in walk_body(sf):
            if isinstance(n, ast.Assign) and len(n.targets) == 1 and isinstance(n.targets[0], ast.Name):
                consts.setdefault(n.targets[0].id, []).append(n)
        for nm, asg in consts.items():
            if nm in acc or not all(isinstance(a_.value, ast.Constant) for a_ in asg):
                continue
            before = {a_.value.value for a_ in asg if any(gl.path_exists(gl.node_of(a_), h_) for h_ in heads)}
            if len(before) == 1:
                flags[nm] = next(iter(before))
        env7 = dict(flags)
        env7.update({a_: ["a started node"] for a_ in acc})
        infeasible = []
        for n in walk_body(sf):
            if not isinstance(n, ast.If):
                continue
            names = {x.id for x in ast.walk(n.test) if isinstance(x, ast.Name)}
            if not names or not names <= set(env7) | {"len", "bool"} or not names & set(env7):
                continue
            try:
                taken = "true" if _me4c.ev(n.test, dict(env7)) else "false"
            except _me4c.CannotEval:
                continue
            for tn in gl.nodes_of(n):
                # the test was evaluated on the representative values: it takes this edge (and does not raise)
                infeasible += [(tn.id, y, l_) for (y, l_) in gl.succ[tn.id] if l_ != taken]
        leaks = []
        for n_ in starting:
            for y, l_ in gl.succ[n_.id]:
                if gl.normal_edge(n_.id, y, l_):
                    continue
                if y == gl.raise_exit.id or not gl.must_pass(gl.nodes[y], stop_nodes, exits=[gl.raise_exit], avoid_edges=infeasible):
                    leaks.append(n_)
                    break
        ok = bool(starting) and not leaks
        if comps and not loops7:
            why7 = f"`{short(comps[0], 60)}` starts the nodes inside a comprehension: when a later node fails the ones already started are dropped with the unfinished list"
        elif not stops7:
            why7 = f"no call self.{stop_name}(<nodes started so far>, ...) in {start_name}(): the exception of a later node leaves with the earlier nodes still running and unknown to the caller"
        else:
            why7 = (f"an exception raised at line {getattr(leaks[0].ast, 'lineno', '?')} can leave {start_name}() without passing self.{stop_name}({', '.join(sorted(acc))}, ...)"
                    " (handler too narrow / stop not on every exceptional path)") if leaks else ""
        chk.ob("O12.7", f"{c.name}.{start_name}: a failure while starting the nodes stops the ones already started before it propagates", ok,
               (leaks[0].ast if leaks and leaks[0].ast is not None else sf), why7 if not ok else f"{len(starting)} statement(s) in the start loop, every exceptional exit passes "
               f"self.{stop_name}({', '.join(sorted(acc))}, ...)", key=f"{key7}:stops-started-nodes")
        # ... and the failure still propagates: a handler around the start loop never completes normally (a partial node list would be taken for 'all started')
        start_stmts = list(loops7) + [source.enclosing_stmt(cp) for cp in comps]
        handlers = [h_ for t_ in walk_body(sf) if isinstance(t_, ast.Try) and any(x is s_ for b_ in t_.body for x in ast.walk(b_) for s_ in start_stmts) for h_ in t_.handlers]
        swallow = [h_ for h_ in handlers if any(gl.exit.id in gl.reachable([hn]) for hn in gl.nodes_of(h_))]
        chk.ob("O12.7", f"{c.name}.{start_name}: a start failure is not swallowed (no normal return from a handler around the start loop)", not swallow, swallow[0] if swallow else sf,
               f"{len(handlers)} handler(s) around the start loop, each one ends in a raise" if not swallow else
               "this handler can complete normally: start() returns a partial node list, the mechanic takes it for 'all nodes started' and NodesStarted is sent",
               key=f"{key7}:failure-propagates")


from sa.selftest import V  # noqa: E402

VARIANTS = [
    V("F3: address called instead of send", "break", _M, "            self.send(\n                self.start_sender,\n                actor.BenchmarkFailure(\"Remote Rally node [%s] has been shutdown prematurely.\" % convmsg.remoteAdminAddress),\n            )",
      "            self.start_sender(actor.BenchmarkFailure(\"Remote Rally node [%s] has been shutdown prematurely.\" % convmsg.remoteAdminAddress))", "O12.4"),
    V("departure only logged", "break", _M, "            self.send(\n                self.start_sender,\n                actor.BenchmarkFailure(\"Remote Rally node [%s] has been shutdown prematurely.\" % convmsg.remoteAdminAddress),\n            )", "            pass", "O12.4"),
    V("transition on first response", "break", _A, "            if response_count == expected_count:", "            if response_count >= 1:", "O12.1"),
    V("transition compares with > ", "break", _A, "            if response_count == expected_count:\n", "            if response_count < expected_count:\n", "O12.1"),
    V("count read before append", "break", _A, "            self.received_responses.append(msg)\n            response_count = len(self.received_responses)", "            response_count = len(self.received_responses)\n            self.received_responses.append(msg)", "O12.1"),
    V("responses not reset", "break", _A, "                self.received_responses = []\n                transition()", "                transition()", "O12.1"),
    V("EngineStarted sent from NodesStarted directly", "break", _M, "        self.transition_when_all_children_responded(sender, msg, \"starting\", \"cluster_started\", self.on_all_nodes_started)",
      "        self.send(self.race_control, EngineStarted(self.team_revision))", "O12.1b"),
    V("wrong expected status for stop", "break", _M, 'self.transition_when_all_children_responded(sender, msg, "cluster_stopping", "cluster_stopped", self.on_all_nodes_stopped)',
      'self.transition_when_all_children_responded(sender, msg, None, "cluster_stopped", self.on_all_nodes_stopped)', "O12.1b"),
    V("children sized by hosts not nodes_by_host", "break", _M, "            self.children = [None] * len(nodes_by_host(to_ip_port(hosts)))", "            self.children = [None] * len(to_ip_port(hosts))", "O12.1c"),
    V("external branch creates dispatcher", "break", _M, '            self.logger.info("Cluster will not be provisioned by Rally.")\n', '            self.logger.info("Cluster will not be provisioned by Rally.")\n            self.send(self.createActor(Dispatcher), msg)\n', "O12.2"),
    V("external stop goes to children", "break", _M, "        if self.externally_provisioned:\n            self.on_all_nodes_stopped()\n        else:\n            self.send_to_children_and_transition(sender, StopNodes(), [], \"cluster_stopping\")",
      "        self.send_to_children_and_transition(sender, StopNodes(), [], \"cluster_stopping\")", "O12."),
    V("NodesStarted before start_engine", "break", _M, "            self.mechanic.start_engine()\n            self.wakeupAfter(METRIC_FLUSH_INTERVAL_SECONDS)\n            self.send(getattr(msg, \"reply_to\", sender), NodesStarted())",
      "            self.send(getattr(msg, \"reply_to\", sender), NodesStarted())\n            self.mechanic.start_engine()\n            self.wakeupAfter(METRIC_FLUSH_INTERVAL_SECONDS)", "O12.3"),
    V("NodesStopped before stop_engine", "break", _M, "                self.mechanic.stop_engine()\n                self.send(sender, NodesStopped())\n                self.mechanic = None", "                self.send(sender, NodesStopped())\n                self.mechanic.stop_engine()\n                self.mechanic = None", "O12.5"),
    V("mechanic reference not cleared", "break", _M, "                self.send(sender, NodesStopped())\n                self.mechanic = None", "                self.send(sender, NodesStopped())", "O12.5"),
    V("cleanup ignores preserve", "break", _M, "provisioner.cleanup(preserve=self.preserve_install,", "provisioner.cleanup(preserve=False,", "O12.5"),
    V("close before flush", "break", _M, "        self.flush_metrics(refresh=True)\n        try:\n            current_race = self._current_race()", "        self.metrics_store.close()\n        self.flush_metrics(refresh=True)\n        try:\n            current_race = self._current_race()", "O12.5"),
    V("exit request stops unconditionally", "break", _M, "                if self.mechanic:\n                    self.mechanic.stop_engine()\n                    self.mechanic = None", "                self.mechanic.stop_engine()\n                self.mechanic = None", "O12.5"),
    V("system metrics only for stopped nodes", "break", _L, "            # store system metrics in any case (telemetry devices may derive system metrics while the node is running)\n            if metrics_store:\n                node.telemetry.store_system_metrics(node, metrics_store)",
      "                # store system metrics\n                if metrics_store:\n                    node.telemetry.store_system_metrics(node, metrics_store)", "O12.6"),
    V("create() for external returns", "break", _M, '        raise exceptions.RallyAssertionError("Externally provisioned clusters should not need to be managed by Rally\'s mechanic")',
      "        s = lambda: None\n        p = []\n        l = launcher.ProcessLauncher(cfg)", "O12.2"),
    # F41 (865b774): the dispatcher stays subscribed while the hosts start their nodes
    V("F41: subscription cancelled once the last remote has joined", "break", _M,
      "                # stay subscribed: a remote node that leaves while its host is still starting nodes needs to be reported as well\n",
      "                self.notifyOnSystemRegistrationChanges(False)\n", "O12.4b"),
    V("F41: subscription cancelled by the routine that sends the start messages", "break", _M, "            self.send(*each)\n        self.pending = []\n",
      "            self.send(*each)\n        self.pending = []\n        self.notifyOnSystemRegistrationChanges(enable=False)\n", "O12.4b"),
    V("F41: start messages parked for remotes without subscribing", "break", _M, "            self.notifyOnSystemRegistrationChanges(True)\n        else:\n            self.send_all_pending()",
      "            self.logger.info('waiting for remotes')\n        else:\n            self.send_all_pending()", "O12.4b"),
    V("F41: start messages sent inline once the last remote has joined", "keep", _M, "                self.send_all_pending()\n\n    def send_all_pending(self):",
      "                for parked in self.pending:\n                    self.send(*parked)\n                self.pending = []\n\n    def send_all_pending(self):"),
    V("F41: idempotent re-subscription before the start messages go out", "keep", _M,
      "                # stay subscribed: a remote node that leaves while its host is still starting nodes needs to be reported as well\n",
      "                still_needed = True\n                self.notifyOnSystemRegistrationChanges(still_needed)\n"),
    # F42 (468edd0): the death of a node mechanic reaches race control
    V("F42: dispatcher without a ChildActorExited handler", "break", _M,
      "    def receiveMsg_ChildActorExited(self, msg, sender):\n        # the node mechanics are our children: let the actor that knows the engine's status decide whether this is a failure\n"
      "        self.send(self.start_sender, msg)\n\n", "", "O12.4c"),
    V("F42: dispatcher only logs the exit of a node mechanic", "break", _M, "decide whether this is a failure\n        self.send(self.start_sender, msg)",
      "decide whether this is a failure\n        self.logger.info('child exited: %s', msg)", "O12.4c"),
    V("F42: mechanic ignores child exits while starting", "break", _M, 'if self.is_current_status_expected(["cluster_stopping", "cluster_stopped"]):',
      'if self.is_current_status_expected(["starting", "cluster_stopping", "cluster_stopped"]):', "O12.4c"),
    V("F42: forwarding handler with other parameter names and a local for the target", "keep", _M,
      "    def receiveMsg_ChildActorExited(self, msg, sender):\n        # the node mechanics are our children: let the actor that knows the engine's status decide whether this is a failure\n"
      "        self.send(self.start_sender, msg)\n",
      "    def receiveMsg_ChildActorExited(self, notification, origin):\n        upstream = self.start_sender\n        self.send(upstream, notification)\n"),
    V("F42: stopping statuses tested by membership", "keep", _M, 'if self.is_current_status_expected(["cluster_stopping", "cluster_stopped"]):',
      'if self.status in ("cluster_stopping", "cluster_stopped"):'),
    # F43 (69fbba0): launcher start() is all-or-nothing per host
    V("F43: ProcessLauncher starts the nodes in a comprehension again", "break", _L,
      "        nodes = []\n        try:\n            for node_configuration in node_configurations:\n                nodes.append(self._start_node(node_configuration, node_count_on_host))\n"
      "        except BaseException:\n            # all or nothing: the caller only learns about the nodes if all of them have started, so stop the ones that already run\n"
      "            self.stop(nodes, None)\n            raise\n        return nodes\n",
      "        return [self._start_node(node_configuration, node_count_on_host) for node_configuration in node_configurations]\n", "O12.7"),
    V("F43: DockerLauncher does not stop the nodes already started", "break", _L,
      "                nodes.append(node)\n        except BaseException:\n            # all or nothing: the caller only learns about the nodes if all of them have started, so stop the ones that already run\n"
      "            self.stop(nodes, None)\n            raise\n", "                nodes.append(node)\n        except BaseException:\n            raise\n", "O12.7"),
    V("F43: ProcessLauncher stops an empty list instead of the started nodes", "break", _L,
      "node_count_on_host))\n        except BaseException:\n            # all or nothing: the caller only learns about the nodes if all of them have started, so stop the ones that already run\n"
      "            self.stop(nodes, None)\n", "node_count_on_host))\n        except BaseException:\n            self.stop([], None)\n", "O12.7"),
    V("F43: ProcessLauncher swallows the start failure after the clean-up", "break", _L,
      "node_count_on_host))\n        except BaseException:\n            # all or nothing: the caller only learns about the nodes if all of them have started, so stop the ones that already run\n"
      "            self.stop(nodes, None)\n            raise\n", "node_count_on_host))\n        except BaseException:\n            self.stop(nodes, None)\n", "O12.7"),
    V("F43: clean-up in try/finally with a completion flag, skipped for an empty list", "keep", _L,
      "        nodes = []\n        try:\n            for node_configuration in node_configurations:\n                nodes.append(self._start_node(node_configuration, node_count_on_host))\n"
      "        except BaseException:\n            # all or nothing: the caller only learns about the nodes if all of them have started, so stop the ones that already run\n"
      "            self.stop(nodes, None)\n            raise\n        return nodes\n",
      "        started = []\n        complete = False\n        try:\n            for node_configuration in node_configurations:\n"
      "                started.append(self._start_node(node_configuration, node_count_on_host))\n            complete = True\n        finally:\n"
      "            if not complete and len(started) > 0:\n                self.stop(started, None)\n        return started\n"),
    V("F43: bare except and keyword argument for the started nodes", "keep", _L,
      "                nodes.append(node)\n        except BaseException:\n            # all or nothing: the caller only learns about the nodes if all of them have started, so stop the ones that already run\n"
      "            self.stop(nodes, None)\n            raise\n",
      "                nodes.append(node)\n        except:  # noqa\n            so_far = nodes\n            self.stop(metrics_store=None, nodes=so_far)\n            raise\n"),
    # preserving
    V("helper local for node map", "keep", _M, "            self.children = [None] * len(nodes_by_host(to_ip_port(hosts)))", "            node_map = nodes_by_host(to_ip_port(hosts))\n            self.children = [None] * len(node_map)"),
    V(">= on the acknowledgement count", "keep", _A, "            if response_count == expected_count:", "            if response_count >= expected_count:"),
    V("keyword transition argument", "keep", _M, 'self.transition_when_all_children_responded(sender, msg, "cluster_stopping", "cluster_stopped", self.on_all_nodes_stopped)',
      'self.transition_when_all_children_responded(sender, msg, expected_status="cluster_stopping", new_status="cluster_stopped", transition=self.on_all_nodes_stopped)'),
    V("logging between stop stages", "keep", _M, "        self.flush_metrics(refresh=True)\n        try:", "        self.flush_metrics(refresh=True)\n        self.logger.info('flushed')\n        try:"),
]
