"""C12 — cluster engine start/stop is all-or-nothing across hosts and reports failures (DESIGN.md section 4, C12)."""
from __future__ import annotations

import ast

from sa import source
from sa.cfg import cfg_of, guards
from sa.classes import ActorModel, handler_guard
from sa.source import AnchorMissing, dotted, is_self_attr, last_attr, params_of, short, u, walk_body


_M = "esrally/mechanic/mechanic.py"
_A = "esrally/actor.py"
_L = "esrally/mechanic/launcher.py"


def _local_defs(func):
    """name -> value expr for locals assigned exactly once in the function (simple Name targets)."""
    counts, vals = {}, {}
    for n in walk_body(func):
        if isinstance(n, ast.Assign):
            for t in n.targets:
                if isinstance(t, ast.Name):
                    counts[t.id] = counts.get(t.id, 0) + 1
                    vals[t.id] = n.value
        elif isinstance(n, (ast.AugAssign, ast.AnnAssign)) and isinstance(n.target, ast.Name):
            counts[n.target.id] = counts.get(n.target.id, 0) + 2
        elif isinstance(n, (ast.For, ast.AsyncFor)):
            for t in ast.walk(n.target):
                if isinstance(t, ast.Name):
                    counts[t.id] = counts.get(t.id, 0) + 2
    return {k: v for k, v in vals.items() if counts.get(k) == 1}


def _clone(expr):
    return ast.parse(u(expr), mode="eval").body


def inline_node(expr, defs, depth=0):
    """Substitute single-assignment locals in a fresh copy of expr."""

    class T(ast.NodeTransformer):
        def visit_Name(self, n):
            if isinstance(n.ctx, ast.Load) and n.id in defs and depth < 8:
                return inline_node(defs[n.id], defs, depth + 1)
            return n

    return T().visit(_clone(expr))


def call_chain(expr):
    """['len','nodes_by_host','to_ip_port'] for len(nodes_by_host(to_ip_port(x))) plus the innermost argument text."""
    names = []
    e = expr
    while isinstance(e, ast.Call) and len(e.args) >= 1:
        names.append(last_attr(e.func))
        e = e.args[0]
    return names, e


_SUBSCRIPTION_API = "notifyOnSystemRegistrationChanges"  # Thespian: Actor.notifyOnSystemRegistrationChanges(enable=True)
_CHILD_EXIT = "receiveMsg_ChildActorExited"  # Thespian tells the PARENT of an actor that exited


def _self_call(c, selfname="self"):
    return isinstance(c, ast.Call) and isinstance(c.func, ast.Attribute) and isinstance(c.func.value, ast.Name) and c.func.value.id == selfname


def _subscription_calls(func):
    """(call, enable) for every call of the registration-change subscription API in func's own body: enable is the truth value of its (inlined, evaluated) argument,
    True for the default, None if the argument is not decidable."""
    from sa import minieval
    defs = source.local_defs(func)
    out = []
    for c in source.calls_in(func, attr=_SUBSCRIPTION_API):
        a = source.arg_of(c, 0, "enable")
        if a is None:
            out.append((c, True if not c.args and not c.keywords else None))
            continue
        try:
            out.append((c, bool(minieval.ev(source.inline_node(a, defs), {}))))
        except minieval.CannotEval:
            out.append((c, None))
    return out


def _effect_sites(model, ci, m, direct):
    """Calls in m's own body that perform an effect: `direct(call, func)` holds, or the call is self.<method>(...) and a direct site is reachable from that method
    (MRO-resolved self calls and bound-method callbacks)."""
    out = []
    for c in source.calls_in(m):
        if direct(c, m):
            out.append(c)
        elif _self_call(c):
            callee = model.table.method(ci, c.func.attr)
            if callee is not None and callee is not m and any(direct(x, fn) for _, fn in model.method_closure(ci, callee) for x in source.calls_in(fn)):
                out.append(c)
    return out


def _child_exit_outcome(model, ci, h, status, status_attr, RA):
    """What the ChildActorExited handler h of actor ci does when the actor's status is `status`: ('failure' | 'forward' | 'nothing', site, text).
    The handler is SIMULATED on a stand-in actor in that status (helpers of the class are followed): a send whose target is the value of an address attribute assigned from a
    handler's sender (upstream) and whose payload is a BenchmarkFailure (failure) or the received notification (forward). Raises _Cannot when the handler cannot be evaluated."""
    ps = params_of(h)
    if len(ps) < 3:
        raise _Cannot(f"{h.name} signature is not (self, msg, sender)")
    upstream = sorted(attr for attr, lst in model.address_attrs(ci).items() if any(kind == "sender" for _, kind, _ in lst))
    fields = dict(_init_fields(RA))
    fields.update(_init_fields(ci))
    fields.update({a: f"upstream address self.{a}" for a in upstream})
    fields[status_attr] = status
    me = _table_fields(model.table, ci, _Obj(name="self", **{k: _snap(v) for k, v in fields.items()}))
    note = _Obj(cls="ChildActorExited", name="the exit notification", childAddress="address of the child that exited")
    sim = _Sim(model.table, ci, me)
    try:
        sim.call_method(h, [note, "address of the child that exited"])
    except _Raised as x:
        return "nothing", x.node if isinstance(x.node, ast.AST) else h, f"raises {x.name} (a guarded handler would report that to the sender of the notification, i.e. to nobody)"
    best = ("nothing", h, f"no send to an upstream address ({upstream}) on the path taken in status [{status}]")
    doubt = _unknown_call(sim.trace)
    for e in sim.trace:
        if e.name != "send" or e.recv is not me or len(e.args) < 2 or not any(_eq(e.args[0], f"upstream address self.{a}") for a in upstream):
            continue
        if _payload_is(e.args[1], "BenchmarkFailure"):
            return "failure", e.node, f"send({e.args[0]}, BenchmarkFailure) in status [{status}]"
        if e.args[1] is note and best[0] == "nothing":
            best = ("forward", e.node, f"forwards the notification to the {e.args[0]}")
    if best[0] == "nothing" and doubt is not None:
        raise _Cannot(f"`{short(doubt.node, 60)}` calls a value the simulation does not know (the reaction to the exit may happen there)")
    return best


# ---------------------------------------------------------------------------------------------------------------------------------------------------------------
# local engine 1: SIMULATION of extracted actor code on representative values (no repository code is executed: the statements are interpreted over stand-in values).
# Values that are not known are `_Opaque`: they can be stored, passed on and sent, but a DECISION over them (truth value, comparison, iteration, len) raises `_Cannot`
# (the rule then reports "not recognised", never a verdict). Calls of methods of the same class (MRO) are followed into their bodies, so an extracted helper, a guard
# clause, a hoisted local or a renamed attribute / parameter / local does not change what the simulation observes: WHICH calls happen, in which order, with which values.

class _Cannot(Exception):
    pass


class _Raised(Exception):
    def __init__(self, name, node=None):
        super().__init__(name)
        self.name, self.node = name, node


class _Ret(Exception):
    def __init__(self, value):
        super().__init__("return")
        self.value = value


class _Brk(Exception):
    pass


class _Cnt(Exception):
    pass


class _Opaque:
    """a value the simulation does not know"""

    def __init__(self, text, call=None):
        self.text = text
        self.call = call  # the event that produced it (result of a call that is not interpreted)

    def _no(self, *a, **k):
        raise _Cannot(f"decision over the unknown value `{self.text[:60]}`")

    __bool__ = __len__ = __iter__ = __eq__ = __ne__ = __lt__ = __le__ = __gt__ = __ge__ = __contains__ = __getitem__ = _no
    __hash__ = object.__hash__

    def __repr__(self):
        return f"<{self.text[:50]}>"


class _Sym:
    """a global name the simulation does not bind (module, class or function of the package or of a library): calling it is recorded as an event"""

    def __init__(self, dotted_name):
        self.dotted = dotted_name

    @property
    def last(self):
        return self.dotted.rsplit(".", 1)[-1]

    def __eq__(self, o):
        if not isinstance(o, _Sym):
            raise _Cannot(f"comparison of the global `{self.dotted}` (value not known) with {o!r:.40}")
        return o.dotted == self.dotted

    def __ne__(self, o):
        return not self.__eq__(o)

    def _no(self, *a, **k):
        raise _Cannot(f"decision over the global `{self.dotted}` (value not known)")

    __bool__ = __len__ = __iter__ = __lt__ = __le__ = __gt__ = __ge__ = __contains__ = __getitem__ = _no

    def __hash__(self):
        return hash(self.last)

    def __repr__(self):
        return f"<{self.dotted}>"


class _ClsSym(_Sym):
    """the class of a stand-in object (type(msg), msg.__class__): equal to a global that names the same class, however that global is spelt
    (`thespian.actors.WakeupMessage`, `actors.WakeupMessage`, `WakeupMessage`); _Sym hashes by the last component so that a table keyed by classes finds it"""

    def __eq__(self, o):
        if not isinstance(o, _Sym):
            raise _Cannot(f"comparison of the class `{self.dotted}` with {o!r:.40}")
        return o.last == self.last

    def __ne__(self, o):
        return not self.__eq__(o)

    __hash__ = _Sym.__hash__


class _Bound:
    """a routine used as a VALUE (an entry of a dispatch table, a callback): a method of the simulated class (`self.m`, getattr(self, "m"); unbound=True: a function named in
    the class body, called with the actor as first argument), a lambda or a local function (closure = the environment it was defined in). Calling it runs its body."""

    def __init__(self, func, unbound=False, closure=None):
        self.func, self.unbound, self.closure = func, unbound, closure

    def __eq__(self, o):
        return isinstance(o, _Bound) and o.func is self.func and o.unbound == self.unbound

    def __ne__(self, o):
        return not self.__eq__(o)

    def __hash__(self):
        return hash(id(self.func))

    def __repr__(self):
        return f"<routine {getattr(self.func, 'name', 'lambda')}>"


class _Obj:
    """an object with known fields: a stand-in supplied by the rule (self, a message) or the result of calling a CapWords global (an instance of that class).
    Reading a field that was never set gives an opaque value (the same one every time); getattr(o, name, default) / hasattr() answer from the fields that were set."""

    def __init__(self, cls=None, name=None, call=None, **fields):
        self.cls = cls
        self.name = name or (cls or "obj")
        self.call = call
        self.fields = dict(fields)
        self._unknown = {}

    def get(self, attr):
        if attr in self.fields:
            return self.fields[attr]
        if attr not in self._unknown:
            self._unknown[attr] = _Opaque(f"{self.name}.{attr}")
        return self._unknown[attr]

    def __repr__(self):
        return f"<{self.name}>"


class _Ev:
    """one call that was not interpreted (API of the actor framework, another object, a library): name = last component of the callee, args / kwargs = the values it got,
    state = the fields of `self` at that moment (containers copied)."""

    def __init__(self, name, callee, args, kwargs, node, state, recv=None):
        self.name, self.callee, self.args, self.kwargs, self.node, self.state, self.recv = name, callee, args, kwargs, node, state, recv
        self.result = None

    def __repr__(self):
        return f"{self.callee}({', '.join([repr(a) for a in self.args] + [f'{k}={v!r}' for k, v in self.kwargs.items()])})"


def _snap(v):
    if isinstance(v, list):
        return list(v)
    if isinstance(v, dict):
        return {k: _snap(x) for k, x in v.items()}
    if isinstance(v, set):
        return set(v)
    return v


_SIM_BUILTINS = {"len": len, "list": list, "tuple": tuple, "set": set, "frozenset": frozenset, "dict": dict, "sorted": sorted, "bool": bool, "any": any, "all": all, "sum": sum,
                 "min": min, "max": max, "str": str, "int": int, "float": float, "abs": abs, "range": range, "enumerate": enumerate, "zip": zip, "reversed": reversed,
                 "filter": filter, "iter": iter, "next": next, "repr": repr, "defaultdict": __import__("collections").defaultdict,
                 "collections.defaultdict": __import__("collections").defaultdict, "OrderedDict": dict, "collections.OrderedDict": dict}
_SIM_METHODS = {list: {"append", "extend", "insert", "pop", "remove", "clear", "copy", "index", "count", "reverse", "sort"},
                dict: {"get", "items", "keys", "values", "pop", "setdefault", "update", "copy", "clear", "popitem"},
                set: {"add", "update", "discard", "remove", "copy", "clear", "union", "difference", "intersection", "issubset", "issuperset", "pop"},
                frozenset: {"union", "difference", "intersection", "issubset", "issuperset", "copy"},
                tuple: {"index", "count"},
                str: {"format", "join", "startswith", "endswith", "lower", "upper", "strip", "lstrip", "rstrip", "split", "rsplit", "replace", "partition", "rpartition", "title",
                      "capitalize", "casefold", "isdigit", "zfill"}}
_SIM_BINOPS = {ast.Add: lambda a, b: a + b, ast.Sub: lambda a, b: a - b, ast.Mult: lambda a, b: a * b, ast.Div: lambda a, b: a / b, ast.FloorDiv: lambda a, b: a // b,
               ast.Mod: lambda a, b: a % b, ast.Pow: lambda a, b: a ** b, ast.BitOr: lambda a, b: a | b, ast.BitAnd: lambda a, b: a & b}
_SIM_CMP = {ast.Eq: lambda a, b: a == b, ast.NotEq: lambda a, b: a != b, ast.Lt: lambda a, b: a < b, ast.LtE: lambda a, b: a <= b, ast.Gt: lambda a, b: a > b,
            ast.GtE: lambda a, b: a >= b, ast.Is: lambda a, b: a is b, ast.IsNot: lambda a, b: a is not b, ast.In: lambda a, b: a in b, ast.NotIn: lambda a, b: a not in b}
_CATCH_ALL = {"Exception", "BaseException"}
_GLOBALS_OF = {}  # id(module) -> {global name: [module-level statements that bind it]}


class _Sim:
    """Interprets a method of class `ci` (sa.classes.ClassInfo) on a stand-in `self` (an _Obj). `fail(ev)`: the recorded call raises (failure injection);
    `result(ev)`: value a recorded call returns (NotImplemented = default)."""

    MAX_STEPS = 4000

    def __init__(self, table, ci, self_obj, fail=None, result=None, follow=False):
        self.table, self.ci, self.self_obj, self.fail, self.result = table, ci, self_obj, fail, result
        self.follow = follow  # True: every call of an (undecorated) function of the module is followed into its body, not only one that is handed the actor
        self.trace = []
        self.steps = 0
        self.depth = 0
        self.current = []  # exceptions being handled (for a bare `raise`)
        self.modules = []  # module of the routine being interpreted (innermost last): where its global names are looked up

    # -- entry ---------------------------------------------------------------------------------------------------------------------------------------------
    def call_method(self, func, args=(), kwargs=None):
        """run `func` (a method of ci or of a base class) with self bound to the stand-in; returns its value. _Raised propagates when the body raises."""
        try:
            return self._invoke(func, [self.self_obj] + list(args), dict(kwargs or {}), bound=True)
        except (TypeError, AttributeError, ValueError, KeyError, IndexError, RecursionError) as x:
            # an operation on stand-in values that the interpreter does not model: the code is "not recognised", never a verdict and never a crash of the check
            raise _Cannot(f"the simulation of {func.name} failed ({type(x).__name__}: {x})")

    def _invoke(self, func, args, kwargs, bound, closure=None):
        from sa.classes import decorator_names
        if self.depth > 8:
            raise _Cannot(f"call depth exceeded at {func.name}")
        if any(isinstance(n, (ast.Yield, ast.YieldFrom, ast.Await)) for n in walk_body(func)):
            raise _Cannot(f"{func.name} is a generator / coroutine")
        if closure is not None and any(isinstance(n, (ast.Nonlocal, ast.Global)) for n in walk_body(func)):
            raise _Cannot(f"the local function {func.name} rebinds names of the enclosing scope")
        a = func.args
        if a.vararg is not None or a.kwarg is not None:
            raise _Cannot(f"{func.name} takes *args / **kwargs")
        static = any(d.split(".")[-1] == "staticmethod" for d in decorator_names(func))
        names = [x.arg for x in a.posonlyargs + a.args]
        if static and bound:
            args = args[1:]
        if len(args) > len(names):
            raise _Raised("TypeError", func)
        outer = dict(closure) if closure is not None else {}  # a lambda / local function sees the names of the scope it was defined in (as they are when it is called)
        env = dict(zip(names, args))
        defaults = dict(zip(names[len(names) - len(a.defaults):], a.defaults))
        for k, v in kwargs.items():
            if k in env or (k not in names and k not in [x.arg for x in a.kwonlyargs]):
                raise _Raised("TypeError", func)
            env[k] = v
        for k in names:
            if k not in env:
                if k not in defaults:
                    raise _Raised("TypeError", func)
                env[k] = self.val(defaults[k], dict(outer))
        for x, d in zip(a.kwonlyargs, a.kw_defaults):
            if x.arg not in env:
                if d is None:
                    raise _Raised("TypeError", func)
                env[x.arg] = self.val(d, dict(outer))
        env = {**outer, **env}
        self.depth += 1
        self.modules.append(getattr(func, "_module", None) or (self.modules[-1] if self.modules else None))
        try:
            self.run(func.body, env)
        except _Ret as r:
            return r.value
        finally:
            self.depth -= 1
            self.modules.pop()
        return None

    def _global(self, name):
        """what a global name of the module being interpreted stands for, where the simulation can tell: a module-level display (a dispatch table moved to module level:
        evaluated, its names are globals again) or a function of the module. None: a name whose value is not known (it stays a symbol)."""
        mod = (self.modules[-1] if self.modules else None) or self.ci.module
        cache = _GLOBALS_OF.setdefault(id(mod), {})
        if not cache:
            cache[""] = mod  # keeps the module alive as long as its id is a key
            for st in getattr(getattr(mod, "tree", None), "body", []):
                for nm in ([t.id for t in st.targets if isinstance(t, ast.Name)] if isinstance(st, ast.Assign) else [st.target.id] if isinstance(st, ast.AnnAssign)
                           and st.value is not None and isinstance(st.target, ast.Name) else [st.name] if isinstance(st, (ast.FunctionDef, ast.AsyncFunctionDef, ast.ClassDef)) else []):
                    cache.setdefault(nm, []).append(st)
        hits = cache.get(name, [])
        if len(hits) != 1 or isinstance(hits[0], (ast.AsyncFunctionDef, ast.ClassDef)):
            return None
        if isinstance(hits[0], ast.FunctionDef):
            return hits[0] if not hits[0].decorator_list else None
        if isinstance(hits[0].value, ast.Constant) and isinstance(hits[0].value.value, (str, int, float)) and not isinstance(hits[0].value.value, bool):
            return hits[0].value.value  # a named constant (text / number) that the parse-time propagation left in place
        if not isinstance(hits[0].value, (ast.Tuple, ast.List, ast.Dict, ast.Set)):
            return None
        try:
            return self.val(hits[0].value, {})
        except (_Cannot, _Raised):
            return None

    # -- expressions ---------------------------------------------------------------------------------------------------------------------------------------
    def truth(self, e, env):
        return bool(self.val(e, env))

    def val(self, e, env):
        self.steps += 1
        if self.steps > self.MAX_STEPS:
            raise _Cannot("step limit of the simulation exceeded")
        if isinstance(e, ast.Constant):
            return e.value
        if isinstance(e, ast.Name):
            if e.id in env:
                return env[e.id]
            if e.id in _SIM_BUILTINS:
                return _SIM_BUILTINS[e.id]
            g_ = self._global(e.id)
            if g_ is not None and not isinstance(g_, ast.FunctionDef):
                return g_
            return _Sym(e.id)
        if isinstance(e, ast.Attribute):
            return self._attr(self.val(e.value, env), e.attr)
        if isinstance(e, ast.BoolOp):
            r = None
            for i, v in enumerate(e.values):
                r = self.val(v, env)
                if i < len(e.values) - 1 and bool(r) != isinstance(e.op, ast.And):  # the last operand is the result as it is (no truth test: it may be unknown)
                    return r
            return r
        if isinstance(e, ast.UnaryOp):
            v = self.val(e.operand, env)
            if isinstance(e.op, ast.Not):
                return not v
            if isinstance(v, (int, float)) and not isinstance(v, bool):
                return -v if isinstance(e.op, ast.USub) else (+v if isinstance(e.op, ast.UAdd) else ~v)
            return _Opaque(u(e))
        if isinstance(e, ast.IfExp):
            return self.val(e.body, env) if self.truth(e.test, env) else self.val(e.orelse, env)
        if isinstance(e, ast.Compare):
            left = self.val(e.left, env)
            for op, c in zip(e.ops, e.comparators):
                right = self.val(c, env)
                try:
                    if isinstance(op, (ast.Is, ast.IsNot)) and isinstance(left, _Sym) and isinstance(right, _Sym):
                        same = left == right  # `type(msg) is StopNodes`: two names of the same class / global
                    elif isinstance(op, (ast.Is, ast.IsNot)) and any(isinstance(x, _ClsSym) for x in (left, right)) and any(isinstance(x, _Opaque) for x in (left, right)):
                        raise _Cannot(f"identity of a class and the unknown value `{u(e)[:60]}`")
                    else:
                        same = None
                    if same is not None:
                        if same != isinstance(op, ast.Is):
                            return False
                    elif not _SIM_CMP[type(op)](left, right):
                        return False
                except TypeError:
                    raise _Raised("TypeError", e)
                left = right
            return True
        if isinstance(e, (ast.List, ast.Tuple, ast.Set)):
            out = []
            for x in e.elts:
                if isinstance(x, ast.Starred):
                    out += list(self._iterable(self.val(x.value, env), x))
                else:
                    out.append(self.val(x, env))
            return out if isinstance(e, ast.List) else (tuple(out) if isinstance(e, ast.Tuple) else set(out))
        if isinstance(e, ast.Dict):
            out = {}
            for k, v in zip(e.keys, e.values):
                if k is None:
                    d = self.val(v, env)
                    if not isinstance(d, dict):
                        raise _Cannot(f"** of `{u(v)[:40]}`")
                    out.update(d)
                else:
                    out[self.val(k, env)] = self.val(v, env)
            return out
        if isinstance(e, ast.Subscript):
            v = self.val(e.value, env)
            if isinstance(e.slice, ast.Slice):
                if isinstance(v, (list, tuple, str)):
                    lo, hi, st = (None if x is None else self.val(x, env) for x in (e.slice.lower, e.slice.upper, e.slice.step))
                    return v[lo:hi:st]
                return _Opaque(u(e))
            k = self.val(e.slice, env)
            if isinstance(v, (list, tuple, str, dict)):
                try:
                    return v[k]
                except (KeyError, IndexError, TypeError) as x:
                    raise _Raised(type(x).__name__, e)
            return _Opaque(u(e))
        if isinstance(e, ast.BinOp):
            a, b = self.val(e.left, env), self.val(e.right, env)
            if type(e.op) in _SIM_BINOPS and not any(isinstance(x, (_Opaque, _Obj, _Sym)) for x in (a, b)):
                try:
                    return _SIM_BINOPS[type(e.op)](a, b)
                except _Cannot:
                    raise
                except Exception:  # noqa: BLE001 — e.g. "%d" % <stand-in>: the text is of no interest
                    return _Opaque(u(e))
            return _Opaque(u(e))
        if isinstance(e, ast.JoinedStr):
            for v in e.values:
                if isinstance(v, ast.FormattedValue):
                    self.val(v.value, env)
            return _Opaque(u(e))
        if isinstance(e, ast.Call):
            return self._call(e, env)
        if isinstance(e, (ast.ListComp, ast.SetComp, ast.GeneratorExp, ast.DictComp)):
            out = []

            def rec(i, env_):
                if i == len(e.generators):
                    out.append((self.val(e.key, env_), self.val(e.value, env_)) if isinstance(e, ast.DictComp) else self.val(e.elt, env_))
                    return
                g_ = e.generators[i]
                for x in self._iterable(self.val(g_.iter, env_), g_.iter):
                    env2 = dict(env_)
                    self._bind(g_.target, x, env2)
                    if all(self.truth(c, env2) for c in g_.ifs):
                        rec(i + 1, env2)

            rec(0, dict(env))
            if isinstance(e, ast.GeneratorExp):
                return iter(out)  # consumed once (next(...), any(...), a for loop); the elements were computed eagerly
            return dict(out) if isinstance(e, ast.DictComp) else (set(out) if isinstance(e, ast.SetComp) else out)
        if isinstance(e, ast.NamedExpr):
            v = self.val(e.value, env)
            env[e.target.id] = v
            return v
        if isinstance(e, ast.Starred):
            raise _Cannot(f"starred expression `{u(e)[:40]}` outside a call / display")
        if isinstance(e, ast.Lambda):
            fd = getattr(e, "_sim_func", None)
            if fd is None:
                fd = ast.FunctionDef(name="<lambda>", args=e.args, body=[ast.copy_location(ast.Return(value=e.body), e)], decorator_list=[], returns=None, type_comment=None)
                ast.copy_location(fd, e)
                fd._module = getattr(e, "_module", None)
                e._sim_func = fd
            return _Bound(fd, closure=env)
        return _Opaque(u(e))  # await, ...

    def _class_member(self, attr):
        """what `self.<attr>` is when no field of that name was set: a method of the class (a value that can be stored in a table and called later), the value of a property
        (its getter is run) or of a class-level assignment (evaluated; the functions of the class body are routines that take the actor as first argument). None: unknown."""
        from sa.classes import decorator_names
        m = self.table.method(self.ci, attr)
        if isinstance(m, ast.FunctionDef):
            decos = [d.split(".")[-1] for d in decorator_names(m)]
            if all(d in ("staticmethod", "classmethod") for d in decos):
                return _Bound(m)
            if decos and all(d in ("property", "cached_property") for d in decos) and len(params_of(m)) == 1:
                return self._invoke(m, [self.self_obj], {}, bound=True)
            return None
        if m is not None:
            return None
        for c in self.table.mro(self.ci):
            for st in c.node.body:
                tgts = st.targets if isinstance(st, ast.Assign) else ([st.target] if isinstance(st, ast.AnnAssign) and st.value is not None else [])
                if any(isinstance(t, ast.Name) and t.id == attr for t in tgts):
                    env = {n.name: _Bound(n, unbound=True) for n in c.node.body if isinstance(n, ast.FunctionDef) and not n.decorator_list}
                    return self.val(st.value, env)
        return None

    def _attr(self, v, attr):
        if isinstance(v, _Obj):
            if v is self.self_obj and attr not in v.fields and attr not in v._unknown:
                try:
                    r = self._class_member(attr)
                except (_Cannot, _Raised):
                    r = None  # as before: an unknown value (a decision over it is "not recognised")
                if r is not None:
                    return r
            if attr == "__class__" and attr not in v.fields and v.cls is not None:
                return _ClsSym(v.cls)
            return v.get(attr)
        if isinstance(v, _ClsSym) and attr in ("__name__", "__qualname__"):
            return v.last
        if isinstance(v, _Sym):
            return _Sym(f"{v.dotted}.{attr}")
        if isinstance(v, _Opaque):
            return _Opaque(f"{v.text}.{attr}")
        if v is None:
            raise _Raised("AttributeError")
        return _Opaque(f"{v!r:.30}.{attr}")

    def _iterable(self, v, node):
        if isinstance(v, (list, tuple, set, frozenset, str, range)) or isinstance(v, dict):
            return list(v)
        if isinstance(v, (_Opaque, _Obj, _Sym)) or v is None or isinstance(v, (int, float)):
            if v is None or isinstance(v, (int, float)):
                raise _Raised("TypeError", node)
            raise _Cannot(f"iteration over the unknown value `{u(node)[:60]}`")
        try:
            return list(v)  # enumerate / zip / filter / dict views ...
        except TypeError:
            raise _Raised("TypeError", node)

    def _event(self, name, callee, args, kwargs, node, recv=None, default=None, unknown_callee=False):
        ev = _Ev(name, callee, list(args), dict(kwargs), node, {k: _snap(v) for k, v in self.self_obj.fields.items()}, recv)
        ev.unknown_callee = unknown_callee
        self.trace.append(ev)
        if self.fail is not None and self.fail(ev):
            raise _Raised("Exception", node)
        r = self.result(ev) if self.result is not None else NotImplemented
        if r is NotImplemented:
            r = default(ev) if default is not None else _Opaque(f"{callee}(...)", call=ev)
        ev.result = r
        return r

    def _call(self, e, env):
        args, kwargs = [], {}
        f = e.func
        # receiver first (evaluation order: callee, then arguments)
        recv = None
        if isinstance(f, ast.Attribute):
            recv = self.val(f.value, env)
            fv = None
        else:
            fv = self.val(f, env)
        for a in e.args:
            if isinstance(a, ast.Starred):
                args += list(self._iterable(self.val(a.value, env), a.value))
            else:
                args.append(self.val(a, env))
        for k in e.keywords:
            if k.arg is None:
                d = self.val(k.value, env)
                if not isinstance(d, dict):
                    raise _Cannot(f"** of `{u(k.value)[:40]}`")
                kwargs.update(d)
            else:
                kwargs[k.arg] = self.val(k.value, env)
        callee = u(f)
        if isinstance(f, ast.Attribute):
            attr = f.attr
            if recv is self.self_obj:
                m = self.table.method(self.ci, attr)
                if m is not None:
                    return self._invoke(m, [recv] + args, kwargs, bound=True)
                if attr in recv.fields:
                    return self._call_value(recv.fields[attr], args, kwargs, e, callee)
                return self._event(attr, callee, args, kwargs, e, recv=recv)
            for t, ms in _SIM_METHODS.items():
                if isinstance(recv, t) and attr in ms:
                    try:
                        r = getattr(recv, attr)(*args, **kwargs)
                    except _Cannot:
                        raise
                    except Exception as x:  # noqa: BLE001 — KeyError, IndexError, ValueError of the container method
                        raise _Raised(type(x).__name__, e)
                    return list(r) if attr in ("items", "keys", "values") else r
            if isinstance(recv, type) and recv in _SIM_METHODS and (attr in _SIM_METHODS[recv] or (recv is dict and attr == "fromkeys")):
                try:
                    r = getattr(recv, attr)(*args, **kwargs)  # dict.fromkeys(keys, v), str.join(sep, xs), list.append(xs, x) ...
                except _Cannot:
                    raise
                except Exception as x:  # noqa: BLE001
                    raise _Raised(type(x).__name__, e)
                return list(r) if attr in ("items", "keys", "values") else r
            if recv is None:
                raise _Raised("AttributeError", e)
            if isinstance(recv, _Sym):
                return self._call_value(_Sym(f"{recv.dotted}.{attr}"), args, kwargs, e, callee)
            if isinstance(recv, _Obj) and attr in recv.fields:
                return self._call_value(recv.fields[attr], args, kwargs, e, callee)
            return self._event(attr, callee, args, kwargs, e, recv=recv)
        return self._call_value(fv, args, kwargs, e, callee)

    def _call_value(self, fv, args, kwargs, e, callee):
        if isinstance(fv, _Bound):
            if fv.closure is not None:
                return self._invoke(fv.func, list(args), kwargs, bound=False, closure=fv.closure)
            if fv.unbound:
                if not args or args[0] is not self.self_obj:
                    raise _Cannot(f"`{u(e)[:60]}`: a function of the class body is called with something else than the actor as its first argument")
                return self._invoke(fv.func, list(args), kwargs, bound=False)
            return self._invoke(fv.func, [self.self_obj] + list(args), kwargs, bound=True)
        if isinstance(fv, _Sym) and fv.dotted in _SIM_BUILTINS:
            fv = _SIM_BUILTINS[fv.dotted]
        if isinstance(fv, _Sym) and fv.dotted in _SIM_LIBRARY:
            fv = _SIM_LIBRARY[fv.dotted]
        if isinstance(fv, _Sym):
            if fv.dotted in ("getattr", "hasattr", "isinstance", "type", "id", "callable", "print", "super"):
                return self._special(fv.dotted, args, kwargs, e)
            if "." not in fv.dotted and (self.follow or any(a_ is self.self_obj for a_ in list(args) + list(kwargs.values()))):
                # a function of the module that is handed the actor works on its behalf (a handler body moved to module level): followed like a method
                # (follow=True: the pure helpers of the module that compute WHAT the actor works on are followed as well)
                g_ = self._global(fv.dotted)
                if isinstance(g_, ast.FunctionDef):
                    return self._invoke(g_, list(args), kwargs, bound=False)
            mk = (lambda ev: _Obj(cls=fv.dotted, call=ev)) if fv.last[:1].isupper() else None  # CapWords: an instance of that class
            return self._event(fv.last, fv.dotted, args, kwargs, e, default=mk)
        if any(fv is b for b in (sorted, min, max, filter)) and any(isinstance(x, _Bound) or getattr(x, "_sim_callback", False) for x in list(args) + list(kwargs.values())):
            return _lib_keyed(self, fv, args, kwargs, e)  # the key / predicate is a routine of the simulated code: applied by the simulation
        if any(fv is b for b in _SIM_BUILTINS.values()):
            try:
                r = fv(*args, **kwargs)
                return list(r) if any(fv is b for b in (filter, enumerate, zip, reversed, range)) else r
            except (_Cannot, _Raised):
                raise
            except StopIteration:
                raise _Raised("StopIteration", e)
            except Exception as x:  # noqa: BLE001
                if any(isinstance(a_, (_Opaque, _Obj, _Sym)) for a_ in args):
                    return _Opaque(u(e))
                raise _Raised(type(x).__name__, e)
        if callable(fv) and getattr(fv, "_sim_callback", False):
            return fv(self, args, kwargs, e)
        name = callee.rsplit(".", 1)[-1]
        # the callee is a VALUE the simulation does not know (an entry of a table it could not evaluate, the result of another call): recorded, and remembered as a call
        # that may have done anything (a negative verdict drawn from such a trace is "not recognised", see _unknown_call)
        return self._event(name, callee, args, kwargs, e, unknown_callee=isinstance(fv, (_Opaque, _Obj)))

    def _special(self, name, args, kwargs, e):
        if name == "getattr" and len(args) in (2, 3) and isinstance(args[1], str):
            o = args[0]
            if isinstance(o, _Obj):
                if o is self.self_obj and args[1] not in o.fields:
                    try:
                        r = self._class_member(args[1])
                    except (_Cannot, _Raised):
                        r = None
                    if r is not None:
                        return r
                    if self.table.method(self.ci, args[1]) is not None:
                        return o.get(args[1])  # a member of the class that the simulation does not model: present, value unknown
                if args[1] in o.fields or len(args) == 2:
                    return o.get(args[1])
                return args[2]
            return _Opaque(u(e))
        if name == "type" and len(args) == 1 and not kwargs:
            o = args[0]
            if isinstance(o, _Obj) and o.cls is not None:
                return _ClsSym(o.cls)
            if o is None or isinstance(o, (str, int, float, bool, list, tuple, dict, set, frozenset)):
                return type(o)
            return _Opaque(u(e))
        if name == "hasattr" and len(args) == 2 and isinstance(args[1], str):
            if isinstance(args[0], _Obj):
                return args[1] in args[0].fields
            raise _Cannot(f"`{u(e)[:60]}`")
        if name == "isinstance" and len(args) == 2:
            o, t = args
            ts = list(t) if isinstance(t, tuple) else [t]
            if all(isinstance(x, type) for x in ts):
                if isinstance(o, (_Opaque, _Obj, _Sym)):
                    if isinstance(o, _Opaque):
                        raise _Cannot(f"`{u(e)[:60]}`")
                    return False
                return isinstance(o, tuple(ts))
            if isinstance(o, _Opaque):
                raise _Cannot(f"`{u(e)[:60]}`")
            if isinstance(o, _Obj) and o.cls is not None:
                return any(isinstance(x, _Sym) and x.last == o.cls.rsplit(".", 1)[-1] for x in ts)
            if isinstance(o, _Obj):
                raise _Cannot(f"`{u(e)[:60]}` (class of the stand-in not fixed)")
            return False
        return _Opaque(u(e))

    # -- statements ----------------------------------------------------------------------------------------------------------------------------------------
    def _bind(self, t, v, env):
        if isinstance(t, ast.Name):
            env[t.id] = v
        elif isinstance(t, (ast.Tuple, ast.List)):
            if isinstance(v, (_Opaque, _Obj, _Sym)):
                for x in t.elts:
                    self._bind(x.value if isinstance(x, ast.Starred) else x, _Opaque(f"item of {v!r}"), env)
                return
            vals = self._iterable(v, t)
            star = [i for i, x in enumerate(t.elts) if isinstance(x, ast.Starred)]
            if star:
                i = star[0]
                rest = len(t.elts) - i - 1
                if len(vals) < len(t.elts) - 1:
                    raise _Raised("ValueError", t)
                vals = vals[:i] + [vals[i:len(vals) - rest]] + vals[len(vals) - rest:]
            if len(vals) != len(t.elts):
                raise _Raised("ValueError", t)
            for x, y in zip(t.elts, vals):
                self._bind(x.value if isinstance(x, ast.Starred) else x, y, env)
        elif isinstance(t, ast.Attribute):
            o = self.val(t.value, env)
            if isinstance(o, _Obj):
                o.fields[t.attr] = v
            elif o is None:
                raise _Raised("AttributeError", t)
        elif isinstance(t, ast.Subscript):
            o = self.val(t.value, env)
            if isinstance(t.slice, ast.Slice):
                if isinstance(o, list):
                    lo, hi = (None if x is None else self.val(x, env) for x in (t.slice.lower, t.slice.upper))
                    o[lo:hi] = self._iterable(v, t)
                return
            k = self.val(t.slice, env)
            if isinstance(o, (list, dict)):
                try:
                    o[k] = v
                except (IndexError, TypeError) as x:
                    raise _Raised(type(x).__name__, t)

    def _matches(self, h, exc):
        if h.type is None:
            return True
        names = {last_attr(t) for t in (h.type.elts if isinstance(h.type, ast.Tuple) else [h.type])}
        return bool(names & ({exc.name} | _CATCH_ALL)) if exc.name not in ("KeyboardInterrupt", "SystemExit", "GeneratorExit") else bool(names & {exc.name, "BaseException"})

    def run(self, stmts, env):
        for s in stmts:
            self.steps += 1
            if self.steps > self.MAX_STEPS:
                raise _Cannot("step limit of the simulation exceeded")
            if isinstance(s, ast.Expr):
                if not isinstance(s.value, ast.Constant):
                    self.val(s.value, env)
            elif isinstance(s, ast.Assign):
                v = self.val(s.value, env)
                for t in s.targets:
                    self._bind(t, v, env)
            elif isinstance(s, ast.AnnAssign):
                if s.value is not None:
                    self._bind(s.target, self.val(s.value, env), env)
            elif isinstance(s, ast.AugAssign):
                cur = self.val(ast.copy_location(_load(s.target), s), env)
                v = self.val(s.value, env)
                if isinstance(cur, list) and isinstance(s.op, ast.Add):
                    cur.extend(self._iterable(v, s.value))
                    new = cur
                elif type(s.op) in _SIM_BINOPS and not any(isinstance(x, (_Opaque, _Obj, _Sym)) for x in (cur, v)):
                    try:
                        new = _SIM_BINOPS[type(s.op)](cur, v)
                    except Exception as x:  # noqa: BLE001
                        raise _Raised(type(x).__name__, s)
                else:
                    new = _Opaque(u(s))
                self._bind(s.target, new, env)
            elif isinstance(s, ast.If):
                self.run(s.body if self.truth(s.test, env) else s.orelse, env)
            elif isinstance(s, (ast.For, ast.While)):
                broke = False
                n_iter = 0
                items = self._iterable(self.val(s.iter, env), s.iter) if isinstance(s, ast.For) else None
                while True:
                    if items is not None:
                        if n_iter >= len(items):
                            break
                        self._bind(s.target, items[n_iter], env)
                    elif not self.truth(s.test, env):
                        break
                    n_iter += 1
                    if n_iter > 200:
                        raise _Cannot(f"loop at line {s.lineno} does not end on the representative values")
                    try:
                        self.run(s.body, env)
                    except _Brk:
                        broke = True
                        break
                    except _Cnt:
                        continue
                if not broke:
                    self.run(s.orelse, env)
            elif isinstance(s, ast.Return):
                raise _Ret(self.val(s.value, env) if s.value is not None else None)
            elif isinstance(s, ast.Raise):
                if s.exc is None:
                    if self.current:
                        raise self.current[-1]
                    raise _Raised("RuntimeError", s)
                x = s.exc.func if isinstance(s.exc, ast.Call) else s.exc
                if isinstance(s.exc, ast.Call):
                    for a in list(s.exc.args) + [k.value for k in s.exc.keywords]:
                        self.val(a, env)
                raise _Raised(last_attr(x) or "Exception", s)
            elif isinstance(s, ast.Break):
                raise _Brk()
            elif isinstance(s, ast.Continue):
                raise _Cnt()
            elif isinstance(s, ast.Try):
                pending = None
                try:
                    try:
                        self.run(s.body, env)
                    except _Raised as x:
                        for h in s.handlers:
                            if self._matches(h, x):
                                if h.name:
                                    env[h.name] = _Obj(cls=x.name, name=f"exception {x.name}")
                                self.current.append(x)
                                try:
                                    self.run(h.body, env)
                                finally:
                                    self.current.pop()
                                break
                        else:
                            raise
                    else:
                        self.run(s.orelse, env)
                except (_Raised, _Ret, _Brk, _Cnt) as x:
                    pending = x  # `finally` runs for every way of leaving the statement (normal, return, break, exception)
                self.run(s.finalbody, env)
                if pending is not None:
                    raise pending
            elif isinstance(s, ast.With):
                for it in s.items:
                    v = self.val(it.context_expr, env)
                    if it.optional_vars is not None:
                        self._bind(it.optional_vars, v, env)
                self.run(s.body, env)
            elif isinstance(s, ast.Delete):
                for t in s.targets:
                    if isinstance(t, ast.Name):
                        env.pop(t.id, None)
                    elif isinstance(t, ast.Subscript):
                        o = self.val(t.value, env)
                        if isinstance(t.slice, ast.Slice):
                            if isinstance(o, list):
                                lo, hi = (None if x is None else self.val(x, env) for x in (t.slice.lower, t.slice.upper))
                                del o[lo:hi]
                            continue
                        k = self.val(t.slice, env)
                        if isinstance(o, (list, dict)):
                            try:
                                del o[k]
                            except (KeyError, IndexError, TypeError) as x:
                                raise _Raised(type(x).__name__, s)
                    elif isinstance(t, ast.Attribute):
                        o = self.val(t.value, env)
                        if isinstance(o, _Obj):
                            o.fields.pop(t.attr, None)
            elif isinstance(s, ast.FunctionDef) and not s.decorator_list:
                env[s.name] = _Bound(s, closure=env)  # a local function: called (directly, through a table) it runs in the scope it was defined in
            elif isinstance(s, (ast.FunctionDef, ast.AsyncFunctionDef, ast.ClassDef)):
                env[s.name] = _Opaque(f"local definition {s.name}")
            elif isinstance(s, ast.Match):
                subject = self.val(s.subject, env)
                for case in s.cases:
                    if self._match(case.pattern, subject, env) and (case.guard is None or self.truth(case.guard, env)):
                        self.run(case.body, env)
                        break
            elif isinstance(s, (ast.Pass, ast.Assert, ast.Import, ast.ImportFrom, ast.Global, ast.Nonlocal)):
                pass
            else:
                raise _Cannot(f"statement kind {type(s).__name__} at line {getattr(s, 'lineno', '?')}")

    def _match(self, p, v, env):
        """structural pattern matching on stand-in values: class patterns (`case StopNodes():`, keyword sub-patterns over the fields), captures / wildcard, alternatives,
        values and singletons; anything else is not modelled"""
        if isinstance(p, ast.MatchAs):
            if p.pattern is not None and not self._match(p.pattern, v, env):
                return False
            if p.name is not None:
                env[p.name] = v
            return True
        if isinstance(p, ast.MatchOr):
            return any(self._match(x, v, env) for x in p.patterns)
        if isinstance(p, ast.MatchClass):
            if p.patterns:
                raise _Cannot(f"class pattern with positional sub-patterns at line {p.lineno}")
            if not self._special("isinstance", [v, self.val(p.cls, env)], {}, p):
                return False
            for k, sub in zip(p.kwd_attrs, p.kwd_patterns):
                if not isinstance(v, _Obj):
                    raise _Cannot(f"class pattern over the fields of `{v!r:.40}`")
                if not self._match(sub, v.get(k), env):
                    return False
            return True
        if isinstance(p, ast.MatchValue):
            return bool(_SIM_CMP[ast.Eq](v, self.val(p.value, env)))
        if isinstance(p, ast.MatchSingleton):
            return v is p.value
        raise _Cannot(f"pattern kind {type(p).__name__} at line {getattr(p, 'lineno', '?')}")


# library functions that take ROUTINES of the simulated code (a key function, a mapper) or that the grouping / flattening idioms are written with: evaluated by the simulation
# itself (eagerly, on lists), with the routine applied through the interpreter
def _lib(fn):
    fn._sim_callback = True
    return fn


def _sim_apply(sim, f, xs, e):
    return sim._call_value(f, list(xs), {}, e, "<routine>")


@_lib
def _lib_groupby(sim, args, kwargs, e):
    """itertools.groupby: runs of CONSECUTIVE elements with equal keys (the groups are lists here)"""
    if not 1 <= len(args) <= 2 or set(kwargs) - {"key"} or (len(args) == 2 and "key" in kwargs):
        raise _Raised("TypeError", e)
    key = args[1] if len(args) == 2 else kwargs.get("key")
    out = []
    for x in sim._iterable(args[0], e):
        k = x if key is None else _sim_apply(sim, key, [x], e)
        if out and out[-1][0] == k:
            out[-1][1].append(x)
        else:
            out.append((k, [x]))
    return out


@_lib
def _lib_chain(sim, args, kwargs, e):
    if kwargs:
        raise _Raised("TypeError", e)
    return [x for it in args for x in sim._iterable(it, e)]


@_lib
def _lib_chain_from_iterable(sim, args, kwargs, e):
    if len(args) != 1 or kwargs:
        raise _Raised("TypeError", e)
    return [x for it in sim._iterable(args[0], e) for x in sim._iterable(it, e)]


@_lib
def _lib_map(sim, args, kwargs, e):
    if len(args) < 2 or kwargs:
        raise _Raised("TypeError", e)
    return [_sim_apply(sim, args[0], xs, e) for xs in zip(*[sim._iterable(it, e) for it in args[1:]])]


@_lib
def _lib_itemgetter(sim, args, kwargs, e):
    if not args or kwargs:
        raise _Raised("TypeError", e)
    keys = list(args)

    @_lib
    def getter(sim_, args_, kwargs_, e_):
        if len(args_) != 1 or kwargs_:
            raise _Raised("TypeError", e_)
        o = args_[0]
        if not isinstance(o, (list, tuple, str, dict)):
            raise _Cannot(f"item of the unknown value `{o!r:.40}`")
        try:
            r = [o[k] for k in keys]
        except (KeyError, IndexError, TypeError) as x:
            raise _Raised(type(x).__name__, e_)
        return r[0] if len(r) == 1 else tuple(r)

    return getter


def _lib_keyed(sim, fn, args, kwargs, e):
    """sorted / min / max with key=<routine>, filter(<routine>, xs)"""
    if fn is filter:
        if len(args) != 2 or kwargs:
            raise _Raised("TypeError", e)
        return [x for x in sim._iterable(args[1], e) if (bool(x) if args[0] is None else bool(_sim_apply(sim, args[0], [x], e)))]
    key = kwargs.get("key")
    rest = {k: v for k, v in kwargs.items() if k != "key"}
    if len(args) != 1 or any(isinstance(v, (_Bound, _Opaque, _Obj, _Sym)) for v in rest.values()):
        raise _Cannot(f"`{u(e)[:60]}`")
    items = sim._iterable(args[0], e)
    keys = [x if key is None else _sim_apply(sim, key, [x], e) for x in items]
    try:
        if fn is sorted:
            return [items[i] for i in sorted(range(len(items)), key=lambda i: keys[i], **rest)]
        if not items:
            if "default" in rest:
                return rest["default"]
            raise _Raised("ValueError", e)
        return items[fn(range(len(items)), key=lambda i: keys[i])]
    except TypeError:
        raise _Raised("TypeError", e)


_SIM_LIBRARY = {"itertools.groupby": _lib_groupby, "groupby": _lib_groupby, "itertools.chain": _lib_chain, "chain": _lib_chain,
                "itertools.chain.from_iterable": _lib_chain_from_iterable, "chain.from_iterable": _lib_chain_from_iterable, "map": _lib_map,
                "operator.itemgetter": _lib_itemgetter, "itemgetter": _lib_itemgetter}


def _load(t):
    """the target of an augmented assignment as a load expression"""
    return ast.parse(u(t), mode="eval").body


def _callback(name):
    """a callable stand-in handed to the simulated code (a `transition` callback): calling it is recorded as an event named `name`"""
    def cb(sim, args, kwargs, e):
        return sim._event(name, name, args, kwargs, e)
    cb._sim_callback = True
    return cb


def _unknown_call(*traces, after=-1):
    """the first recorded call (of the given traces, behind position `after`) whose callee is a value the simulation does not know: the code may have done its work there
    (a routine looked up in a table that could not be evaluated), so the absence of an effect in the trace proves nothing"""
    for t in traces:
        for i, e in enumerate(t or []):
            if i > after and getattr(e, "unknown_callee", False):
                return e
    return None


def _sim_ob(chk, rule, inst, ok, site, detail, traces, **kw):
    """an obligation decided on simulation traces. A NEGATIVE verdict is only reported when every call of the simulated code was followed into the class or is a call of a named
    API / of a method of another object; if a value the simulation does not know was called, the shape is not recognised (never a falsified obligation)."""
    if not ok:
        d = _unknown_call(*traces)
        if d is not None:
            chk.unknown(rule, f"{inst}: the simulated code calls `{short(d.node, 60)}`, a value the simulation does not know (what happens there is not followed); "
                        f"the negative outcome ({detail[:120]}) is therefore not a verdict", d.node)
            return None
    return chk.ob(rule, inst, ok, site, detail, **kw)


def _eq(a, b):
    """a simulated value equals the (string) stand-in b; never a decision over an unknown value"""
    return isinstance(a, str) and isinstance(b, str) and a == b


def _payload_is(v, clsname):
    """the value is an instance constructed as <...>.clsname(...)"""
    return isinstance(v, _Obj) and v.cls is not None and v.cls.rsplit(".", 1)[-1] == clsname


# ---------------------------------------------------------------------------------------------------------------------------------------------------------------
# local engine 2: INLINING of helper methods. `_Inliner(...).expand(func)` returns a copy of a method in which calls of methods of the same class (MRO-resolved `self.m(...)`,
# optionally functions of the same module) are replaced by the callee's body: parameters are substituted (plain arguments) or bound to fresh locals, the callee's locals are
# renamed (`x__3`), returns in tail position become an assignment to a result local. The copy has parent links, positions (of the original statements) and the module of the
# original, so the CFG / guard / pattern helpers work on it unchanged; an "extract helper" refactoring is thereby invisible to a rule that analyses the expanded method.
# Not inlined (the call stays as it is): recursive calls, decorated callees, generators, *args / **kwargs, callees with a return that is not in tail position.

def _copy_ast(n):
    if isinstance(n, list):
        return [_copy_ast(x) for x in n]
    if not isinstance(n, ast.AST):
        return n
    new = type(n)()
    for f_ in n._fields:
        if hasattr(n, f_):
            setattr(new, f_, _copy_ast(getattr(n, f_)))
    for a_ in n._attributes:
        if hasattr(n, a_):
            setattr(new, a_, getattr(n, a_))
    for a_ in ("_synthetic_arm", "_from_constant"):
        if hasattr(n, a_):
            setattr(new, a_, getattr(n, a_))
    return new


def _atomic(e):
    """an argument that may be substituted for every use of the parameter: a name, a constant, an attribute chain on a name"""
    return isinstance(e, (ast.Name, ast.Constant)) or (isinstance(e, ast.Attribute) and dotted(e) is not None)


def _tail_returns(stmts, retvar):
    """returns in tail position of the statement list become `retvar = <value>` (in place)"""
    if not stmts:
        return
    last = stmts[-1]
    if isinstance(last, ast.Return):
        v = last.value if last.value is not None else ast.copy_location(ast.Constant(value=None), last)
        stmts[-1] = ast.copy_location(ast.Assign(targets=[ast.copy_location(ast.Name(id=retvar, ctx=ast.Store()), last)], value=v), last)
    elif isinstance(last, ast.If):
        _tail_returns(last.body, retvar)
        _tail_returns(last.orelse, retvar)
        if hasattr(last, "_synthetic_arm"):
            del last._synthetic_arm  # the arm no longer jumps: it is an ordinary two-armed if now
    elif isinstance(last, ast.Try) and not any(isinstance(x, ast.Return) for b in last.finalbody for x in source.walk_local(b)):
        _tail_returns(last.orelse if last.orelse else last.body, retvar)
        for h in last.handlers:
            _tail_returns(h.body, retvar)
    elif isinstance(last, ast.With):
        _tail_returns(last.body, retvar)


class _Inliner:
    def __init__(self, table, ci, module_funcs=False, keep=(), max_depth=3):
        self.table, self.ci, self.module_funcs, self.keep, self.max_depth = table, ci, module_funcs, set(keep), max_depth
        self.counter = 0
        self.inlined = []  # names of the callees that were expanded
        self.handler_params = set()

    # -- which calls ----------------------------------------------------------------------------------------------------------------------------------------
    def _callee(self, call, selfname, stack, shadowed):
        from sa.classes import decorator_names
        f = call.func
        callee = None
        method = False
        if isinstance(f, ast.Attribute) and isinstance(f.value, ast.Name) and (f.value.id == selfname or f.value.id == self.ci.name):
            callee = self.table.method(self.ci, f.attr)
            method = True
        elif isinstance(f, ast.Name) and self.module_funcs and f.id not in shadowed and f.id not in self.keep \
                and any(isinstance(x, ast.Name) and x.id in self.handler_params for x in list(call.args) + [k.value for k in call.keywords]):
            # a function of the module that is handed the actor, the message or the sender works on behalf of the handler; functions over plain data stay terms
            c = self.ci.module.index().get(f.id)
            callee = c if isinstance(c, ast.FunctionDef) else None
        if callee is None or not isinstance(callee, ast.FunctionDef) or any(callee is s for s in stack) or callee.name in self.keep:
            return None
        decos = [d.split(".")[-1] for d in decorator_names(callee)]
        static = "staticmethod" in decos
        if any(d != "staticmethod" for d in decos):
            return None
        a = callee.args
        if a.vararg is not None or a.kwarg is not None or any(isinstance(x, ast.Starred) for x in call.args) or any(k.arg is None for k in call.keywords):
            return None
        if any(isinstance(n, (ast.Yield, ast.YieldFrom, ast.Await, ast.Global, ast.Nonlocal)) for n in ast.walk(callee)):
            return None
        if sum(1 for n in ast.walk(callee) if isinstance(n, ast.stmt)) > 80:
            return None
        names = [x.arg for x in a.posonlyargs + a.args]
        own_self = None
        if method and not static:
            if not names:
                return None
            own_self, names = names[0], names[1:]
        bound = {}
        for i, x in enumerate(call.args):
            if i >= len(names):
                return None
            bound[names[i]] = x
        kwonly = [x.arg for x in a.kwonlyargs]
        for k in call.keywords:
            if k.arg in bound or (k.arg not in names and k.arg not in kwonly):
                return None
            bound[k.arg] = k.value
        defaults = dict(zip(names[len(names) - len(a.defaults):], a.defaults))
        defaults.update({x.arg: d for x, d in zip(a.kwonlyargs, a.kw_defaults) if d is not None})
        for p in names + kwonly:
            if p not in bound:
                if p not in defaults:
                    return None
                bound[p] = defaults[p]
        return callee, own_self, bound

    def _body_of(self, callee, own_self, bound, selfname, at):
        """(prefix statements, result expression or None): the callee's body with its locals renamed, parameters substituted / bound and tail returns turned into an assignment;
        None if a return is left that is not in tail position."""
        self.counter += 1
        k = self.counter
        body = [_copy_ast(s) for s in callee.body]
        if body and isinstance(body[0], ast.Expr) and isinstance(body[0].value, ast.Constant) and isinstance(body[0].value.value, str):
            body = body[1:]
        stored = {n.id for s in body for n in ast.walk(s) if isinstance(n, ast.Name) and isinstance(n.ctx, (ast.Store, ast.Del))}
        stored |= {n.name for s in body for n in ast.walk(s) if isinstance(n, ast.ExceptHandler) and n.name}
        stored |= {n.name for s in body for n in ast.walk(s) if isinstance(n, (ast.FunctionDef, ast.AsyncFunctionDef, ast.ClassDef))}
        ret = f"result__{k}"
        single = len(body) == 1 and isinstance(body[0], ast.Return) and body[0].value is not None
        if not single:
            _fold_rest_into_else(body)
            _tail_returns(body, ret)
            if any(isinstance(n, ast.Return) for s in body for n in source.walk_local(s)):
                return None
        has_result = single or any(isinstance(n, ast.Name) and n.id == ret for s in body for n in ast.walk(s))
        subst, prefix = {}, []
        uses = {}
        for s in body:
            for n in ast.walk(s):
                if isinstance(n, ast.Name) and isinstance(n.ctx, ast.Load):
                    uses[n.id] = uses.get(n.id, 0) + 1
        attr_stores = {n.attr for s in body for n in ast.walk(s) if isinstance(n, ast.Attribute) and isinstance(n.ctx, (ast.Store, ast.Del))}
        for p, arg in bound.items():
            plain = _atomic(arg) and not (isinstance(arg, ast.Attribute) and any(isinstance(x, ast.Attribute) and x.attr in attr_stores for x in ast.walk(arg)))
            if p not in stored and (plain or (single and uses.get(p, 0) == 1)):
                subst[p] = arg
            else:
                prefix.append(ast.copy_location(ast.Assign(targets=[ast.copy_location(ast.Name(id=f"{p}__{k}", ctx=ast.Store()), at)], value=_copy_ast(arg)), at))
        rename = {n: f"{n}__{k}" for n in stored | set(bound)}
        if own_self is not None and own_self != selfname:
            rename[own_self] = selfname

        class R(ast.NodeTransformer):
            def visit_Name(self, n):
                if n.id in subst and isinstance(n.ctx, ast.Load):
                    return _copy_ast(subst[n.id])
                if n.id in rename:
                    n.id = rename[n.id]
                return n

            def visit_arg(self, n):
                if n.arg in rename:
                    n.arg = rename[n.arg]
                return n

            def visit_ExceptHandler(self, n):
                self.generic_visit(n)
                if n.name in rename:
                    n.name = rename[n.name]
                return n

            def visit_FunctionDef(self, n):
                self.generic_visit(n)
                if n.name in rename:
                    n.name = rename[n.name]
                return n

        body = [R().visit(s) for s in body]
        self.inlined.append(callee.name)
        if single:
            return prefix, body[0].value
        return prefix + body, (ast.copy_location(ast.Name(id=ret, ctx=ast.Load()), at) if has_result else None)

    # -- rewriting ------------------------------------------------------------------------------------------------------------------------------------------
    def _first_candidate(self, expr, selfname, stack, shadowed):
        """(call node, its holder, field, index) of the first expandable call of the expression in evaluation order, outside lambdas / comprehensions / conditionally evaluated operands"""
        found = []

        def rec(n, holder, field, idx):
            if found or isinstance(n, (ast.Lambda, ast.ListComp, ast.SetComp, ast.DictComp, ast.GeneratorExp)):
                return
            if isinstance(n, ast.BoolOp):
                rec(n.values[0], n.values, None, 0)
                return
            if isinstance(n, ast.IfExp):
                rec(n.test, n, "test", None)
                return
            for f_, v in ast.iter_fields(n):
                if isinstance(v, list):
                    for i, x in enumerate(v):
                        if isinstance(x, ast.AST):
                            rec(x, v, None, i)
                elif isinstance(v, ast.AST):
                    rec(v, n, f_, None)
            if not found and isinstance(n, ast.Call) and self._callee(n, selfname, stack, shadowed) is not None:
                found.append((n, holder, field, idx))

        class Root:
            pass

        root = Root()
        root.e = expr
        rec(expr, root, "e", None)
        return (found[0], root) if found else (None, root)

    def _expand_expr(self, expr, selfname, stack, shadowed, depth):
        """(prefix statements, new expression)"""
        prefix = []
        for _ in range(12):
            if depth >= self.max_depth:
                break
            hit, root = self._first_candidate(expr, selfname, stack, shadowed)
            if hit is None:
                break
            call, holder, field, idx = hit
            callee, own_self, bound = self._callee(call, selfname, stack, shadowed)
            got = self._body_of(callee, own_self, bound, selfname, call)
            if got is None:
                # not expandable: hide it from the next search
                self.keep.add(callee.name)
                continue
            pre, res = got
            pre = self._expand_block(pre, selfname, stack + [callee], shadowed, depth + 1)
            if res is None:
                res = ast.copy_location(ast.Constant(value=None), call)
            elif not isinstance(res, ast.Name):
                p2, res = self._expand_expr(res, selfname, stack + [callee], shadowed, depth + 1)
                pre += p2
            prefix += pre
            if field is not None:
                setattr(holder, field, res)
            else:
                holder[idx] = res
            expr = root.e
        return prefix, expr

    def _expand_block(self, stmts, selfname, stack, shadowed, depth):
        out = []
        for s in stmts:
            headers = []
            if isinstance(s, (ast.Expr, ast.Assign, ast.AugAssign, ast.AnnAssign, ast.Return)) and getattr(s, "value", None) is not None:
                headers = ["value"]
            elif isinstance(s, ast.If):
                headers = ["test"]
            elif isinstance(s, ast.For):
                headers = ["iter"]
            for h in headers:
                pre, new = self._expand_expr(getattr(s, h), selfname, stack, shadowed, depth)
                setattr(s, h, new)
                out += pre
            for f_ in ("body", "orelse", "finalbody"):
                b = getattr(s, f_, None)
                if isinstance(b, list) and b and isinstance(b[0], ast.stmt) and not isinstance(s, (ast.FunctionDef, ast.AsyncFunctionDef, ast.ClassDef)):
                    setattr(s, f_, self._expand_block(b, selfname, stack, shadowed, depth))
            for h in getattr(s, "handlers", []) or []:
                h.body = self._expand_block(h.body, selfname, stack, shadowed, depth)
            if isinstance(s, ast.Expr) and ((isinstance(s.value, ast.Constant) and s.value.value is None) or (isinstance(s.value, ast.Name) and s.value.id.startswith("result__"))):
                continue  # what is left of a call statement whose callee was expanded
            out.append(s)
        return out

    def expand(self, func):
        new = _copy_ast(func)
        ps = params_of(func)
        selfname = ps[0] if ps else "self"
        self.handler_params = set(ps)
        shadowed = set(ps) | {n.id for n in ast.walk(func) if isinstance(n, ast.Name) and isinstance(n.ctx, ast.Store)}
        new.body = self._expand_block(new.body, selfname, [func], shadowed, 0) or [ast.copy_location(ast.Pass(), func)]
        ast.fix_missing_locations(new)
        source.set_parents(new)
        new._parent = source.parent(func)
        mod = getattr(func, "_module", None)
        for n in ast.walk(new):
            n._module = mod
        new._expanded_from = func
        new._inlined = tuple(self.inlined)
        return new


def _init_fields(ci):
    """self.<attr> = <literal> assignments of the class's __init__: the state a fresh actor starts from"""
    out = {}
    init = ci.methods.get("__init__")
    for n in (walk_body(init) if init is not None else []):
        if isinstance(n, ast.Assign) and len(n.targets) == 1 and is_self_attr(n.targets[0]):
            try:
                out[n.targets[0].attr] = ast.literal_eval(n.value)
            except (ValueError, SyntaxError):
                pass
    return out


def _holds_routine(v, depth=0):
    if isinstance(v, _Bound):
        return True
    if depth < 3 and isinstance(v, (list, tuple, set, frozenset)):
        return any(_holds_routine(x, depth + 1) for x in v)
    if depth < 3 and isinstance(v, dict):
        return any(_holds_routine(x, depth + 1) for x in list(v.keys()) + list(v.values()))
    return False


def _table_fields(table, ci, me):
    """dispatch tables that the constructors of the class (base classes first) store on the actor: `self.<attr> = <display that holds routines>` (bound methods, lambdas) is
    evaluated for the stand-in `me` and stored as its field, so that a handler which looks its work up in such a table is followed into the routines. Anything else that
    __init__ computes stays unknown (as before)."""
    for c in reversed(table.mro(ci)):
        init = c.methods.get("__init__")
        ps = params_of(init) if init is not None else []
        if not ps:
            continue
        for n in walk_body(init):
            if not (isinstance(n, ast.Assign) and len(n.targets) == 1 and isinstance(n.targets[0], ast.Attribute) and isinstance(n.targets[0].value, ast.Name)
                    and n.targets[0].value.id == ps[0]):
                continue
            attr = n.targets[0].attr
            if attr in me.fields or not isinstance(n.value, (ast.Tuple, ast.List, ast.Dict, ast.Set, ast.ListComp, ast.DictComp)):
                continue
            try:
                v = _Sim(table, ci, me).val(n.value, {ps[0]: me})
            except (_Cannot, _Raised, TypeError, AttributeError, ValueError, KeyError, IndexError):
                continue
            if _holds_routine(v):
                me.fields[attr] = v
    return me


def _children_attr(se_x, RA):
    """the attribute in which the mechanic keeps one slot per awaited node actor: the self attribute that StartEngine sizes by a len(...) over the target hosts"""
    defs = source.local_defs(se_x)
    attrs = {t.attr for n in walk_body(se_x) if isinstance(n, ast.Assign) for t in n.targets if is_self_attr(t)
             and any(isinstance(c, ast.Call) and last_attr(c.func) == "len" for c in ast.walk(source.inline_node(n.value, defs)))}
    if len(attrs) == 1:
        return next(iter(attrs))
    if len(attrs) > 1:
        raise AnchorMissing(f"MechanicActor.receiveMsg_StartEngine sizes several attributes by a len(...): {sorted(attrs)}")
    raise AnchorMissing("MechanicActor.receiveMsg_StartEngine: no attribute is sized by the number of target hosts (self.<children> = [...] * len(...))")


def _ack_roles(MA, f):
    """parameter of the transition helper per role, derived from how the acknowledgement handlers of the mechanic call it: the parameter that receives the handler's message /
    its sender / a bound method (the transition) / the two status constants (in order: expected, new). Positions are the fallback."""
    ps = params_of(f)[1:]
    roles = {}
    for m in MA.methods.values():
        hps = params_of(m)
        if not m.name.startswith("receiveMsg_") or len(hps) < 3:
            continue
        for c in source.calls_in(m, attr=f.name):
            consts = []
            for p, a in source.bind_args(c, f).items():
                if isinstance(a, ast.Name) and a.id == hps[1]:
                    roles.setdefault("msg", p)
                elif isinstance(a, ast.Name) and a.id == hps[2]:
                    roles.setdefault("sender", p)
                elif is_self_attr(a) or isinstance(a, ast.Lambda):
                    roles.setdefault("transition", p)
                elif isinstance(a, ast.Constant) and isinstance(a.value, str):
                    consts.append(p)
            consts.sort(key=ps.index)
            if len(consts) == 2:
                roles.setdefault("expected", consts[0])
                roles.setdefault("new", consts[1])
    if len(ps) >= 5:
        for role, p in zip(("sender", "msg", "expected", "new", "transition"), ps):
            roles.setdefault(role, p)
    if len(set(roles.values())) != 5 or set(roles) != {"sender", "msg", "expected", "new", "transition"}:
        raise AnchorMissing(f"{f.name}: parameters for sender / message / expected status / new status / transition (found {roles})")
    return roles


def _accumulator_source(name, fn):
    """`name = []` ... `for T in ITER: ...; name.append(x)` with exactly one append per iteration and no other change of the list: ITER (the list has one element per element of ITER)"""
    inits = [n for n in walk_body(fn) if isinstance(n, ast.Assign) and any(isinstance(t, ast.Name) and t.id == name for t in n.targets)]
    if len(inits) != 1 or not ((isinstance(inits[0].value, ast.List) and not inits[0].value.elts) or (isinstance(inits[0].value, ast.Call) and u(inits[0].value) == "list()")):
        return None
    muts = [n for n in walk_body(fn) if isinstance(n, ast.Call) and isinstance(n.func, ast.Attribute) and isinstance(n.func.value, ast.Name) and n.func.value.id == name
            and n.func.attr in ("append", "extend", "insert", "pop", "remove", "clear", "sort", "reverse")]
    other = [n for n in walk_body(fn) if (isinstance(n, (ast.AugAssign, ast.Delete)) or (isinstance(n, ast.Assign) and n is not inits[0]))
             and any(isinstance(x, ast.Name) and x.id == name and isinstance(x.ctx, (ast.Store, ast.Del)) for x in ast.walk(n))]
    if len(muts) != 1 or muts[0].func.attr != "append" or other:
        return None
    loop = source.enclosing(muts[0], (ast.For, ast.While))
    if not isinstance(loop, ast.For) or source.enclosing_func(loop) is not fn:
        return None
    g = cfg_of(fn)
    head, reg = g.node_of(loop), g.node_of(muts[0])
    if not all(head.id not in g.reachable([s_], avoid=[reg]) or s_ is reg for s_ in g.edge_targets(head, "iter")):
        return None  # an iteration can end without the append (filtering)
    if any(isinstance(n, ast.Break) for n in ast.walk(loop)):
        return None
    return loop.iter


def _card_source(expr, fn):
    """the expression that has as many elements as `expr` (a fresh copy, single-assignment locals of fn inlined): wrappers that keep the number of elements are stripped
    (.items() / .keys() / .values(), list / tuple / sorted / enumerate / reversed / iter), a comprehension without conditions stands for its iterable, a list that is filled by one
    append per iteration of a loop stands for the loop's iterable."""
    defs = source.local_defs(fn)
    e = expr
    for _ in range(16):
        if isinstance(e, ast.Name) and e.id in defs:
            acc = _accumulator_source(e.id, fn)
            e = acc if acc is not None else defs[e.id]
        elif isinstance(e, ast.Call) and isinstance(e.func, ast.Attribute) and e.func.attr in ("items", "keys", "values") and not e.args and not e.keywords:
            e = e.func.value
        elif isinstance(e, ast.Call) and isinstance(e.func, ast.Name) and e.func.id in ("list", "tuple", "sorted", "enumerate", "reversed", "iter") and e.args:
            e = e.args[0]
        elif isinstance(e, (ast.ListComp, ast.GeneratorExp)) and len(e.generators) == 1 and not e.generators[0].ifs:
            e = e.generators[0].iter
        else:
            break
    return source.inline_node(e, defs)


def _defs_with_tuples(fn):
    """source.local_defs plus the names bound exactly once by a parallel assignment `a, self.x, b = <e1>, <e2>, <e3>` (same number of plain elements on both sides):
    a -> <e1>, b -> <e3> (the swap-and-clear idiom `old, self.items = self.items, []`)"""
    defs = dict(source.local_defs(fn))
    stores = {}
    for n in walk_body(fn):
        if isinstance(n, ast.Name) and isinstance(n.ctx, (ast.Store, ast.Del)):
            stores[n.id] = stores.get(n.id, 0) + 1
    for n in walk_body(fn):
        if isinstance(n, ast.Assign) and len(n.targets) == 1 and isinstance(n.targets[0], (ast.Tuple, ast.List)) and isinstance(n.value, (ast.Tuple, ast.List)) \
                and len(n.targets[0].elts) == len(n.value.elts) and not any(isinstance(x, ast.Starred) for x in n.targets[0].elts + n.value.elts):
            for t, v in zip(n.targets[0].elts, n.value.elts):
                if isinstance(t, ast.Name) and stores.get(t.id) == 1 and t.id not in defs and t.id not in params_of(fn):
                    defs[t.id] = v
    return defs


def _fold_rest_into_else(stmts):
    """`try: A except E: H; return` followed by REST is `try: A except E: H; return else: REST` (every handler leaves the routine, no finally): the statements behind such a try
    move into its else block, so that the returns of the handlers are in tail position (in place, recursively)"""
    for i, st in enumerate(stmts):
        if isinstance(st, ast.Try) and st.handlers and not st.finalbody and i + 1 < len(stmts) \
                and all(h.body and isinstance(h.body[-1], (ast.Return, ast.Raise)) for h in st.handlers) \
                and not any(isinstance(x, (ast.Break, ast.Continue)) for b in stmts[i + 1:] for x in source.walk_local(b)):
            st.orelse = list(st.orelse) + stmts[i + 1:]
            del stmts[i + 1:]
            break
    for st in stmts:
        for f_ in ("body", "orelse", "finalbody"):
            b = getattr(st, f_, None)
            if isinstance(b, list) and b and isinstance(b[0], ast.stmt) and not isinstance(st, (ast.FunctionDef, ast.AsyncFunctionDef, ast.ClassDef)):
                _fold_rest_into_else(b)
        for h in getattr(st, "handlers", []) or []:
            _fold_rest_into_else(h.body)


def _inlined_names(fn_x):
    """names of the methods whose bodies were expanded into fn_x (recorded by the inliner)"""
    return set(getattr(fn_x, "_inlined", ()))


# library calls that do not fail in practice: a statement such as `started = time.perf_counter()` in front of a handler's try block (an additive timing / counting feature) is
# not a place where the start of the nodes can go wrong
_NEVER_FAILS = {"time.time", "time.perf_counter", "time.perf_counter_ns", "time.monotonic", "time.monotonic_ns", "time.process_time", "datetime.datetime.now", "datetime.datetime.utcnow",
                "datetime.now", "datetime.utcnow", "os.getpid", "uuid.uuid4", "threading.get_ident", "itertools.count", "collections.Counter", "Counter"}


def _logging_event(ev):
    """the recorded call is (part of) a logging call: logger.info(...), logging.getLogger(__name__).debug(...) including the getLogger(...) inside it"""
    from sa.classes import is_logging_call
    n = ev.node
    while n is not None and not isinstance(n, ast.stmt):
        if is_logging_call(n):
            return True
        n = source.parent(n)
    return False


def _def_index(repo):
    """name -> every function / method of the package with that name (who-may-be-called by name; receiver types are not known statically)"""
    idx = getattr(repo, "_c12_def_index", None)
    if idx is None:
        idx = {}
        for m in repo.all_modules():
            for n in ast.walk(m.tree):
                if isinstance(n, source.FUNC_TYPES):
                    idx.setdefault(n.name, []).append(n)
        repo._c12_def_index = idx
    return idx


def _absent_excluded(test, pol, pname):
    """does being in the `pol` arm of `test` exclude that `pname` is None? Decided on the value: a conjunct (true arm) / disjunct (false arm) over `pname` alone that comes out the
    other way for None (`if store:`, `if store is not None:`, `if store is None: return` ... however it is spelt)"""
    from sa import minieval
    parts = [test]
    if isinstance(test, ast.BoolOp) and isinstance(test.op, ast.And if pol else ast.Or):
        parts = list(test.values)
    for p in parts:
        names = {x.id for x in ast.walk(p) if isinstance(x, ast.Name)}
        if pname not in names or not names <= {pname, "bool"}:
            continue
        try:
            if bool(minieval.ev(p, {pname: None})) is (not pol):
                return True
        except Exception:  # noqa: BLE001 - CannotEval or an operation None does not support: not a presence test
            continue
    return False


def _absent_uses(repo, fn, pname, depth=0, seen=None):
    """The places at which a value of None for the parameter `pname` of `fn` is USED as if it were an object: an attribute / item of it is taken, or it is handed to a routine
    of the package (every definition the call may reach by name) that does so, where no guard has excluded None. Returns [(node, chain of routine names)]."""
    from sa.classes import is_logging_call
    seen = seen if seen is not None else set()
    if (id(fn), pname) in seen or depth > 3:
        return []
    seen.add((id(fn), pname))
    names = {pname}
    for n in walk_body(fn):  # plain aliases
        if isinstance(n, ast.Assign) and isinstance(n.value, ast.Name) and n.value.id in names:
            names |= {t.id for t in n.targets if isinstance(t, ast.Name)}
    out = []
    for n in walk_body(fn):
        if not (isinstance(n, ast.Name) and n.id in names and isinstance(n.ctx, ast.Load)):
            continue
        p = source.parent(n)
        if isinstance(p, ast.keyword):
            p = source.parent(p)
        deref = isinstance(p, (ast.Attribute, ast.Subscript)) and p.value is n
        passed = isinstance(p, ast.Call) and (any(a is n for a in p.args) or any(k.value is n for k in p.keywords))
        if not deref and not passed:
            continue
        if any(_absent_excluded(t, pol, nm) for t, pol in guards(n, path_sensitive=True) for nm in names):
            continue
        # `store and store.put(...)` / `store is None or store.put(...)`
        child, q, short_circuit = n, source.parent(n), False
        while q is not None and not isinstance(q, ast.stmt):
            if isinstance(q, ast.BoolOp):
                i = next((j for j, v in enumerate(q.values) if v is child), 0)
                if any(_absent_excluded(v, isinstance(q.op, ast.And), nm) for v in q.values[:i] for nm in names):
                    short_circuit = True
            child, q = q, source.parent(q)
        if short_circuit:
            continue
        if deref:
            out.append((n, [fn.name]))
            continue
        if is_logging_call(p) or last_attr(p.func) in ("isinstance", "bool", "print", "str", "repr", "id", "type"):
            continue
        cands = _def_index(repo).get(last_attr(p.func) or "", [])
        if isinstance(p.func, ast.Attribute):
            # the receiver is typed by the naming convention only: `node.telemetry.m(...)` reaches the method m of a class Telemetry when there is one; else every definition of m
            rname = (last_attr(p.func.value) or "").replace("_", "").lower()
            typed = [c_ for c_ in cands if isinstance(source.parent(c_), ast.ClassDef) and source.parent(c_).name.lower() == rname]
            cands = typed or cands
        for cand in cands:
            if cand is fn:
                continue
            bound = source.bind_args(p, cand, skip_self=isinstance(p.func, ast.Attribute))
            for prm, a in bound.items():
                if a is n:
                    sub = _absent_uses(repo, cand, prm, depth + 1, seen)
                    out += [(n, [fn.name] + ch) for _, ch in sub[:1]]
    return out


def run(chk):
    repo = chk.repo
    model = ActorModel(repo)
    mech = repo.module(_M)
    act = repo.module(_A)
    lau = repo.module(_L)
    chk.use(mech, act, lau)
    chk.explanation = (
        "Decides the structural skeleton of engine start/stop: acknowledgement counting before the transition, who may construct "
        "EngineStarted/EngineStopped, agreement of expected child count and created node actors, the external-cluster bypass, failure reporting "
        "for StartNodes and daemon departure, and the stop order / once-only typestate; that the dispatcher stays subscribed to registration changes while the hosts start "
        "their nodes, that the exit of a node mechanic travels up the creation chain to a BenchmarkFailure, and that every launcher's start() stops the nodes already started "
        "when a later one fails. Roles (which attribute counts the acknowledgements, holds the external flag, parks the start messages, holds the mechanic) are derived from data "
        "flow; the acknowledgement helper, the dispatcher's convention-update handler, the node mechanic's StartNodes / StopNodes / exit handling and the ChildActorExited handlers "
        "are evaluated by interpreting their statements on stand-in values (calls into helper methods of the class are followed, every other call is recorded; failures are "
        "injected call by call); CFG rules run on copies of the methods with the helper methods of the class expanded in place. How the nodes of the target host list are dealt "
        "out to the hosts is decided by value: the grouping expression the Dispatcher iterates and the Dispatcher's StartEngine handler are interpreted (the module's pure helper "
        "functions followed) on representative host lists and compared with what the list demands (one start message per ip:port pair with as many distinct node ids as entries). "
        "Mechanic.start_engine is interpreted on a stand-in mechanic with two provisioners, with the launch and the second provisioning failing in turn: what has been provisioned "
        "must be held by the attribute stop_engine cleans up (O12.8); a launcher's stop() that some caller hands None for the metrics store must not use the parameter as an object "
        "outside a presence test, followed by name into the package routines it is handed to (O12.9)."
    )
    chk.not_decided = "interleavings of remote daemons joining, real process termination, Thespian delivery."

    MA = model.actor("MechanicActor")
    DI = model.actor("Dispatcher")
    NM = model.actor("NodeMechanicActor")
    RA = model.table.get("RallyActor")

    # ---- O12.1 acknowledgement counting -----------------------------------------------------------
    chk.rule("O12.1", "the generic transition helper calls transition() only when the number of received responses (after appending this one) equals "
             "the number of children, and resets the response list before the call", 4,
             "two target hosts, the first acknowledges: race control would be told the engine has started/stopped before the second host is done")
    f = RA.methods.get("transition_when_all_children_responded")
    if f is None:
        raise AnchorMissing("RallyActor.transition_when_all_children_responded")
    se = MA.methods.get("receiveMsg_StartEngine")
    de = DI.methods.get("receiveMsg_StartEngine")
    if se is None or de is None:
        raise AnchorMissing("receiveMsg_StartEngine of MechanicActor/Dispatcher")
    for owner, h_ in ((MA, se), (DI, de), (MA, MA.methods.get("receiveMsg_StopEngine")), (DI, DI.methods.get("receiveMsg_ActorSystemConventionUpdate")),
                      (NM, NM.methods.get("receiveMsg_StartNodes"))):
        if h_ is not None and (len(params_of(h_)) < 3 or h_.args.vararg is not None or h_.args.kwarg is not None):
            raise AnchorMissing(f"{owner.name}.{h_.name}: a message handler with the signature (self, msg, sender) was expected")
    se_x = _Inliner(model.table, MA, module_funcs=True).expand(se)
    children_attr = _children_attr(se_x, RA)
    roles = _ack_roles(MA, f)
    init = _init_fields(RA)
    if children_attr not in init:
        raise AnchorMissing(f"RallyActor.__init__ does not initialise self.{children_attr} (the list of child actors the acknowledgements are counted against)")
    MSG = _Obj(cls="NodesStarted", name="the acknowledgement being handled")

    status_attr = [None]
    _last_trace = [[]]

    def ack_run(n, prior, placeholders, status="awaited", expected="awaited", resp_attr=None):
        """the helper handles the (prior+1)-th acknowledgement of n children; children that have not responded yet are None placeholders (start) or known addresses (stop)"""
        kids = [f"child-{i}" for i in range(prior + 1)] + [None if placeholders else f"child-{i}" for i in range(prior + 1, n)]
        fields = dict(init)
        fields.update({children_attr: kids})
        if status_attr[0] is not None:
            fields[status_attr[0]] = status
        if resp_attr is not None:
            fields[resp_attr] = [f"ack-{i}" for i in range(prior)]
        me = _table_fields(model.table, MA, _Obj(name="self", **{k: _snap(v) for k, v in fields.items()}))
        sim = _Sim(model.table, MA, me)
        args = {roles["sender"]: kids[prior], roles["msg"]: MSG, roles["expected"]: expected, roles["new"]: "next", roles["transition"]: _callback("transition()")}
        raised = None
        try:
            sim.call_method(f, kwargs=args)
        except _Raised as x:
            raised = x.name
        _last_trace[0] = sim.trace
        return [e for e in sim.trace if e.name == "transition()"], me, raised

    try:
        # which attribute holds the status: the one that is assigned the new-status parameter; else the one that takes the new status when the only child acknowledges and no
        # particular status is expected (`[]`, as StopEngine passes it)
        st_attrs = sorted({t.attr for n in walk_body(f) if isinstance(n, ast.Assign) and isinstance(n.value, ast.Name) and n.value.id == roles["new"] for t in n.targets if is_self_attr(t)})
        if len(st_attrs) != 1:
            _, me0, _ = ack_run(1, 0, False, expected=[])
            st_attrs = [k for k, v in me0.fields.items() if isinstance(v, str) and v == "next"]
        if len(st_attrs) != 1:
            raise _Cannot(f"the new status is stored in {st_attrs or 'no attribute of the actor'} when the only child has responded")
        status_attr[0] = st_attrs[0]
        # which attribute collects the acknowledgements: the list the message parameter is added to; else the list in which the message shows up while the helper runs
        resp_attrs = sorted({n.func.value.attr for n in walk_body(f) if isinstance(n, ast.Call) and isinstance(n.func, ast.Attribute) and n.func.attr in ("append", "insert", "extend")
                             and is_self_attr(n.func.value) and any(isinstance(x, ast.Name) and x.id == roles["msg"] for a in n.args for x in ast.walk(a))})
        if len(resp_attrs) != 1:
            cbs0, me0, _ = ack_run(3, 0, True)
            seen_in = [me0.fields] + [e.state for e in _last_trace[0]]
            resp_attrs = sorted({k for st_ in seen_in for k, v in st_.items() if k != children_attr and isinstance(v, list) and any(x is MSG for x in v)})
        if len(resp_attrs) != 1:
            raise _Cannot(f"the acknowledgement being handled is recorded in {resp_attrs or 'no list attribute of the actor'}")
        resp_attr = resp_attrs[0]
        rows = []
        for n, prior in ((2, 0), (2, 1), (1, 0), (3, 0), (3, 1), (3, 2), (4, 3)):
            for placeholders in (True, False):
                cbs, me, raised = ack_run(n, prior, placeholders, resp_attr=resp_attr)
                rows.append((n, prior, placeholders, cbs, me, raised, _last_trace[0]))
        cbs_x, _, raised_x = ack_run(1, 0, True, status="another status", resp_attr=resp_attr)
    except _Cannot as e:
        chk.unknown("O12.1", f"{f.name} cannot be evaluated on representative acknowledgement counts: {e}", f)
        rows = None
    if rows is not None:
        def show(r):
            return f"{r[1] + 1} of {r[0]}" + (" (others still placeholders)" if r[2] and r[1] + 1 < r[0] else "")

        last = [r for r in rows if r[1] + 1 == r[0]]
        early = [r for r in rows if r[1] + 1 < r[0]]
        bad = [r for r in last if r[0] > 1 and len(r[3]) != 1]
        site = next((r[3][0].node for r in rows if r[3]), f)
        _sim_ob(chk, "O12.1", "transition() runs exactly once when the last child has responded", not bad, site,
                f"evaluated for {', '.join(show(r) for r in last if r[0] > 1)}" if not bad else f"acknowledgement {show(bad[0])}: transition() runs {len(bad[0][3])} time(s)"
                + (f", {bad[0][5]} raised" if bad[0][5] else ""), [r[6] for r in bad if not r[3]])
        bad = [r for r in early if r[3]]
        chk.ob("O12.1", "transition() guarded by responses == children", not bad, bad[0][3][0].node if bad else site,
               f"no transition for {', '.join(show(r) for r in early)}" if not bad else f"acknowledgement {show(bad[0])}: transition() runs although {bad[0][0] - bad[0][1] - 1} child(ren) "
               "have not responded yet")
        bad = [r for r in last if r[0] == 1 and len(r[3]) != 1]
        _sim_ob(chk, "O12.1", "this response is appended before it is counted", not bad, site,
                "a single child: its acknowledgement is the one that completes the count" if not bad else f"a single child acknowledges: transition() runs {len(bad[0][3])} time(s) "
                "(the response being handled is not part of the count)", [r[6] for r in bad if not r[3]])
        bad = [r for r in rows for e in r[3] if not (isinstance(e.state.get(resp_attr), list) and not e.state.get(resp_attr))]
        chk.ob("O12.1", "response list reset before transition()", not bad, bad[0][3][0].node if bad else site,
               f"self.{resp_attr} is empty when transition() runs" if not bad else f"self.{resp_attr} still holds {len(bad[0][3][0].state.get(resp_attr)) if isinstance(bad[0][3][0].state.get(resp_attr), list) else 'its'} response(s) when transition() runs")
        chk.ob("O12.1", "transition() only in the expected status", not cbs_x, cbs_x[0].node if cbs_x else site,
               f"another status: no transition ({raised_x or 'returns'})" if not cbs_x else "transition() runs although the actor is not in the expected status")

    # ---- the externally-provisioned flag, by role ----------------------------------------------------------------------------------------------------
    # The StartEngine message says whether the cluster is externally provisioned (field `external`). The FLAG is the attribute of the mechanic that StartEngine derives from that
    # field (assigned from an expression over it, or a constant under a test over it). Tests are then DECIDED for "external" / "provisioned" on stand-in values (the flag attribute
    # holds what the assignment gives for that case); a test that cannot be decided that way is not a test over the flag.
    EXT_FIELD = "external"
    sth = MA.methods.get("receiveMsg_StopEngine")
    if sth is None:
        raise AnchorMissing("MechanicActor.receiveMsg_StopEngine")
    mp_se = params_of(se)[1]

    def mentions_ext(e, mp=mp_se):
        return any(isinstance(x, ast.Attribute) and x.attr == EXT_FIELD and isinstance(x.value, ast.Name) and x.value.id == mp for x in ast.walk(e))

    from sa import pat as _patf
    se_defs_x = source.local_defs(se_x)
    flag_writes = {}
    for n in walk_body(se_x):
        if isinstance(n, ast.Assign) and any(is_self_attr(t) for t in n.targets):
            v = source.inline_node(n.value, se_defs_x)
            if mentions_ext(v) or (isinstance(v, ast.Constant) and isinstance(v.value, bool) and any(mentions_ext(source.inline_node(f_, se_defs_x)) for f_ in _patf.fact_nodes(n))):
                for t in n.targets:
                    if is_self_attr(t):
                        flag_writes.setdefault(t.attr, []).append(n)
    sth_closure = [fn for _, fn in model.method_closure(MA, sth)]
    flag_read_in_stop = [n for fn in sth_closure for n in walk_body(fn) if is_self_attr(n) and n.attr in flag_writes and isinstance(n.ctx, ast.Load)]
    if not flag_writes:
        raise AnchorMissing(f"MechanicActor.receiveMsg_StartEngine: no attribute is derived from `{mp_se}.{EXT_FIELD}` (the externally-provisioned flag)")
    flag = flag_read_in_stop[0].attr if flag_read_in_stop else sorted(flag_writes)[0]
    flag_vals = {}
    for ext in (True, False):
        for n in flag_writes[flag]:
            v = source.inline_node(n.value, se_defs_x)
            if mentions_ext(v):
                try:
                    flag_vals[ext] = bool(_Sim(model.table, MA, _Obj(name="self")).val(v, {mp_se: _Obj(name=mp_se, **{EXT_FIELD: ext})}))
                except (_Cannot, _Raised):
                    pass
            elif isinstance(v, ast.Constant):
                # a constant stored under test(s) over the field (`if msg.external: self.<flag> = True ... else: self.<flag> = False`, also behind a guard clause): it is what the
                # flag holds in the case in which every one of those tests comes out the way this write needs it
                holds = []
                for t_, pol_ in guards(n, path_sensitive=True):
                    t_ = source.inline_node(t_, se_defs_x)
                    if mentions_ext(t_):
                        try:
                            holds.append(bool(_Sim(model.table, MA, _Obj(name="self")).val(t_, {mp_se: _Obj(name=mp_se, **{EXT_FIELD: ext})})) is pol_)
                        except (_Cannot, _Raised):
                            holds.append(None)
                if holds and all(h_ is True for h_ in holds):
                    flag_vals.setdefault(ext, v.value)

    def reads_flag(test, fn):
        """the test is a condition over the externally-provisioned flag (an attribute derived from the field) or over the field of the start message itself"""
        e_ = source.inline_node(test, source.local_defs(fn))
        ps_ = params_of(fn)
        return any(is_self_attr(x) and x.attr in flag_writes for x in ast.walk(e_)) or (fn.name == se.name and len(ps_) > 1 and mentions_ext(e_, ps_[1]))

    def flag_value(test, fn, ext):
        """truth value of a test of method fn for an externally provisioned (ext=True) / a provisioned cluster; None if the stand-ins do not decide it"""
        e_ = source.inline_node(test, source.local_defs(fn))
        me = _Obj(name="self", **({flag: flag_vals[ext]} if ext in flag_vals else {}))
        ps_ = params_of(fn)
        env = {n.id: _Opaque(n.id) for n in ast.walk(fn) if isinstance(n, ast.Name) and isinstance(n.ctx, ast.Store)}
        env.update({p_: _Opaque(p_) for p_ in ps_})
        if ps_:
            env[ps_[0]] = me
        if fn.name == se.name and len(ps_) > 1:
            env[ps_[1]] = _Obj(name=ps_[1], **{EXT_FIELD: ext})
        try:
            return bool(_Sim(model.table, MA, me).val(e_, env))
        except (_Cannot, _Raised):
            return None

    def only_when_external(node, fn):
        """True: the node runs only for an externally provisioned cluster (one of the conditions it runs under holds for external and fails for provisioned); False: no condition
        separates the two cases; None: a condition over the flag / the field is there but the stand-in values do not decide it (not recognised, never a verdict)"""
        undecided = False
        for t, pol in guards(node, path_sensitive=True):
            a_, b_ = flag_value(t, fn, True), flag_value(t, fn, False)
            if a_ is pol and b_ is (not pol):
                return True
            if (a_ is None or b_ is None) and reads_flag(t, fn):
                undecided = True
        return None if undecided else False

    def undecided_tests(fn, ext):
        """tests of fn over the flag / the field that the stand-in values do not decide"""
        return [n.test for n in walk_body(fn) if isinstance(n, (ast.If, ast.While, ast.IfExp)) and reads_flag(n.test, fn) and flag_value(n.test, fn, ext) is None]

    def arm_not_taken(node, fn, ext):
        """the node sits in an arm of a decided if / conditional expression that is not the one taken for this case (conditional expressions are one CFG node)"""
        return any(flag_value(t, fn, ext) is (not pol) for t, pol in guards(node, path_sensitive=True))

    def feasible(fn, ext):
        """ids of the CFG nodes of fn that can run for an external (ext=True) / provisioned cluster: the edges that a decided test does not take are removed"""
        g_ = cfg_of(fn)
        dead = []
        for n in walk_body(fn):
            if isinstance(n, (ast.If, ast.While)):
                v = flag_value(n.test, fn, ext)
                if v is not None:
                    taken = "true" if v else "false"
                    for tn in g_.nodes_of(n):
                        dead += [(tn.id, y, l_) for (y, l_) in g_.succ[tn.id] if l_ in ("true", "false") and l_ != taken]
        return g_.reachable([g_.entry], avoid_edges=dead)

    def final_status(fn_x, fallback):
        """the status the provisioned path of a handler leaves the actor in: the last constant it stores into the status attribute"""
        sa_ = status_attr[0] or "status"
        g_ = cfg_of(fn_x)
        live = feasible(fn_x, False)
        stores = [n for n in walk_body(fn_x) if isinstance(n, ast.Assign) and any(is_self_attr(t, sa_) for t in n.targets) and isinstance(n.value, ast.Constant)
                  and isinstance(n.value.value, str) and any(x.id in live for x in g_.nodes_of(n))]
        last_ = [n for n in stores if not any(o is not n and g_.path_exists(g_.node_of(n), g_.node_of(o)) for o in stores)]
        vals = {n.value.value for n in last_}
        return next(iter(vals)) if len(vals) == 1 else fallback

    sth_x = _Inliner(model.table, MA).expand(sth)

    # ---- O12.1b who constructs EngineStarted / EngineStopped -------------------------------------------
    chk.rule("O12.1b", "EngineStarted / EngineStopped are constructed only in a routine whose callers are the all-children transition of "
             "NodesStarted (status starting) / NodesStopped (status cluster_stopping), or the externally-provisioned branch", 2,
             "race control is told 'started' / 'stopped' from some other event")
    spec = {"EngineStarted": ("receiveMsg_NodesStarted", final_status(se_x, "starting"), "receiveMsg_StartEngine"),
            "EngineStopped": ("receiveMsg_NodesStopped", final_status(sth_x, "cluster_stopping"), "receiveMsg_StopEngine")}

    def is_handler(m):
        return m.name.startswith("receive")

    def refs_to(m):
        return [(m2, n) for m2 in MA.methods.values() for n in walk_body(m2) if is_self_attr(n, m.name) and isinstance(n.ctx, ast.Load)]

    def only_from(m, handler_name, seen=()):
        """m is the handler itself, or a plain method all of whose uses are calls from such methods"""
        if m.name == handler_name:
            return True
        if is_handler(m) or m in seen:
            return False
        rs = refs_to(m)
        return bool(rs) and all(isinstance(source.parent(n), ast.Call) and source.parent(n).func is n and only_from(m2, handler_name, seen + (m,)) for m2, n in rs)

    def use_ok(node, m, spec_, seen=()):
        """[(verdict, text)] for a statement-level use (a direct call / the construction itself) located in method m: True legitimate, False not, None not recognised"""
        ack_handler, status, ext_handler = spec_
        if is_handler(m):
            if m.name != ext_handler:
                return [(False, f"reached directly from the handler {m.name} (bypasses the acknowledgement count)")]
            ext = only_when_external(node, m)
            return [(ext, f"direct call in {m.name} " + ("only for an externally provisioned cluster" if ext else "NOT restricted to an externally provisioned cluster" if ext is False else
                                                       "under a condition over the externally-provisioned flag that is not decided on stand-in values"))]
        if m in seen:
            return []
        rs = refs_to(m)
        if not rs:
            return [(None, f"{m.name} is not referenced inside {MA.name}")]
        out = []
        for m2, n in rs:
            out += ref_ok(n, m2, spec_, seen + (m,))
        return out

    def ref_ok(n, m, spec_, seen=()):
        """a reference `self.<routine>` (or a lambda) n inside method m"""
        ack_handler, status, ext_handler = spec_
        p = source.parent(n)
        if isinstance(p, ast.Call) and p.func is n:
            return use_ok(p, m, spec_, seen)
        c = p if isinstance(p, ast.Call) else (source.parent(p) if isinstance(p, ast.keyword) else None)
        if isinstance(c, ast.Call) and last_attr(c.func) == f.name:
            bound = source.bind_args(c, f)
            exp = bound.get(roles["expected"])
            exp_v = source.inline_node(exp, source.local_defs(m)) if exp is not None else None
            is_cb = bound.get(roles["transition"]) is n
            from_ack = only_from(m, ack_handler)
            ok = is_cb and from_ack and exp_v is not None and source.is_const(exp_v, status)
            return [(ok, f"transition callback in {m.name} expected_status={u(exp_v) if exp_v is not None else None}" + ("" if from_ack else f" (not the handler {ack_handler})")
                     + ("" if is_cb else " (not passed as the transition)"))]
        return [(None, f"use in {m.name} that is neither a call nor the transition callback: {short(source.enclosing_stmt(n), 60)}")]

    for msgname, spec_ in spec.items():
        sites = source.package_calls(repo, msgname)
        if not sites:
            raise AnchorMissing(f"no construction of {msgname}")
        for s in sites:
            fn = source.enclosing_func(s)
            cls = source.enclosing_class(s)
            lam = source.enclosing(s, ast.Lambda)
            inst = f"{msgname}() in {cls.name if cls else '?'}.{fn.name if fn else '?'}"
            if cls is None or cls.name != MA.name or fn is None:
                chk.ob("O12.1b", inst, False, s, f"constructed outside {MA.name}")
                continue
            meth = fn
            while source.enclosing_func(meth) is not None:
                meth = source.enclosing_func(meth)
            if lam is not None and source.enclosing_func(lam) is fn:
                verdicts = ref_ok(lam, meth, spec_)  # built inside a lambda: what matters is where the lambda goes
            elif meth is not fn:
                verdicts = [(None, f"constructed in the nested function {fn.name} of {meth.name}")]
            else:
                verdicts = use_ok(s, fn, spec_)
            details = "; ".join(t for _, t in verdicts)
            if any(v is False for v, _ in verdicts) or (verdicts and all(v is True for v, _ in verdicts)):
                chk.ob("O12.1b", inst, all(v is True for v, _ in verdicts), s, details)
            else:
                chk.unknown("O12.1b", f"{inst}: {details or 'no use found'}", s)

    # ---- O12.1c sibling agreement on the child count ------------------------------------------------------
    chk.rule("O12.1c", "the number of acknowledgements MechanicActor waits for and the number of node actors the Dispatcher creates are computed by the "
             "same function chain over the same host list; every Dispatcher loop iteration registers exactly one node actor (now or when its remote joins)", 3,
             "several nodes per host / several hosts: the mechanic waits for fewer (early 'started') or more (hang) acknowledgements than node actors exist")
    de_x = _Inliner(model.table, DI, module_funcs=True).expand(de)
    cu = DI.methods.get("receiveMsg_ActorSystemConventionUpdate")
    if cu is None:
        raise AnchorMissing("Dispatcher.receiveMsg_ActorSystemConventionUpdate")
    sdefs, ddefs = source.local_defs(se_x), source.local_defs(de_x)
    # roles of the Dispatcher's attributes: PARKED = the list to which (node actor, start message) pairs are appended (something built from createActor(...));
    # DEFERRED = the map under whose entries the start messages of hosts whose daemon has not joined yet are kept (the other self attribute the fan-out loop appends to)
    parked = set()
    for f_ in DI.methods.values():
        fdefs = _local_defs(f_)
        for c in source.calls_in(f_, attr="append"):
            if isinstance(c.func, ast.Attribute) and is_self_attr(c.func.value) and c.args \
                    and any(isinstance(x, ast.Call) and last_attr(x.func) == "createActor" for x in ast.walk(inline_node(c.args[0], fdefs))):
                parked.add(c.func.value.attr)
    if len(parked) != 1:
        raise AnchorMissing(f"Dispatcher: the attribute in which created node actors are parked together with their start message (found {sorted(parked)})")
    parked_attr = next(iter(parked))

    def self_attrs_in(e):
        return {x.attr for x in ast.walk(e) if is_self_attr(x)}

    def is_registration(c):
        """an append to the parked list or to an entry of another attribute of the dispatcher"""
        return isinstance(c, ast.Call) and isinstance(c.func, ast.Attribute) and c.func.attr == "append" and bool(self_attrs_in(c.func.value))

    loops = [n for n in walk_body(de_x) if isinstance(n, ast.For) and any(is_registration(c) for c in ast.walk(n))]
    loops = [n for n in loops if not any(o is not n and any(x is n for x in ast.walk(o)) for o in loops)]  # outermost
    deferred = {a for lp in loops for c in ast.walk(lp) if is_registration(c) for a in self_attrs_in(c.func.value)} - parked
    child_assign = [n for n in walk_body(se_x) if isinstance(n, ast.Assign) and any(is_self_attr(t, children_attr) for t in n.targets)]
    lens = [c for n in child_assign for c in ast.walk(source.inline_node(n.value, sdefs)) if isinstance(c, ast.Call) and last_attr(c.func) == "len" and len(c.args) == 1]
    if not lens or not loops:
        raise AnchorMissing("child-count expression in MechanicActor.receiveMsg_StartEngine or node loop in Dispatcher.receiveMsg_StartEngine")
    src_m = _card_source(lens[-1].args[0], se_x)
    src_d = _card_source(loops[0].iter, de_x)
    chain_m, chain_d = call_chain(src_m), call_chain(src_d)
    dmp = params_of(de)[1]
    hosts_attr = chain_d[1].attr if isinstance(chain_d[1], ast.Attribute) and isinstance(chain_d[1].value, ast.Name) and chain_d[1].value.id == dmp else None
    # msg.<hosts> = <the host list the mechanic counts> precedes the send to the dispatcher
    hs = [n for n in walk_body(se_x) if isinstance(n, ast.Assign) and any(isinstance(t, ast.Attribute) and isinstance(t.value, ast.Name) and t.value.id == mp_se and t.attr == hosts_attr for t in n.targets)]
    text = f"mechanic: len∘{'∘'.join(chain_m[0])}({u(chain_m[1])}); dispatcher iterates {'∘'.join(chain_d[0])}({u(chain_d[1])})"
    if hosts_attr is None or not (isinstance(chain_m[1], (ast.Name, ast.Attribute, ast.Call)) and all(chain_m[0]) and all(chain_d[0])):
        chk.unknown("O12.1c", f"the two counts are not function chains over the host list of the start message: {text}", child_assign[0])
    else:
        chk.ob("O12.1c", "expected children vs created node actors", chain_m[0] == chain_d[0], child_assign[0], text)
    sends = [c for c in source.calls_in(se_x, attr="send") if c.args and any(isinstance(x, ast.Call) and last_attr(x.func) == "createActor" for x in ast.walk(source.inline_node(c.args[0], sdefs)))]
    gse = cfg_of(se_x)
    if not hs or not sends:
        chk.unknown("O12.1c", f"the assignment of the host list to the start message ({mp_se}.{hosts_attr} = ...) / the send to the created dispatcher was not found in {se.name}", se)
    else:
        ok = source.inline(hs[0].value, sdefs) == u(chain_m[1]) and all(gse.dominated_by_nodes(gse.node_of(c), [gse.node_of(h) for h in hs]) for c in sends)
        chk.ob("O12.1c", "the dispatcher receives the same host list", ok, hs[0], f"{short(hs[0], 40)} precedes {short(sends[0], 50)}")
    # each loop iteration: createActor appended to the parked list or the start message appended to an entry of the deferred map
    gd = cfg_of(de_x)
    loop = loops[0]
    regs = [gd.node_of(c) for c in ast.walk(loop) if is_registration(c)]
    head = gd.node_of(loop)
    starts = gd.edge_targets(head, "iter")
    if len(loops) != 1:
        chk.unknown("O12.1c", f"{len(loops)} loops of {de.name} register node actors / deferred start messages (one pass over the host entries was expected)", loops[1])
    else:
        ok = all(head.id not in gd.reachable([s], avoid=regs) or s in regs for s in starts)
        chk.ob("O12.1c", "every host entry registers a node actor or a pending remote", ok, loop, f"{len(regs)} registration site(s) in the loop")

    # the joining of remote daemons and the sending of the parked start messages, evaluated on representative states of the dispatcher
    if len(deferred) != 1:
        raise AnchorMissing(f"Dispatcher.receiveMsg_StartEngine: the map in which start messages wait for their remote daemon (found {sorted(deferred)})")
    deferred_attr = next(iter(deferred))
    di_init = dict(_init_fields(RA))
    di_init.update(_init_fields(DI))
    upstream_di = sorted(a for a, lst in model.address_attrs(DI).items() if any(kind == "sender" for _, kind, _ in lst))
    di_init.update({a: f"address of the requester (self.{a})" for a in upstream_di})
    empty_map = {}
    for n in walk_body(de):
        if isinstance(n, ast.Assign) and any(is_self_attr(t, deferred_attr) for t in n.targets):
            try:
                v = _Sim(model.table, DI, _Obj(name="self")).val(n.value, {})
                if isinstance(v, dict):
                    empty_map = v
            except (_Cannot, _Raised):
                pass
    start_msgs = [_Obj(cls="StartNodes", name=f"start message #{i}") for i in range(4)]
    IP_A, IP_B, IP_X = "10.0.0.2", "10.0.0.3", "10.0.0.99"

    def convention_update(me, ip, added):
        """the dispatcher `me` is told that the daemon on `ip` has joined (added) / left the convention"""
        conv = _Obj(cls="ActorSystemConventionUpdate", name="convention update", remoteAdded=added, remoteAdminAddress=f"admin@{ip}", remoteCapabilities={"ip": ip, "coordinator": False})
        sim = _Sim(model.table, DI, me)
        raised = None
        try:
            sim.call_method(cu, [conv, f"admin@{ip}"])
        except _Raised as x:
            raised = x.name
        return sim.trace, raised

    def dispatcher(awaited, pairs):
        m_ = type(empty_map)(empty_map) if not isinstance(empty_map, __import__("collections").defaultdict) else __import__("collections").defaultdict(empty_map.default_factory)
        m_.update({k: list(v) for k, v in awaited.items()})
        return _table_fields(model.table, DI, _Obj(name="self", **{**{k: _snap(v) for k, v in di_init.items()}, parked_attr: list(pairs), deferred_attr: m_}))

    def hosts_of(me):
        """the keys of the awaited-remotes map of the stand-in dispatcher, as sorted text"""
        return sorted(k if isinstance(k, str) else repr(k) for k in me.fields[deferred_attr])

    def start_sends(trace):
        return [(e.args[0], e.args[1]) for e in trace if e.name == "send" and len(e.args) >= 2 and any(e.args[1] is m_ for m_ in start_msgs)]

    m0, m1, m2, m3 = start_msgs
    try:
        # S1: two hosts awaited, the first one joins
        me1 = dispatcher({IP_A: [m1, m2], IP_B: [m3]}, [("local node actor", m0)])
        t1, r1 = convention_update(me1, IP_A, True)
        created1 = [e.result for e in t1 if e.name == "createActor"]
        pairs1 = [p_ for p_ in (me1.fields.get(parked_attr) if isinstance(me1.fields.get(parked_attr), list) else []) if isinstance(p_, (tuple, list)) and len(p_) == 2]
        got_actor = [m_ for m_ in (m1, m2) if any(p_[1] is m_ and any(p_[0] is c_ for c_ in created1) for p_ in pairs1)]
        # S2: the last awaited host joins
        me2 = dispatcher({IP_A: [m1]}, [("local node actor", m0)])
        t2, r2 = convention_update(me2, IP_A, True)
        created2 = [e.result for e in t2 if e.name == "createActor"]
        sent2 = start_sends(t2)
        hosts2 = hosts_of(me2) if isinstance(me2.fields.get(deferred_attr), dict) else None
        parked2 = list(me2.fields[parked_attr]) if isinstance(me2.fields.get(parked_attr), list) else None
        # S3: a daemon that is not awaited joins while a host is still awaited
        me3 = dispatcher({IP_A: [m1]}, [("local node actor", m0)])
        t3, r3 = convention_update(me3, IP_X, True)
        # S4: after S2 another daemon joins
        t4, r4 = convention_update(me2, IP_X, True) if r2 is None else ([], None)
        # D1 / D2: a daemon leaves before it has joined / after all have joined (its host may still be starting nodes)
        me5 = dispatcher({IP_A: [m1]}, [("local node actor", m0)])
        t5, r5 = convention_update(me5, IP_A, False)
        me6 = dispatcher({}, [])
        t6, r6 = convention_update(me6, IP_A, False)
        me7 = dispatcher({IP_A: [m1], IP_B: [m3]}, [])
        t7, r7 = convention_update(me7, IP_B, False)
        sim_err_di = None
        for me_ in (me1, me2, me3):
            if not isinstance(me_.fields.get(deferred_attr), dict) or not isinstance(me_.fields.get(parked_attr), list):
                sim_err_di = f"self.{deferred_attr} / self.{parked_attr} is no longer a map / a list after the notification"
    except _Cannot as e:
        sim_err_di = str(e)
    if sim_err_di is not None:
        chk.unknown("O12.1c", f"{cu.name} cannot be evaluated on representative states of the dispatcher: {sim_err_di}", cu)
    else:
        ok = r1 is None and len(got_actor) == 2 and len(created1) == 2
        _sim_ob(chk, "O12.1c", "every deferred start message of a joined remote gets a node actor", ok, cu,
                f"2 start messages wait for {IP_A}: {len(created1)} node actor(s) created, {len(got_actor)} parked with their message" + (f", {r1} raised" if r1 else ""), [t1])
        ok = r2 is None and sorted(id(p_[1]) for p_ in sent2) == sorted(id(m_) for m_ in (m0, m1)) \
            and all(_eq(tgt, "local node actor") if msg_ is m0 else any(tgt is c_ for c_ in created2) for tgt, msg_ in sent2)
        _sim_ob(chk, "O12.1c", "send_all_pending sends every pending start message", ok, cu,
                f"the last awaited daemon joins: {len(sent2)} of 2 parked start messages sent, each to its node actor" if ok else
                f"the last awaited daemon joins: sent {[(repr(t_), repr(m_)) for t_, m_ in sent2]}, expected the 2 parked messages, each once, to its own node actor" + (f"; {r2} raised" if r2 else ""),
                [t2] if len(sent2) < 2 else [])
        left_b = me1.fields[deferred_attr].get(IP_B)
        ok = r1 is None and r2 is None and hosts_of(me1) == [IP_B] and isinstance(left_b, list) and len(left_b) == 1 and left_b[0] is m3 and hosts2 == [] and not start_sends(t1)
        _sim_ob(chk, "O12.1c", "the entry of a joined remote is removed whenever it is present (guarded by membership only)", ok, cu,
                f"after {IP_A} joined the awaited hosts are {hosts_of(me1)} (was {[IP_A, IP_B]}), start messages sent meanwhile: {len(start_sends(t1))}",
                [t1, t2] if not start_sends(t1) else [], key=f"{_M}:Dispatcher.receiveMsg_ActorSystemConventionUpdate:del-guard")
        if r3 is not None:
            chk.unknown("O12.1c", f"{cu.name} raises {r3} when a daemon joins that no start message waits for", cu)
        else:
            ok = hosts_of(me3) == [IP_A] and not start_sends(t3) and not [e for e in t3 if e.name == "createActor"]
            chk.ob("O12.1c", "no auto-vivifying look-up of the awaited-remotes map inside a condition", ok, cu,
                   "" if ok else f"a daemon that is not awaited ({IP_X}) joins while {IP_A} is awaited: the awaited hosts become {hosts_of(me3)}, {len(start_sends(t3))} start message(s) "
                   f"sent: `not self.{deferred_attr}` never becomes true / becomes true too early", key=f"{_M}:Dispatcher.receiveMsg_ActorSystemConventionUpdate:no-vivify")
        if r4 is not None:
            chk.unknown("O12.1c", f"{cu.name} raises {r4} when a daemon joins after the start messages were sent", cu)
        else:
            ok = r2 is None and parked2 == [] and not start_sends(t4)
            _sim_ob(chk, "O12.1c", "the pending list is emptied once its messages were sent (no host is started twice)", ok, cu,
                    "" if ok else f"after the start messages went out self.{parked_attr} still holds {len(parked2 or [])} pair(s); the next convention notification re-sends "
                    f"{len(start_sends(t4))} StartNodes", [t2] if not start_sends(t4) else [], key=f"{_M}:Dispatcher.send_all_pending:reset")

    # node actors are placed by capability ({"ip": <host>}): an actor system qualifies only if it DECLARES the required capability with the required value — a system that does
    # not declare it at all (the coordinator's own system: {"coordinator": True}) must not qualify, or the remote host's nodes are started on the coordinator
    from sa import minieval as _me12
    from sa.tables import decide as _dec12, Unsupported as _Uns12
    from sa.sym import UnknownAtom as _UA12
    am = repo.module("esrally/actor.py")
    cc = am.methods(am.cls("RallyActor")).get("actorSystemCapabilityCheck")
    if cc is None:
        raise AnchorMissing("RallyActor.actorSystemCapabilityCheck")
    cps = params_of(cc)
    lp12 = [n for n in walk_body(cc) if isinstance(n, ast.For) and isinstance(n.iter, ast.Call) and u(n.iter.func) == f"{cps[-1]}.items" and isinstance(n.target, ast.Tuple) and len(n.target.elts) == 2]
    if not lp12:
        chk.unknown("O12.1c", "actorSystemCapabilityCheck is not a loop over requirements.items()", cc)
    else:
        nm_, vl_ = (t.id for t in lp12[0].target.elts)
        for label, caps, want in (("capability declared with the required value", {"ip": "10.0.0.2"}, True), ("capability declared with another value", {"ip": "10.0.0.9"}, False),
                                  ("capability not declared at all", {"coordinator": True}, False)):
            env_ = {cps[-2]: caps, cps[-1]: {"ip": "10.0.0.2"}, nm_: "ip", vl_: "10.0.0.2"}

            def atom12(n, env, env_=env_):
                try:
                    return bool(_me12.ev(n, dict(env_)))
                except _me12.CannotEval:
                    return None

            def hook12(s_, env, b, env_=env_):
                # locals of the loop body are evaluated as they are bound
                if isinstance(s_, ast.Assign) and len(s_.targets) == 1 and isinstance(s_.targets[0], ast.Name):
                    try:
                        env_[s_.targets[0].id] = _me12.ev(s_.value, dict(env_))
                        return "skip"
                    except _me12.CannotEval:
                        return None
                return None

            try:
                out = _dec12(lp12[0].body, atom12, {}, on_stmt=hook12)
            except (_Uns12, _UA12) as e:
                chk.unknown("O12.1c", f"capability check body is not a decision over (declared value, required value): {e}", cc)
                break
            got = not (out.kind == "return" and isinstance(out.value, ast.Constant) and out.value.value is False)
            chk.ob("O12.1c", f"capability check: {label} -> {'qualifies' if want else 'does not qualify'}", got == want, cc, f"{'qualifies' if got else 'does not qualify'}",
                   key=f"esrally/actor.py:RallyActor.actorSystemCapabilityCheck:{label}")

    # ---- O12.1d the node ids are a partition of the target host list -----------------------------------------
    chk.rule("O12.1d", "the nodes are dealt out to the hosts without loss: evaluated on representative target-host lists (several nodes per host listed next to each other and "
             "round-robin, several ports on one ip, local and remote hosts), the grouping that the mechanic counts and the Dispatcher iterates has one entry per distinct "
             "ip:port pair that holds as many node ids as the pair has entries in the list, and no id twice; the Dispatcher's StartEngine handler registers exactly one start "
             "message per pair, built from the pair's ip and port and from exactly the node ids grouped under it, parked with a node actor or deferred under its own ip", 4,
             "--target-hosts=a,b,a: a node of host a is never provisioned or started although both sides agree on the number of acknowledgements, so race control is told "
             "that the engine has started while a target host has not started all of its nodes (or a node id is started twice / on another host)")
    IP_L = "127.0.0.1"
    host_lists = [("two nodes of one host listed next to each other", [(IP_A, 9200), (IP_A, 9200), (IP_B, 9200)], True),
                  ("the nodes of two hosts listed round-robin", [(IP_A, 9200), (IP_B, 9200), (IP_A, 9200)], True),
                  ("local and remote nodes listed round-robin, two ports per ip", [(IP_L, 39200), (IP_A, 9200), (IP_L, 39201), (IP_A, 9201), (IP_L, 39200), (IP_A, 9200)], True),
                  ("a single node", [(IP_B, 9200)], False)]
    msg_cls = de.name[len("receiveMsg_"):]

    def resolved(ev):
        """name resolution of an ip literal is the identity; a method of the start message builds a message whose content is what it was given"""
        if ev.callee.rsplit(".", 1)[-1] in ("resolve", "gethostbyname", "resolve_ip", "resolve_host") and len(ev.args) == 1 and not ev.kwargs and isinstance(ev.args[0], str):
            return ev.args[0]
        if isinstance(ev.recv, _Obj) and ev.recv.cls == msg_cls:
            return _Obj(name=f"{ev.callee}(...)", call=ev)
        return NotImplemented

    def start_message(pairs):
        return _Obj(cls=msg_cls, name="start message", external=False, hosts=[{"host": ip_, "port": port_} for ip_, port_ in pairs])

    def key_of(pair, keys):
        """the key of the grouping that stands for the ip:port pair"""
        hits = [k for k in keys if (isinstance(k, (tuple, list)) and len(k) == 2 and isinstance(k[0], str) and isinstance(k[1], int) and tuple(k) == pair)
                or (isinstance(k, str) and k == f"{pair[0]}:{pair[1]}")]
        return hits[0] if len(hits) == 1 else None

    def ids_of(v):
        """a collection of node ids (numbers / texts), as a sorted list; None: something else"""
        if isinstance(v, (list, tuple, set, frozenset)) and all(isinstance(x, (int, str)) and not isinstance(x, bool) for x in v) and len({type(x) for x in v}) <= 1:
            return sorted(v)
        return None

    if hosts_attr is None:
        chk.unknown("O12.1d", "the Dispatcher's loop does not iterate a grouping of the host list of the start message", loops[0])
    else:
        for label, pairs, several in host_lists:
            distinct = list(dict.fromkeys(pairs))
            text_in = ",".join(f"{ip_}:{port_}" for ip_, port_ in pairs)
            # (1) the grouping itself: the expression the Dispatcher iterates (the same function chain the mechanic counts), evaluated on the list
            sim = _Sim(model.table, DI, _Obj(name="self"), result=resolved, follow=True)
            try:
                grouping = sim.val(_clone(src_d), {dmp: start_message(pairs)})
                problem = None
            except _Cannot as e:
                grouping, problem = None, str(e)
            except _Raised as e:
                grouping, problem = None, f"{e.name} is raised"
            except (TypeError, AttributeError, ValueError, KeyError, IndexError, RecursionError) as e:
                grouping, problem = None, f"{type(e).__name__}: {e}"
            if problem is None and not isinstance(grouping, dict):
                problem = f"its value is not a map ({grouping!r:.60})"
            if problem is None:
                keys = {p_: key_of(p_, list(grouping)) for p_ in distinct}
                if any(k is None for k in keys.values()) or len(grouping) != len(distinct) or any(ids_of(v) is None for v in grouping.values()):
                    problem = f"its value {grouping!r:.120} is not keyed by the ip:port pairs of the list / does not hold collections of node ids"
            if problem is not None:
                chk.unknown("O12.1d", f"{label} ({text_in}): `{u(src_d)[:80]}` cannot be evaluated: {problem}", loops[0])
                continue
            all_ids = [x for v in grouping.values() for x in v]
            ok = all(len(grouping[keys[p_]]) == pairs.count(p_) for p_ in distinct) and len(set(all_ids)) == len(all_ids) == len(pairs)
            shown = ", ".join(f"{p_[0]}:{p_[1]} -> {list(grouping[keys[p_]])}" for p_ in distinct)
            _sim_ob(chk, "O12.1d", f"grouping: {label}", ok, loops[0],
                    f"{text_in}: {shown}" + ("" if ok else f"; expected {', '.join(f'{pairs.count(p_)} id(s) for {p_[0]}:{p_[1]}' for p_ in distinct)}, {len(pairs)} different ids in all"),
                    [sim.trace], key=f"{_M}:Dispatcher.{de.name}:grouping:{label}")
            if not ok or not several:
                continue
            # (2) the fan-out: the handler itself on the same list
            me = dispatcher({}, [])
            sim = _Sim(model.table, DI, me, result=resolved, follow=True)
            try:
                sim.call_method(de, [start_message(pairs), "address of the mechanic"])
                problem = None
            except _Cannot as e:
                problem = str(e)
            except _Raised as e:
                problem = f"{e.name} is raised"
            regs = []  # (start message, "actor" | the key under which it waits for its remote)
            if problem is None:
                pv, dv = me.fields.get(parked_attr), me.fields.get(deferred_attr)
                created = [e_.result for e_ in sim.trace if e_.name == "createActor"]
                if not isinstance(pv, list) or not isinstance(dv, dict) or not all(isinstance(v, list) for v in dv.values()):
                    problem = f"self.{parked_attr} / self.{deferred_attr} is not a list of pairs / a map of lists after the handler"
                else:
                    sent = [tuple(e_.args[:2]) for e_ in sim.trace if e_.name == "send" and len(e_.args) >= 2 and any(e_.args[0] is c_ for c_ in created)]
                    for p_ in list(pv) + sent:
                        if not (isinstance(p_, (tuple, list)) and len(p_) == 2):
                            problem = f"self.{parked_attr} holds {p_!r:.40}, not (node actor, start message)"
                        elif any(p_[0] is c_ for c_ in created) and not any(p_[1] is r_[0] for r_ in regs):
                            regs.append((p_[1], "actor"))
                    for k_, v_ in dv.items():
                        regs += [(m_, k_) for m_ in v_]
                    if problem is None and not all(isinstance(getattr(m_, "call", None), _Ev) for m_, _ in regs):
                        problem = "a registered start message is not the result of a recorded call (its content is not known)"
            if problem is not None:
                chk.unknown("O12.1d", f"{label} ({text_in}): {de.name} cannot be evaluated on this list: {problem}", de)
                continue

            def content(m_, depth=0):
                """the values a start message was built from: the arguments of the recorded call that produced it, the fields set on it afterwards, and (two levels) the
                members of tuples / the content of objects among them"""
                vals = (list(m_.call.args) + list(m_.call.kwargs.values()) if isinstance(getattr(m_, "call", None), _Ev) else []) + (list(m_.fields.values()) if isinstance(m_, _Obj) else [])
                more = []
                for v in vals:
                    if isinstance(v, tuple):
                        more += list(v)
                    elif depth < 2 and isinstance(v, (_Obj, _Opaque)) and v is not me and not any(v is m2 for m2, _ in regs) and isinstance(getattr(v, "call", None), _Ev):
                        more += content(v, depth + 1)
                return vals + more

            def carries(m_, what):
                return any(type(x) is type(what) and x == what for x in content(m_) if isinstance(x, (str, int)))

            # the message of a pair is LOCATED by the ip and the port it was built from; what is decided is how many there are, which node ids it got and where it waits
            located = {p_: [(m_, where) for m_, where in regs if carries(m_, p_[0]) and carries(m_, p_[1])] for p_ in distinct}
            if len(regs) == len(distinct) and not all(len(located[p_]) == 1 for p_ in distinct):
                chk.unknown("O12.1d", f"{label} ({text_in}): the registered start messages cannot be told apart by the ip and the port they were built from "
                            f"({', '.join(f'{p_[0]}:{p_[1]}: {len(located[p_])}' for p_ in distinct)})", de)
                continue
            id_type = type(all_ids[0])

            def id_lists(m_):
                return [g_ for g_ in (ids_of(x) for x in content(m_)) if g_ and type(g_[0]) is id_type]

            if len(regs) == len(distinct) and not any(id_lists(m_) for m_, _ in regs):
                chk.unknown("O12.1d", f"{label} ({text_in}): no registered start message is built from a collection of node ids", de)
                continue
            verdicts = []
            for p_ in distinct:
                if len(regs) != len(distinct):
                    break
                m_, where = located[p_][0]
                want = ids_of(grouping[keys[p_]])
                got_ids = id_lists(m_)
                if want not in got_ids:
                    verdicts.append((False, f"{p_[0]}:{p_[1]}: built from the node ids {got_ids} instead of {want}"))
                elif where == "actor" or where == p_[0] or (isinstance(where, tuple) and p_[0] in where):
                    verdicts.append((True, ""))
                elif isinstance(where, str) and any(where == q_[0] for q_ in distinct):
                    verdicts.append((False, f"{p_[0]}:{p_[1]}: waits for the daemon on {where}"))
                else:
                    verdicts.append((None, f"{p_[0]}:{p_[1]}: waits under the key {where!r:.40}"))
            if any(v is None for v, _ in verdicts) and not any(v is False for v, _ in verdicts):
                chk.unknown("O12.1d", f"{label} ({text_in}): " + "; ".join(t for v, t in verdicts if v is None), de)
                continue
            ok = len(regs) == len(distinct) and all(v for v, _ in verdicts)
            _sim_ob(chk, "O12.1d", f"start messages: {label}", ok, de,
                    f"{text_in}: {len(regs)} start message(s) registered for {len(distinct)} ip:port pair(s)" + "".join("; " + t for v, t in verdicts if v is False),
                    [sim.trace], key=f"{_M}:Dispatcher.{de.name}:fan-out:{label}")

    # ---- O12.2 external bypass ---------------------------------------------------------------------------
    chk.rule("O12.2", "on the externally-provisioned edge of start and of stop no actor is created and no StartEngine/StartNodes/StopNodes is sent; create() raises for external", 3,
             "benchmark-only pipeline: Rally would try to provision/stop a cluster it does not own")
    _ACTS = ("createActor", "send_to_children_and_transition", "StartNodes", "StopNodes", "StartEngine", "Dispatcher")

    def acts_in(fn_x, live=None, seen=None):
        """calls in the (expanded) handler that create an actor or build a start / stop message, restricted to the CFG nodes in `live`; self-calls that were not expanded are followed"""
        g_ = cfg_of(fn_x)
        seen = set() if seen is None else seen
        out = []
        for n in walk_body(fn_x):
            if not isinstance(n, ast.Call) or (live is not None and (not any(x.id in live for x in g_.nodes_of(n)) or arm_not_taken(n, fn_x, True))):
                continue
            if last_attr(n.func) in _ACTS:
                out.append(n)
            elif _self_call(n, params_of(fn_x)[0]):
                callee = model.table.method(MA, n.func.attr)
                if callee is not None and id(callee) not in seen and callee.name != fn_x.name:
                    seen.add(id(callee))
                    out += acts_in(callee, None, seen)
        return out

    for hname, hx in ((se.name, se_x), (sth.name, sth_x)):
        everywhere = acts_in(hx)
        if not everywhere:
            chk.unknown("O12.2", f"{hname}: no path creates an actor or sends a start / stop message (the provisioned path was not recognised)", hx)
            continue
        bad = acts_in(hx, feasible(hx, True))
        und = undecided_tests(hx, True)
        if bad and und:
            chk.unknown("O12.2", f"{hname}: the condition `{short(und[0], 60)}` over the externally-provisioned flag is not decided on stand-in values (which arm an external cluster takes "
                        "was not recognised)", und[0])
            continue
        chk.ob("O12.2", f"{hname}: external arm creates/starts/stops nothing", not bad, bad[0] if bad else hx,
               f"an externally provisioned cluster reaches {sorted({last_attr(c.func) for c in bad})}" if bad else
               f"no createActor / StartNodes / StopNodes reachable for an externally provisioned cluster ({len(everywhere)} such call(s) for a provisioned one)")
    # the flag consulted at stop time is the one of the CURRENT StartEngine: assigned from the message on every path that reaches the branch (an actor may be reused)
    if not flag_read_in_stop:
        chk.unknown("O12.2", f"{sth.name} does not read an attribute that {se.name} derives from `{mp_se}.{EXT_FIELD}` (flag candidates: {sorted(flag_writes)})", sth)
    else:
        def writes_of(fn):
            return [n for n in walk_body(fn) if isinstance(n, (ast.Assign, ast.AugAssign, ast.Delete)) and any(is_self_attr(t, flag) for t in
                    (n.targets if isinstance(n, (ast.Assign, ast.Delete)) else [n.target]))]

        in_start = writes_of(se_x)
        elsewhere = [n for m_ in MA.methods.values() if m_.name not in (se.name, "__init__") and m_.name not in _inlined_names(se_x) for n in writes_of(m_)]
        # derived from the message: assigned from an expression over the field, or a constant stored under a test over the field (both arms then have to store one: the
        # every-path condition below)
        from_msg = [n for n in in_start if any(n is w_ for w_ in flag_writes[flag])]
        gse = cfg_of(se_x)
        readers = [n for n in walk_body(se_x) if isinstance(n, (ast.If, ast.While)) and any(is_self_attr(x, flag) for x in ast.walk(n.test))]
        fm_nodes = [gse.node_of(n) for n in from_msg]
        keeps_old = [n for n in from_msg if isinstance(n, ast.Assign) and any(is_self_attr(x, flag) for x in ast.walk(source.inline_node(n.value, se_defs_x)))]  # flag = flag or ...
        ok = bool(from_msg) and len(from_msg) == len(in_start) and not elsewhere and not keeps_old and all(gse.dominated_by_nodes(gse.node_of(r), fm_nodes) for r in readers) \
            and gse.must_pass(gse.entry, fm_nodes)
        chk.ob("O12.2", f"`self.{flag}` is assigned from the StartEngine message before the branch, on every path (never sticky)", ok, in_start[0] if in_start else se,
               f"writes in the handler: {[short(n, 50) for n in in_start]}" + (f", elsewhere: {[short(n, 40) for n in elsewhere]}" if elsewhere else "")
               + ("" if ok else " — a provisioned start after an external one keeps the external flag: StopEngine acknowledges without stopping any node"),
               key=f"{_M}:MechanicActor.receiveMsg_StartEngine:flag-from-message")
    cr = mech.func("create")
    gcr = cfg_of(cr)
    # which parameter of create() says "externally provisioned": the one the node mechanic hands the `external` field of its start message to
    ext_param = None
    for m_ in NM.methods.values():
        for c in source.calls_in(m_):
            if isinstance(c.func, ast.Name) and c.func.id == cr.name:
                for p_, a_ in source.bind_args(c, cr, skip_self=False).items():
                    if isinstance(a_, ast.Attribute) and a_.attr == EXT_FIELD:
                        ext_param = p_
    ext_param = ext_param or (EXT_FIELD if EXT_FIELD in params_of(cr) else None)
    if ext_param is None:
        raise AnchorMissing(f"create(): the parameter that receives the `{EXT_FIELD}` field of the start message")
    flags_cr = {p_: False for p_, d_ in zip(params_of(cr)[len(params_of(cr)) - len(cr.args.defaults):], cr.args.defaults) if isinstance(d_, ast.Constant) and d_.value is False}
    flags_cr[ext_param] = True
    dead, decided = [], []
    cr_defs = source.local_defs(cr)
    for n in walk_body(cr):
        if isinstance(n, (ast.If, ast.While)):
            names = {x.id for x in ast.walk(n.test) if isinstance(x, ast.Name)}
            if not names or not names <= set(flags_cr):
                continue
            try:
                v = bool(_Sim(model.table, MA, _Obj(name="self")).val(n.test, dict(flags_cr)))
            except (_Cannot, _Raised):
                continue
            decided.append(n)
            for tn in gcr.nodes_of(n):
                dead += [(tn.id, y, l_) for (y, l_) in gcr.succ[tn.id] if l_ in ("true", "false") and l_ != ("true" if v else "false")]
    if not any(ext_param in {x.id for x in ast.walk(n.test) if isinstance(x, ast.Name)} for n in decided):
        chk.unknown("O12.2", f"create(): no test over the parameter `{ext_param}` alone (and the other mode switches) was found", cr)
    else:
        ok = gcr.exit.id not in gcr.reachable([gcr.entry], avoid_edges=dead)
        site = next(n for n in decided if ext_param in {x.id for x in ast.walk(n.test) if isinstance(x, ast.Name)})
        chk.ob("O12.2", "create(): external raises", ok, site, f"{ext_param}=True (other mode switches off): every path raises" if ok else "create() can build a Mechanic for an external cluster")

    # ---- O12.3 failure reporting ---------------------------------------------------------------------------
    chk.rule("O12.3", "StartNodes handling reports any Exception as BenchmarkFailure to reply_to/sender; NodesStarted is sent only after start_engine() returned", 2,
             "a start failure on one host: race control waits forever (or is told 'started')")
    sn = NM.methods.get("receiveMsg_StartNodes")
    if sn is None:
        raise AnchorMissing("NodeMechanicActor.receiveMsg_StartNodes")
    nm_init = dict(_init_fields(RA))
    nm_init.update(_init_fields(NM))
    REQUESTER, RELAY = "address of the requester (reply_to of the start message)", "address of the dispatcher (sender of the start message)"

    def handle(ci, handler, fields, msg, sender, fail_at=None):
        """the handler processes msg on a stand-in actor; fail_at: index of the recorded call that raises. Returns (trace, actor, name of the exception that escaped or None)"""
        me = _table_fields(model.table, ci, _Obj(name="self", **{k: _snap(v) for k, v in fields.items()}))
        sim = _Sim(model.table, ci, me, fail=(lambda ev: len(sim.trace) - 1 == fail_at) if fail_at is not None else None)
        escaped = None
        try:
            sim.call_method(handler, [msg, sender])
        except _Raised as x:
            escaped = x.name
        return sim.trace, me, escaped

    def start_nodes_msg(with_reply_to):
        fields = dict(ip="10.0.0.2", port=39200, external=False, docker=False, node_ids=[0, 1], all_node_ips=["10.0.0.2", "10.0.0.3"], all_node_ids=[0, 1, 2])
        if with_reply_to:
            fields["reply_to"] = REQUESTER
        return _Obj(cls="StartNodes", name="msg", **fields)

    def sends_of(trace, clsname):
        return [(i, e) for i, e in enumerate(trace) if e.name == "send" and len(e.args) >= 2 and _payload_is(e.args[1], clsname)]

    relay_forwards_acks = any(a is DI for a, _ in model.handler_names.get("NodesStarted", []))
    engine, actor_ok = [], None
    try:
        runs = {}
        for with_reply_to in (True, False):
            try:
                t_, me_, esc_ = handle(NM, sn, nm_init, start_nodes_msg(with_reply_to), RELAY)
            except _Cannot:
                if with_reply_to:
                    raise
                continue  # the dispatcher always stamps reply_to: a handler that cannot be evaluated without it is judged on the stamped message alone
            runs[with_reply_to] = (t_, esc_)
            actor_ok = me_ if with_reply_to else actor_ok
        t_ok, esc_ok = runs[True]
        acks = sends_of(t_ok, "NodesStarted")
        first_ack = acks[0][0] if acks else len(t_ok)
        # every call the handler makes before the acknowledgement (other than logging) is made to fail in turn
        points = [i for i, e in enumerate(t_ok[:first_ack]) if not _logging_event(e) and not _payload_is(e.result, "NodesStarted") and e.callee not in _NEVER_FAILS]
        failing = []
        for i in points:
            t_, _, esc_ = handle(NM, sn, nm_init, start_nodes_msg(True), RELAY, fail_at=i)
            failing.append((t_ok[i], t_, esc_, i))
        sim_err = None
    except _Cannot as e:
        sim_err = str(e)
    if sim_err is not None:
        chk.unknown("O12.3", f"{sn.name} cannot be evaluated on a representative start message: {sim_err}", sn)
    elif not acks or esc_ok is not None:
        chk.unknown("O12.3", f"{sn.name}: no NodesStarted is sent for a start message on which nothing fails" + (f" ({esc_ok} raised)" if esc_ok else ""), sn)
    else:
        decorated = handler_guard(sn) == "no_retry"  # the decorator reports whatever escapes the handler to the sender (O9.1)
        unreported = [(ev, esc_, _unknown_call(t_, after=i_)) for ev, t_, esc_, i_ in failing
                      if not any(_eq(e.args[0], REQUESTER) or _eq(e.args[0], RELAY) for _, e in sends_of(t_, "BenchmarkFailure")) and not (decorated and esc_ is not None)]
        # what the handler does about the failure may happen inside a call the simulation could not follow: not a verdict then
        doubtful = [x for x in unreported if x[2] is not None]
        unreported = [x for x in unreported if x[2] is None]
        if doubtful and not unreported:
            chk.unknown("O12.3", f"{sn.name}: after a failure of `{short(doubtful[0][0].node, 50)}` the handler calls `{short(doubtful[0][2].node, 50)}`, a value the simulation does not know "
                        "(whether the failure is reported there is not followed)", doubtful[0][2].node)
        else:
            chk.ob("O12.3", "receiveMsg_StartNodes guarded", not unreported, unreported[0][0].node if unreported else sn,
                   f"{len(failing)} call(s) made to fail in turn: each failure is reported as BenchmarkFailure to the requester / the sender" if not unreported else
                   f"a failure of `{short(unreported[0][0].node, 60)}` is not reported as BenchmarkFailure to the requester / the sender"
                   + (f" ({unreported[0][1]} escapes the handler)" if unreported[0][1] else " (it is swallowed)"))
        engine = [i for i, e in enumerate(t_ok) if e.name == "start_engine"]
        early = [ev for ev, t_, _, _ in failing if ev.name == "start_engine" and sends_of(t_, "NodesStarted")]
        ok = bool(engine) and engine[0] < first_ack and not early and all(not sends_of(t_, "NodesStarted") for _, t_, _, _ in failing)
        if not engine:
            chk.unknown("O12.3", f"{sn.name}: no call start_engine() on the path that sends NodesStarted", sn)
        else:
            chk.ob("O12.3", "NodesStarted after start_engine()", ok, acks[0][1].node,
                   f"start_engine() is call #{engine[0] + 1}, NodesStarted is sent by call #{first_ack + 1}; no acknowledgement when an earlier call fails" if ok else
                   ("NodesStarted is sent before start_engine() was called" if engine[0] > first_ack else "NodesStarted is sent although a call before it failed (start_engine() included)"))
        for with_reply_to, (t_, esc_) in runs.items():
            want = REQUESTER if with_reply_to else RELAY
            a_ = sends_of(t_, "NodesStarted")
            tgts = [e.args[0] for _, e in a_]
            ok = len(a_) == 1 and (_eq(tgts[0], want) or (relay_forwards_acks and _eq(tgts[0], RELAY)))
            if not with_reply_to and (not a_ or not all(isinstance(t__, str) for t__ in tgts)):
                continue  # the dispatcher always stamps reply_to: what a handler does with a message that lacks the field (unknown target, no acknowledgement) is not judged
            if with_reply_to or not ok:
                chk.ob("O12.3", "NodesStarted goes to reply_to/sender", ok, a_[0][1].node if a_ else sn,
                       f"start message {'with' if with_reply_to else 'without'} reply_to: NodesStarted goes to {tgts} (expected: the {want})")
    # NodesStarted constructed nowhere else
    sn_closure = [fn for _, fn in model.method_closure(NM, sn)]
    # ... or a site that was SEEN to be evaluated while the handler ran on the stand-in actor (a routine reached through a table / a function of the module handed the actor)
    seen_sites = {id(e.node) for t_, _ in (runs.values() if sim_err is None else []) for e in t_ if e.name == "NodesStarted"}
    others = [n for n in source.package_calls(repo, "NodesStarted") if not any(source.enclosing_func(n) is fn for fn in sn_closure) and id(n) not in seen_sites]
    chk.ob("O12.3", "NodesStarted constructed only in receiveMsg_StartNodes", not others, others[0] if others else sn, f"{len(others)} other site(s)")

    # ---- O12.4 daemon departure ----------------------------------------------------------------------------------
    chk.rule("O12.4", "when a remote Rally daemon leaves during start-up (not remoteAdded) a BenchmarkFailure is sent to the start sender on every path", 1,
             "remote daemon dies while the dispatcher waits for it: race control hangs")
    if sim_err_di is not None:
        chk.unknown("O12.4", f"{cu.name} cannot be evaluated on representative states of the dispatcher: {sim_err_di}", cu)
    elif not upstream_di:
        raise AnchorMissing("Dispatcher: no attribute holds the address of the actor that asked for the engine to be started (assigned from a handler's sender)")
    else:
        want = {di_init[a] for a in upstream_di}
        rep5 = [e for _, e in sends_of(t5, "BenchmarkFailure") if any(_eq(e.args[0], w_) for w_ in want)]
        rep6 = [e for _, e in sends_of(t6, "BenchmarkFailure") if any(_eq(e.args[0], w_) for w_ in want)]
        rep7 = [e for _, e in sends_of(t7, "BenchmarkFailure") if any(_eq(e.args[0], w_) for w_ in want)]
        ok = bool(rep5) and bool(rep6) and bool(rep7)
        _sim_ob(chk, "O12.4", "Dispatcher: departure -> send(start_sender, BenchmarkFailure)", ok, (rep5 or rep6)[0].node if (rep5 or rep6) else cu,
                "a daemon that leaves before it has joined / after all daemons have joined is reported to the requester" if ok else
                ("a daemon that leaves " + ("while its host is awaited" if not (rep5 and rep7) else "after all daemons have joined (its host may still be starting nodes)")
                 + f" is not reported: no send(<{', '.join('self.' + a for a in upstream_di)}>, BenchmarkFailure)" + (f"; {r5 or r6 or r7} raised" if (r5 or r6 or r7) else "")),
                [t_ for t_, rp_ in ((t5, rep5), (t6, rep6), (t7, rep7)) if not rp_], key=f"{_M}:Dispatcher.receiveMsg_ActorSystemConventionUpdate:departure")

    # ---- O12.5 stop order and once-only -----------------------------------------------------------------------------------
    chk.rule("O12.5", "stop_engine: launcher stop < flush(refresh) < store system metrics < store close < cleanup(preserve=configured flag) for every node config; "
             "NodesStopped only after stop_engine(); mechanic reference cleared; exit-request stop guarded by the reference", 8,
             "nodes left running / metrics lost / installation removed although preserve-install is set / node stopped twice")
    M = mech.cls("Mechanic")
    MI = model.table.get("Mechanic", _M)
    st_orig = mech.methods(M).get("stop_engine")
    se_m = mech.methods(M).get("start_engine")
    if st_orig is None or se_m is None:
        raise AnchorMissing("Mechanic.stop_engine / start_engine")
    st = _Inliner(model.table, MI).expand(st_orig)  # helpers of the Mechanic (flush_metrics, _add_results, an extracted clean-up routine ...) are analysed as part of stop_engine
    gst = cfg_of(st)
    st_defs = _defs_with_tuples(st)
    # roles of the Mechanic's attributes, from start_engine: self.<NODES> = self.<LAUNCHER>.start(self.<CONFIGS>)
    se_mx = _Inliner(model.table, MI).expand(se_m)
    launches = [n for n in walk_body(se_mx) if isinstance(n, ast.Assign) and any(is_self_attr(t) for t in n.targets) and isinstance(n.value, ast.Call)
                and isinstance(n.value.func, ast.Attribute) and is_self_attr(n.value.func.value)]
    if not launches:
        # the launch result held in a local first: `started = self.<launcher>.<start>(...)` ... `self.<nodes> = started` (the local bound once)
        loc = {}
        for n in walk_body(se_mx):
            if isinstance(n, ast.Assign) and len(n.targets) == 1 and isinstance(n.targets[0], ast.Name):
                loc.setdefault(n.targets[0].id, []).append(n)
        for n in walk_body(se_mx):
            if isinstance(n, ast.Assign) and any(is_self_attr(t) for t in n.targets) and isinstance(n.value, ast.Name) and len(loc.get(n.value.id, ())) == 1:
                src = loc[n.value.id][0].value
                if isinstance(src, ast.Call) and isinstance(src.func, ast.Attribute) and is_self_attr(src.func.value):
                    launches.append(ast.copy_location(ast.Assign(targets=n.targets, value=src), n))
    if len(launches) != 1:
        raise AnchorMissing(f"Mechanic.start_engine: self.<nodes> = self.<launcher>.<start>(...) (found {[short(n, 50) for n in launches]})")
    nodes_attr = next(t.attr for t in launches[0].targets if is_self_attr(t))
    launcher_attr = launches[0].value.func.value.attr
    cfg_args = [a for a in launches[0].value.args if is_self_attr(a)]
    configs_attr = cfg_args[0].attr if cfg_args else "node_configs"

    def find(pred):
        return [n for n in walk_body(st) if isinstance(n, ast.Call) and pred(n)]

    stop_c = find(lambda n: isinstance(n.func, ast.Attribute) and is_self_attr(n.func.value, launcher_attr) and n.func.attr != launches[0].value.func.attr)
    close_c = find(lambda n: last_attr(n.func) == "close" and isinstance(n.func, ast.Attribute) and is_self_attr(n.func.value))
    store_attrs = {c.func.value.attr for c in close_c}
    flush_c = find(lambda n: last_attr(n.func) in ("flush_metrics", "flush") and isinstance(n.func, ast.Attribute)
                   and (is_self_attr(n.func.value) and n.func.value.attr in store_attrs or _self_call(n)))
    add_c = find(lambda n: last_attr(n.func) == "_add_results" or last_attr(n.func) == "store_results")
    clean_c = find(lambda n: last_attr(n.func) == "cleanup")
    seq = [("launcher.stop", stop_c), ("flush", flush_c), ("store system metrics", add_c), ("metrics_store.close", close_c), ("cleanup", clean_c)]
    for name, cs in seq:
        if not cs:
            raise AnchorMissing(f"Mechanic.stop_engine: call role '{name}' not found")
    for (n1, c1), (n2, c2) in zip(seq, seq[1:]):
        ok = not any(gst.path_exists(gst.node_of(b), gst.node_of(a)) for b in c2 for a in c1)
        chk.ob("O12.5", f"{n1} precedes {n2}", ok, c2[0], "no path runs the later stage before the earlier one" if ok else f"{n2} can run before {n1}")
    # every stage is reached on the normal path (must pass through from entry)
    for name, cs in seq:
        if name == "store system metrics":
            continue  # inside try with NotFound handler by design
        if name != "cleanup":
            chk.ob("O12.5", f"{name} on every normal path", gst.must_pass(gst.entry, [gst.node_of(c) for c in cs]), cs[0], "")
            continue
        loop = source.enclosing(cs[0], (ast.For, ast.ListComp, ast.GeneratorExp, ast.SetComp))
        if isinstance(loop, ast.For):
            over, conditional = source.inline_node(loop.iter, st_defs), bool(guards(cs[0], stop=loop))
        elif loop is not None:
            over, conditional = source.inline_node(loop.generators[0].iter, st_defs), len(loop.generators) != 1 or bool(loop.generators[0].ifs) or bool(guards(cs[0], stop=loop))
        if loop is None or not any(is_self_attr(x) for x in ast.walk(over)):
            chk.unknown("O12.5", "cleanup is not called in a loop / comprehension over an attribute of the mechanic (one call per node configuration was not recognised)", cs[0])
            continue
        ok = any(is_self_attr(x, configs_attr) for x in ast.walk(over)) and gst.must_pass(gst.entry, [gst.node_of(loop)]) and not conditional
        chk.ob("O12.5", f"{name} on every normal path", ok, cs[0], f"once per element of `{u(over)}`" + (" (conditionally)" if conditional else ""))
    rf = source.arg_of(flush_c[0], 0, "refresh")
    rf = source.inline_node(rf, st_defs) if rf is not None else None
    if rf is None:
        # not passed: the default of the routine that is called decides (Mechanic.flush_metrics(refresh=False), MetricsStore.flush(refresh=True))
        fname = last_attr(flush_c[0].func)
        if _self_call(flush_c[0]):
            cands = [m_ for m_ in [model.table.method(MI, fname)] if m_ is not None]
        else:
            mm = repo.module("esrally/metrics.py")
            chk.use(mm)
            cands = [n for n in ast.walk(mm.tree) if isinstance(n, ast.FunctionDef) and n.name == fname]
        dflts = set()
        for f_ in cands:
            ps_ = [x.arg for x in f_.args.posonlyargs + f_.args.args]
            d_ = dict(zip(ps_[len(ps_) - len(f_.args.defaults):], f_.args.defaults))
            d_.update({x.arg: v for x, v in zip(f_.args.kwonlyargs, f_.args.kw_defaults) if v is not None})
            dflts.add(d_["refresh"].value if isinstance(d_.get("refresh"), ast.Constant) else None)
        if not dflts or None in dflts or len({bool(x) for x in dflts}) != 1:
            chk.unknown("O12.5", f"`{short(flush_c[0], 50)}` does not pass `refresh` and the default of the routine(s) called ({len(cands)} definition(s) of {fname}) is not one constant", flush_c[0])
        else:
            chk.ob("O12.5", "flush with refresh", bool(next(iter(dflts))) is True, flush_c[0], f"{short(flush_c[0], 50)} (refresh not passed, default {next(iter(dflts))!r})")
    elif isinstance(rf, ast.Constant):
        chk.ob("O12.5", "flush with refresh", rf.value is True, flush_c[0], short(flush_c[0], 50))
    else:
        chk.unknown("O12.5", f"the value of the refresh argument of `{short(flush_c[0], 50)}` is not a constant: {short(rf, 40)}", flush_c[0])
    pv = source.arg_of(clean_c[0], 0, "preserve")
    init = mech.methods(M).get("__init__")
    pv_x = source.inline_node(pv, st_defs) if pv is not None else None
    if pv_x is not None and is_self_attr(pv_x) and init is not None:
        srcs = [n.value for n in walk_body(init) if isinstance(n, ast.Assign) and any(is_self_attr(t, pv_x.attr) for t in n.targets)]
        pv_x = source.inline_node(srcs[0], source.local_defs(init)) if len(srcs) == 1 else pv_x
    if pv_x is None or is_self_attr(pv_x) or isinstance(pv_x, ast.Name):
        chk.unknown("O12.5", f"the value of cleanup's preserve argument could not be traced to a configuration look-up or a constant: {u(pv_x) if pv_x is not None else 'not passed'}", clean_c[0])
    else:
        pres_ok = any(isinstance(c, ast.Call) and any(source.is_const(a, "preserve.install") for a in c.args) for c in ast.walk(pv_x))
        chk.ob("O12.5", "cleanup(preserve=<configured preserve.install>)", pres_ok, clean_c[0], f"preserve={u(pv) if pv is not None else None} = {short(pv_x, 70)}")
    # lists emptied
    def empties(n, attr):
        """self.<attr> = [] / list() / self.<attr>.clear() / del self.<attr>[:] / self.<attr>[:] = []"""
        if isinstance(n, ast.Assign) and any(is_self_attr(t, attr) for t in n.targets):
            return (isinstance(n.value, (ast.List, ast.Tuple)) and not n.value.elts) or u(n.value) == "list()"
        if isinstance(n, ast.Assign) and len(n.targets) == 1 and isinstance(n.targets[0], ast.Tuple) and isinstance(n.value, ast.Tuple) and len(n.value.elts) == len(n.targets[0].elts):
            return any(is_self_attr(t, attr) and ((isinstance(v, (ast.List, ast.Tuple)) and not v.elts) or u(v) == "list()") for t, v in zip(n.targets[0].elts, n.value.elts))
        if isinstance(n, ast.Expr) and isinstance(n.value, ast.Call) and isinstance(n.value.func, ast.Attribute) and n.value.func.attr == "clear" and is_self_attr(n.value.func.value, attr):
            return True
        tg = n.targets if isinstance(n, (ast.Delete, ast.Assign)) else []
        return any(isinstance(t, ast.Subscript) and is_self_attr(t.value, attr) and isinstance(t.slice, ast.Slice) and t.slice.lower is None and t.slice.upper is None for t in tg) \
            and (isinstance(n, ast.Delete) or (isinstance(n.value, (ast.List, ast.Tuple)) and not n.value.elts))

    for attr in (nodes_attr, configs_attr):
        resets = [n for n in walk_body(st) if empties(n, attr)]
        shrinks = [n for n in walk_body(st) if isinstance(n, ast.Call) and isinstance(n.func, ast.Attribute) and n.func.attr in ("pop", "remove", "popleft") and is_self_attr(n.func.value, attr)]
        if not resets and shrinks:
            chk.unknown("O12.5", f"self.{attr} is shrunk element by element (`{short(shrinks[0], 40)}`): whether it ends up empty is not decided", shrinks[0])
            continue
        rewrites = [n for n in walk_body(st) if isinstance(n, (ast.Assign, ast.AugAssign, ast.AnnAssign)) and any(is_self_attr(x, attr) and isinstance(x.ctx, ast.Store) for x in ast.walk(n))]
        if not resets and rewrites:
            chk.unknown("O12.5", f"self.{attr} is re-assigned in stop_engine (`{short(rewrites[0], 50)}`) but not to a value recognised as empty: whether it ends up empty is not decided", rewrites[0])
            continue
        chk.ob("O12.5", f"self.{attr} emptied after stop", bool(resets) and gst.must_pass(gst.entry, [gst.node_of(r) for r in resets]), resets[0] if resets else st,
               "" if resets else f"stop_engine never empties self.{attr}: a second stop (exit request after StopNodes, re-used mechanic) handles the same nodes again")
        # ... and only AFTER the stages have used it: the reads of the attribute that reach the launcher's stop call / the loops around the result and clean-up calls (through
        # single-assignment locals, also those of a swap-and-clear `old, self.<attr> = self.<attr>, []`) are not behind a statement that empties it
        def reads_of(expr, seen=(), attr=attr):
            out = []
            for x in ast.walk(expr):
                if is_self_attr(x, attr) and isinstance(x.ctx, ast.Load):
                    out.append(x)
                elif isinstance(x, ast.Name) and isinstance(x.ctx, ast.Load) and x.id in st_defs and x.id not in seen:
                    out += reads_of(st_defs[x.id], seen + (x.id,))
            return out

        uses = [x for c in stop_c for a in list(c.args) + [k.value for k in c.keywords] for x in reads_of(a)]
        for c in add_c + clean_c:
            for lp in source.ancestors(c):
                if lp is st:
                    break
                if isinstance(lp, ast.For):
                    uses += reads_of(lp.iter)
                elif isinstance(lp, (ast.ListComp, ast.SetComp, ast.GeneratorExp, ast.DictComp)):
                    uses += [x for g_ in lp.generators for x in reads_of(g_.iter)]
        if resets and uses:
            late = [(r, x) for r in resets for x in uses if source.enclosing_stmt(x) is not r and gst.path_exists(gst.node_of(r), gst.node_of(x))]
            chk.ob("O12.5", f"self.{attr} is emptied only after the stages of stop_engine have read it", not late, late[0][1] if late else resets[0],
                   f"{len(uses)} read(s) feed the launcher stop / the per-node loops, none behind `{short(resets[0], 40)}`" if not late else
                   f"`{short(source.enclosing_stmt(late[0][1]), 60)}` reads self.{attr} after `{short(late[0][0], 40)}` has emptied it: nothing is stopped / stored / cleaned up")
    # node actor: what it does with StopNodes / an exit request / other messages, evaluated on a stand-in actor that holds a mechanic
    MECH = _Obj(cls="Mechanic", name="the mechanic of this host")
    COORD = "address of the mechanic actor (sender of StopNodes)"
    mech_attr = None
    if sim_err is None and engine:
        owners = [k for k, v in actor_ok.fields.items() if v is t_ok[engine[0]].recv]
        mech_attr = owners[0] if len(owners) == 1 else None
    if mech_attr is None:
        mech_attr = "mechanic" if "mechanic" in nm_init else None
    if mech_attr is None:
        raise AnchorMissing("NodeMechanicActor: the attribute that holds the mechanic created for StartNodes")

    def deliver(me_fields, msg, fail_name=None):
        """Thespian's ActorTypeDispatcher hands msg to receiveMsg_<its class>, else to receiveUnrecognizedMessage"""
        cname = msg.cls.rsplit(".", 1)[-1]
        h = model.table.method(NM, f"receiveMsg_{cname}") or model.table.method(NM, "receiveUnrecognizedMessage")
        if h is None:
            raise AnchorMissing(f"NodeMechanicActor: no handler for {cname}")
        me = me_fields if isinstance(me_fields, _Obj) else _table_fields(model.table, NM, _Obj(name="self", **{k: _snap(v) for k, v in me_fields.items()}))
        sim = _Sim(model.table, NM, me, fail=(lambda ev: ev.name == fail_name) if fail_name else None)
        escaped = None
        try:
            sim.call_method(h, [msg, COORD])
        except _Raised as x:
            escaped = x.name
        return sim.trace, me, escaped, h

    with_mech = dict(nm_init)
    with_mech[mech_attr] = MECH
    STOP, EXIT = _Obj(cls="StopNodes", name="StopNodes"), _Obj(cls="thespian.actors.ActorExitRequest", name="ActorExitRequest")
    others_ = [_Obj(cls="ResetRelativeTime", name="ResetRelativeTime", reset_in_seconds=0), _Obj(cls="thespian.actors.WakeupMessage", name="WakeupMessage", payload=None),
               _Obj(cls="SomeOtherMessage", name="an unrelated message")]

    def stops_in(trace):
        return [i for i, e in enumerate(trace) if e.recv is MECH and e.name == "stop_engine"]

    try:
        tA, meA, escA, hA = deliver(with_mech, STOP)
        tB, meB, escB, _ = deliver(with_mech, STOP, fail_name="stop_engine")
        tC, meC, escC, hC = deliver(with_mech, EXIT)
        tCf, meCf, escCf, _ = deliver(with_mech, EXIT, fail_name="stop_engine")
        tD, meD, escD, _ = deliver(meA, EXIT)  # the exit request that follows StopNodes
        tN, meN, escN, _ = deliver(dict(nm_init), EXIT)  # an exit request for an actor that never started anything
        rest = [deliver(with_mech, m_) for m_ in others_]
        sim_err5 = None
    except _Cannot as e:
        sim_err5 = str(e)
    ur = model.table.method(NM, "receiveUnrecognizedMessage") or NM.node
    if sim_err5 is not None:
        chk.unknown("O12.5", f"the node mechanic's handling of StopNodes / exit requests cannot be evaluated on a stand-in actor: {sim_err5}", ur)
    elif not sends_of(tA, "NodesStopped") or not stops_in(tA):
        raise AnchorMissing("NodeMechanicActor: NodesStopped send / stop_engine call when StopNodes is handled" + (f" ({escA} raised)" if escA else ""))
    else:
        ackA = sends_of(tA, "NodesStopped")
        stray = [(m_.name, t_) for m_, (t_, _, _, _) in zip(others_ + [EXIT], rest + [(tC, meC, escC, hC)]) if sends_of(t_, "NodesStopped")]
        chk.ob("O12.5", "NodesStopped only when handling StopNodes", not stray, sends_of(stray[0][1], "NodesStopped")[0][1].node if stray else ackA[0][1].node,
               f"no NodesStopped for {', '.join(m_.name for m_ in others_ + [EXIT])}" if not stray else f"NodesStopped is sent when {stray[0][0]} is handled")
        ok = len(stops_in(tA)) == 1 and stops_in(tA)[0] < ackA[0][0] and len(ackA) == 1 and _eq(ackA[0][1].args[0], COORD)
        chk.ob("O12.5", "NodesStopped after stop_engine()", ok, ackA[0][1].node, f"stop_engine() is call #{stops_in(tA)[0] + 1}, NodesStopped goes to {[e.args[0] for _, e in ackA]} by call #{ackA[0][0] + 1}")
        if not stops_in(tB):
            chk.unknown("O12.5", "stop_engine() is not called again when the handling of StopNodes is repeated with a failing stop_engine() (the simulation is not deterministic)", hA)
        else:
            ok = not sends_of(tB, "NodesStopped")
            chk.ob("O12.5", "NodesStopped only when stop_engine() returned (not on its failure edge)", ok, (sends_of(tB, "NodesStopped") or ackA)[0][1].node,
                   "" if ok else "the confirmation is also sent on a path on which stop_engine() raised (finally / handler): the coordinator acknowledges EngineStopped for a host that did not stop",
                   key=f"{_M}:NodeMechanicActor.receiveUnrecognizedMessage:NodesStopped:normal-only")
        for what, me_, h_ in (("StopNodes", meB, hA), ("the exit request", meCf, hC)):
            ok = me_.fields.get(mech_attr) is MECH
            chk.ob("O12.5", "mechanic reference kept when stop_engine() failed (the exit request retries the stop)", ok, h_,
                   f"stop_engine() fails while {what} is handled: self.{mech_attr} is {'kept' if ok else 'dropped (' + repr(me_.fields.get(mech_attr)) + ')'}",
                   key=f"{_M}:NodeMechanicActor.receiveUnrecognizedMessage:clear:normal-only:{what}")
        ok = escA is None and meA.fields.get(mech_attr) is None
        _sim_ob(chk, "O12.5", "mechanic reference cleared after StopNodes", ok, ackA[0][1].node, f"self.{mech_attr} is {meA.fields.get(mech_attr)!r} after StopNodes was handled", [tA])
        failures = sends_of(tD, "BenchmarkFailure") + sends_of(tN, "BenchmarkFailure")
        ok = not stops_in(tD) and not stops_in(tN) and len(stops_in(tC)) == 1 and meC.fields.get(mech_attr) is None and escD is None and escN is None and not failures
        located = bool(stops_in(tD) or stops_in(tN) or len(stops_in(tC)) > 1 or failures or escD or escN)  # a second stop / a failing request was SEEN; else something is missing
        _sim_ob(chk, "O12.5", "stop on exit request guarded by the mechanic reference (no second stop)", ok, failures[0][1].node if failures else hC,
                f"exit request: {len(stops_in(tC))} stop with a mechanic, {len(stops_in(tD))} after StopNodes, {len(stops_in(tN))} without one"
                + (f"; {escD or escN} escapes" if (escD or escN) else "") + ("; the request fails without a mechanic (a BenchmarkFailure is reported for a host that stopped cleanly)" if failures else ""),
                [] if located else [tC])
    nm_funcs = {id(fn) for fn in ast.walk(NM.node) if isinstance(fn, source.FUNC_TYPES)}
    # ... or in a routine that was SEEN to run on behalf of the node actor while it handled StopNodes (a function of the module that is handed the actor)
    seen_stop_sites = {id(e.node) for e in (tA if sim_err5 is None else []) if e.name == "NodesStopped"}
    nsx = [n for n in source.package_calls(repo, "NodesStopped") if id(source.enclosing_func(n)) not in nm_funcs and id(n) not in seen_stop_sites]
    chk.ob("O12.5", "NodesStopped constructed only in the node actor", not nsx, nsx[0] if nsx else ur, "")

    from rules.C13 import cleanup_isolation_rule

    pv_ = repo.module("esrally/mechanic/provisioner.py")
    chk.use(pv_)
    cleanup_isolation_rule(chk, "O12.5", pv_)

    # ---- O12.6 launcher stop stores system metrics for every node --------------------------------------------------------------------
    chk.rule("O12.6", "each launcher's stop() stores system metrics for every node on every normal path of the loop body (conditional only on the store being present)", 2,
             "a node that had already died / needed kill -9: its system metrics are silently missing")
    start_name = launches[0].value.func.attr
    stop_names = {c.func.attr for c in stop_c}
    if len(stop_names) != 1:
        raise AnchorMissing(f"Mechanic.stop_engine: the launcher call that stops the nodes (found {sorted(stop_names)})")
    stop_name = next(iter(stop_names))
    launchers = [c for c in lau.classes() if start_name in lau.methods(c) and stop_name in lau.methods(c)]
    if len(launchers) < 2:
        raise AnchorMissing(f"{_L}: expected at least two launcher classes with {start_name}() and {stop_name}(), found {[c.name for c in launchers]}")
    for c in launchers:
        cname = c.name
        sf_orig = lau.methods(c)[stop_name]
        sps = params_of(sf_orig)
        if len(sps) < 3:
            raise AnchorMissing(f"{cname}.{stop_name}: signature (self, nodes, metrics_store)")
        nodes_p, store_p = sps[1], sps[2]
        sf = _Inliner(model.table, model.table.get(cname, _L)).expand(sf_orig)  # a per-node helper is analysed as part of the loop body
        gl = cfg_of(sf)
        loops = [n for n in walk_body(sf) if isinstance(n, ast.For) and isinstance(_card_source(n.iter, sf), ast.Name) and _card_source(n.iter, sf).id == nodes_p]
        stores = [n for n in walk_body(sf) if isinstance(n, ast.Call) and last_attr(n.func) == "store_system_metrics"]
        stores = [s_ for s_ in stores if any(any(x is s_ for x in ast.walk(lp)) for lp in loops)] if loops else stores
        if not loops or not stores:
            chk.unknown("O12.6", f"{cname}.{stop_name}: no for loop over `{nodes_p}` that calls store_system_metrics (the per-node storing of system metrics was not recognised)", sf_orig)
            continue
        loop6 = next(lp for lp in loops if any(x is stores[0] for x in ast.walk(lp)))
        head = gl.node_of(loop6)
        store_nodes = [gl.node_of(s) for s in stores]
        allowed_false = []
        sdefs6 = source.local_defs(sf)
        for s in stores:
            for t, pol in guards(s, stop=loop6, path_sensitive=True):
                t_ = source.inline_node(t, sdefs6)
                present = (pol and isinstance(t_, ast.Name) and t_.id == store_p) or _patf.is_(t_ if pol else None, "V_s is not None", binds={"s": store_p}) \
                    or (not pol and _patf.is_(t_, "V_s is None", binds={"s": store_p}))
                if not present:
                    # decided on values: a condition over the store parameter alone that comes out the way this arm needs it for a store and the other way for None
                    # (`bool(metrics_store)`, `metrics_store != None`, `not (metrics_store is None)` ...)
                    try:
                        sim6 = _Sim(model.table, model.table.get(cname, _L), _Obj(name="self"))
                        present = bool(sim6.val(t_, {store_p: _Obj(name="the metrics store")})) is pol and bool(sim6.val(t_, {store_p: None})) is (not pol)
                    except (_Cannot, _Raised):
                        present = False
                if present:
                    tn = gl.node_of(t)
                    allowed_false += [(tn.id, y, lab) for (y, lab) in gl.succ[tn.id] if lab == ("false" if pol else "true")]
                else:
                    allowed_false = None
                    break
            if allowed_false is None:
                break
        if allowed_false is None:
            chk.ob("O12.6", f"{cname}.stop", False, stores[0], "store_system_metrics is guarded by something else than the presence of the metrics store")
            continue
        starts = gl.edge_targets(head, "iter")
        r = gl.reachable(starts, avoid=store_nodes, avoid_edges=allowed_false)
        ok = head.id not in r
        chk.ob("O12.6", f"{cname}.stop stores system metrics per node", ok, stores[0], "every path of the loop body passes the store call" if ok else "a path through the loop body skips store_system_metrics")

    # ---- O12.4b the dispatcher stays subscribed while the hosts start their nodes (F41) -----------------------------------------------------------
    chk.rule("O12.4b", "the Dispatcher subscribes to registration changes on every path of StartEngine that does not send the start messages at once, and no activation that sends the "
             "parked start messages also cancels the subscription (the Dispatcher is never told that start-up has completed: at that point notifications are still needed)", 3,
             "all daemons have joined, one host is still installing / launching its nodes and its daemon leaves: nobody is notified, race control waits forever")
    # `parked`: the attribute in which (node actor, start message) pairs wait (derived for O12.1c)

    def is_start_send(c, fn):
        """a send that hands out the parked (actor, start message) pairs: inside a loop over the parked list (for ... in self.<parked> / while self.<parked>), or fed from it directly
        (self.send(*self.<parked>.pop(0)))"""
        if last_attr(c.func) != "send":
            return False
        fdefs = _local_defs(fn)

        def from_parked(e):
            return any(is_self_attr(x) and x.attr in parked for x in ast.walk(inline_node(e, fdefs)))

        if any(from_parked(a.value if isinstance(a, ast.Starred) else a) for a in c.args):
            return True
        for a in source.ancestors(c):
            if a is fn:
                break
            if (isinstance(a, (ast.For, ast.AsyncFor)) and from_parked(a.iter)) or (isinstance(a, ast.While) and from_parked(a.test)) \
                    or (isinstance(a, (ast.ListComp, ast.SetComp, ast.GeneratorExp, ast.DictComp)) and any(from_parked(g_.iter) for g_ in a.generators)):
                return True
        return False

    def is_cancel(c, fn):
        return any(c is c2 and en is False for c2, en in _subscription_calls(fn))

    def is_subscribe(c, fn):
        return any(c is c2 and en is True for c2, en in _subscription_calls(fn))

    for f_ in DI.methods.values():
        for c, en in _subscription_calls(f_):
            if en is None:
                chk.unknown("O12.4b", f"the argument of `{short(c, 60)}` is not a decidable constant (subscribe or cancel?)", c)
    n_senders = 0
    for name, f_ in DI.methods.items():
        s_sites = _effect_sites(model, DI, f_, is_start_send)
        if not s_sites:
            continue
        n_senders += 1
        c_sites = _effect_sites(model, DI, f_, is_cancel)
        gf = cfg_of(f_)
        clash = [(c, s) for c in c_sites for s in s_sites
                 if c is s or gf.node_of(c) is gf.node_of(s) or gf.path_exists(gf.node_of(c), gf.node_of(s)) or gf.path_exists(gf.node_of(s), gf.node_of(c))]
        chk.ob("O12.4b", f"Dispatcher.{name}: the start messages go out with the subscription still in place", not clash, clash[0][0] if clash else s_sites[0],
               f"{len(s_sites)} site(s) sending the parked start messages, {len(c_sites)} cancelling site(s), none on a common path" if not clash else
               f"`{short(clash[0][0], 70)}` cancels the subscription in the activation that sends the start messages (`{short(clash[0][1], 50)}`): a daemon that leaves while its host "
               "is still starting nodes is reported to nobody",
               key=f"{_M}:Dispatcher.{name}:stays-subscribed")
    if n_senders == 0:
        raise AnchorMissing("Dispatcher: no method sends the parked start messages (send inside a loop over the parked pairs)")
    gde = cfg_of(de)
    sub_or_send = [gde.node_of(c) for c in _effect_sites(model, DI, de, is_subscribe) + _effect_sites(model, DI, de, is_start_send)]
    api_anywhere = [c for f_ in DI.methods.values() for c, en in _subscription_calls(f_) if en is True]
    if not sub_or_send and api_anywhere:
        # the class does subscribe somewhere, but no site is reached from the handler through calls of its own methods (a table, a function of the module ...): not recognised
        chk.unknown("O12.4b", f"{de.name}: neither a subscription to registration changes nor the sending of the parked start messages was located in the handler or the methods it calls "
                    f"(`{short(api_anywhere[0], 50)}` exists elsewhere in the class)", de)
    else:
        ok = bool(sub_or_send) and gde.must_pass(gde.entry, sub_or_send, normal_only=True)
        chk.ob("O12.4b", "Dispatcher.receiveMsg_StartEngine: subscribes unless the start messages are sent at once", ok, de,
               "" if ok else "a path parks the start messages without subscribing to registration changes: neither the joining nor the departure of a daemon is ever noticed",
               key=f"{_M}:Dispatcher.receiveMsg_StartEngine:subscribes")

    # ---- O12.4c the death of a node mechanic reaches race control (F42) -----------------------------------------------------------------------------
    chk.rule("O12.4c", "every actor class that creates node mechanic actors handles ChildActorExited (Thespian notifies the PARENT) by sending a BenchmarkFailure or by forwarding the "
             "notification upstream; the actor it is forwarded to (the creator of the forwarding actor) handles it in turn, and in the status in which NodesStarted is awaited the chain "
             "ends in a BenchmarkFailure", 1,
             "the process of one host's node mechanic dies while it starts its nodes (OOM kill, SystemExit in an install hook): only logged as unrecognized, race control waits forever")
    from sa import minieval as _me4c
    nsh = MA.methods.get("receiveMsg_NodesStarted")
    await_status = None
    if nsh is not None:
        for _, fn_ in model.method_closure(MA, nsh):
            for c in source.calls_in(fn_, attr=f.name):
                exp = source.bind_args(c, f).get(roles["expected"])  # f: RallyActor.transition_when_all_children_responded (O12.1)
                exp = source.inline_node(exp, source.local_defs(fn_)) if exp is not None else None
                if exp is not None and isinstance(exp, ast.Constant) and isinstance(exp.value, str):
                    await_status = exp.value
    if await_status is None:
        raise AnchorMissing("MechanicActor.receiveMsg_NodesStarted: status in which the acknowledgements are awaited (expected_status of the transition)")

    def creators_of(clsname):
        return [a for a in model.actors if any(isinstance(c, ast.Call) and last_attr(c.func) == "createActor" and c.args and last_attr(c.args[0]) == clsname
                                               for m_ in a.methods.values() for c in walk_body(m_))]

    work = [(a, f"creates {NM.name}") for a in creators_of(NM.name)]
    if not work:
        raise AnchorMissing(f"no actor class creates {NM.name}")
    seen4c = set()
    while work:
        a, why = work.pop(0)
        if a.name in seen4c:
            continue
        seen4c.add(a.name)
        h = model.table.method(a, _CHILD_EXIT)
        key4c = f"{a.module.relpath}:{a.name}.{_CHILD_EXIT}:reports"
        inst = f"{a.name} ({why}): an exited child is reported"
        if h is None:
            chk.ob("O12.4c", inst, False, a.node, f"{a.name} has no {_CHILD_EXIT}: the exit of a child lands in receiveUnrecognizedMessage (logged only); the mechanic keeps waiting for "
                   "the missing NodesStarted", key=key4c)
            continue
        try:
            kind, site, text = _child_exit_outcome(model, a, h, await_status, status_attr[0] or "status", RA)
        except _Cannot as e:
            chk.unknown("O12.4c", f"{a.name}.{_CHILD_EXIT} is not a decision over the actor's status ending in sends: {e}", h)
            continue
        chk.ob("O12.4c", inst, kind in ("failure", "forward"), site, text, key=key4c)
        if kind == "forward":
            ups = creators_of(a.name)
            if not ups:
                chk.unknown("O12.4c", f"{a.name} forwards the notification but no actor class creates {a.name}", h)
            work += [(p, f"creates {a.name}, which forwards the exit of its children") for p in ups]

    # ---- O12.7 launcher start() is all-or-nothing per host (F43) ---------------------------------------------------------------------------------------------
    chk.rule("O12.7", "in every launcher's start(): an exception raised while the node configurations are being started reaches self.stop(<nodes started so far>, ...) before it "
             "leaves start(), and it does leave start() as an exception (sibling agreement of all launchers; the mechanic records the nodes only if ALL of them started)", 4,
             "several nodes per host, the second one fails to start: the failure is reported but the first node is never stopped (tear-down stops an empty list and wipes its installation)")
    # start_name / stop_name / launchers: derived from Mechanic.start_engine / stop_engine above (O12.5, O12.6)
    for c in launchers:
        sf = lau.methods(c)[start_name]
        stopf = lau.methods(c)[stop_name]
        ps_ = params_of(sf)
        if len(ps_) < 2 or len(params_of(stopf)) < 2:
            raise AnchorMissing(f"{c.name}.{start_name}/{stop_name}: signature")
        cfgs, stop_kw = ps_[1], params_of(stopf)[1]
        ldefs = {k: v for k, v in _local_defs(sf).items()}
        gl = cfg_of(sf)
        key7 = f"{_L}:{c.name}.{start_name}"

        def over_configs(it, ldefs=ldefs, cfgs=cfgs):
            return any(isinstance(x, ast.Name) and x.id == cfgs for x in ast.walk(inline_node(it, ldefs)))

        loops7 = [n for n in walk_body(sf) if isinstance(n, (ast.For, ast.While)) and (over_configs(n.iter) if isinstance(n, ast.For) else over_configs(n.test))]
        comps = [n for n in walk_body(sf) if isinstance(n, (ast.ListComp, ast.GeneratorExp, ast.SetComp, ast.DictComp)) and any(over_configs(g_.iter) for g_ in n.generators)
                 and any(isinstance(x, ast.Call) for x in ast.walk(n.elt if not isinstance(n, ast.DictComp) else n.value))]
        if not loops7 and not comps:
            chk.unknown("O12.7", f"{c.name}.{start_name} does not iterate over its configurations in a recognised form (for loop / comprehension over `{cfgs}`)", sf)
            continue
        # the nodes started so far: locals that grow inside the loop
        acc = set()
        for lp in loops7:
            for n in ast.walk(lp):
                if isinstance(n, ast.Call) and last_attr(n.func) in ("append", "extend", "add", "insert") and isinstance(n.func, ast.Attribute) and isinstance(n.func.value, ast.Name):
                    acc.add(n.func.value.id)
                elif isinstance(n, ast.AugAssign) and isinstance(n.op, ast.Add) and isinstance(n.target, ast.Name):
                    acc.add(n.target.id)
        stops7 = []
        for x in source.calls_in(sf, attr=stop_name):
            if not _self_call(x):
                continue
            a0 = source.arg_of(x, 0, stop_kw)
            if a0 is not None and any(isinstance(y, ast.Name) and y.id in acc for y in ast.walk(inline_node(a0, {k: v for k, v in ldefs.items() if k not in acc}))):
                stops7.append(x)
        # ... or a helper of the class that is handed the nodes started so far and passes them on to self.stop(...) on every normal path
        for x in source.calls_in(sf):
            if not _self_call(x) or x.func.attr == stop_name or x.func.attr not in lau.methods(c) or any(x is y for y in stops7):
                continue
            helper = lau.methods(c)[x.func.attr]
            bound7 = source.bind_args(x, helper)
            gh = cfg_of(helper)
            inner = [y for y in source.calls_in(helper, attr=stop_name) if _self_call(y) and isinstance(source.arg_of(y, 0, stop_kw), ast.Name)
                     and source.arg_of(y, 0, stop_kw).id in bound7
                     and any(isinstance(z, ast.Name) and z.id in acc for z in ast.walk(inline_node(bound7[source.arg_of(y, 0, stop_kw).id], {k: v for k, v in ldefs.items() if k not in acc})))]
            if inner and gh.must_pass(gh.entry, [n_ for y in inner for n_ in gh.nodes_of(y)], normal_only=True):
                stops7.append(x)
        stop_nodes = [n_ for x in stops7 for n_ in gl.nodes_of(x)]
        starting = []
        for lp in loops7:
            for st in lp.body:
                for n in ast.walk(st):
                    if isinstance(n, ast.stmt):
                        starting += [x for x in gl.nodes_of(n)]
        for cp in comps:
            starting += gl.nodes_of(cp)
        live = gl.live_nodes()
        starting = [n_ for n_ in starting if n_.id in live]
        # The representative failure: an exception in a LATER iteration. The list of started nodes is then non-empty and a completion flag (a local that only ever holds
        # constants) has the value it was given before the loop. Tests in the clean-up code over these locals alone are decided on that situation: only the edge taken is followed
        # (`if nodes:` may skip the stop for an empty list; `if not complete:` in a finally never skips it for a failure inside the loop).
        flags = {}
        heads = [gl.node_of(lp) for lp in loops7] + [gl.node_of(cp) for cp in comps]
        consts = {}
        for n in walk_body(sf):
            if isinstance(n, ast.Assign) and len(n.targets) == 1 and isinstance(n.targets[0], ast.Name):
                consts.setdefault(n.targets[0].id, []).append(n)
        for nm, asg in consts.items():
            if nm in acc or not all(isinstance(a_.value, ast.Constant) for a_ in asg):
                continue
            before = {a_.value.value for a_ in asg if any(gl.path_exists(gl.node_of(a_), h_) for h_ in heads)}
            if len(before) == 1:
                flags[nm] = next(iter(before))
        env7 = dict(flags)
        env7.update({a_: ["a started node"] for a_ in acc})
        infeasible = []
        for n in walk_body(sf):
            if not isinstance(n, ast.If):
                continue
            names = {x.id for x in ast.walk(n.test) if isinstance(x, ast.Name)}
            if not names or not names <= set(env7) | {"len", "bool"} or not names & set(env7):
                continue
            try:
                taken = "true" if _me4c.ev(n.test, dict(env7)) else "false"
            except _me4c.CannotEval:
                continue
            for tn in gl.nodes_of(n):
                # the test was evaluated on the representative values: it takes this edge (and does not raise)
                infeasible += [(tn.id, y, l_) for (y, l_) in gl.succ[tn.id] if l_ != taken]
        leaks = []
        for n_ in starting:
            for y, l_ in gl.succ[n_.id]:
                if gl.normal_edge(n_.id, y, l_):
                    continue
                if y == gl.raise_exit.id or not gl.must_pass(gl.nodes[y], stop_nodes, exits=[gl.raise_exit], avoid_edges=infeasible):
                    leaks.append(n_)
                    break
        ok = bool(starting) and not leaks
        if comps and not loops7:
            why7 = f"`{short(comps[0], 60)}` starts the nodes inside a comprehension: when a later node fails the ones already started are dropped with the unfinished list"
        elif not stops7:
            why7 = f"no call self.{stop_name}(<nodes started so far>, ...) in {start_name}(): the exception of a later node leaves with the earlier nodes still running and unknown to the caller"
        else:
            why7 = (f"an exception raised at line {getattr(leaks[0].ast, 'lineno', '?')} can leave {start_name}() without passing self.{stop_name}({', '.join(sorted(acc))}, ...)"
                    " (handler too narrow / stop not on every exceptional path)") if leaks else ""
        chk.ob("O12.7", f"{c.name}.{start_name}: a failure while starting the nodes stops the ones already started before it propagates", ok,
               (leaks[0].ast if leaks and leaks[0].ast is not None else sf), why7 if not ok else f"{len(starting)} statement(s) in the start loop, every exceptional exit passes "
               f"self.{stop_name}({', '.join(sorted(acc))}, ...)", key=f"{key7}:stops-started-nodes")
        # ... and the failure still propagates: a handler around the start loop never completes normally (a partial node list would be taken for 'all started')
        start_stmts = list(loops7) + [source.enclosing_stmt(cp) for cp in comps]
        handlers = [h_ for t_ in walk_body(sf) if isinstance(t_, ast.Try) and any(x is s_ for b_ in t_.body for x in ast.walk(b_) for s_ in start_stmts) for h_ in t_.handlers]
        swallow = [h_ for h_ in handlers if any(gl.exit.id in gl.reachable([hn]) for hn in gl.nodes_of(h_))]
        chk.ob("O12.7", f"{c.name}.{start_name}: a start failure is not swallowed (no normal return from a handler around the start loop)", not swallow, swallow[0] if swallow else sf,
               f"{len(handlers)} handler(s) around the start loop, each one ends in a raise" if not swallow else
               "this handler can complete normally: start() returns a partial node list, the mechanic takes it for 'all nodes started' and NodesStarted is sent",
               key=f"{key7}:failure-propagates")

    # ---- O12.8 what a failed start leaves behind is known to the stop that follows (C12-m16) -------------------------------------------------------------------
    chk.rule("O12.8", "Mechanic.start_engine evaluated on a stand-in mechanic with two provisioners: whenever the start leaves by an exception (the launcher's start fails after its "
             "roll-back; the provisioning of a later node fails) every node configuration whose provisioning has completed is held by the attribute that stop_engine's clean-up "
             "loop iterates over, and after a successful start that attribute holds all of them (the stop / exit request that follows a reported failure wipes what was installed)", 3,
             "a node fails to launch: the failure is reported, the nodes are rolled back, but the stop that follows cleans up an empty list - installations and data directories of "
             "the whole host stay on disk although preserve-install is off")
    loop8 = source.enclosing(clean_c[0], (ast.For, ast.ListComp, ast.GeneratorExp, ast.SetComp))
    over8 = None if loop8 is None else source.inline_node(loop8.iter if isinstance(loop8, ast.For) else loop8.generators[0].iter, st_defs)
    wiped = sorted({x.attr for x in ast.walk(over8) if is_self_attr(x)}) if over8 is not None else []
    se_defs8 = source.local_defs(se_mx)
    iters8 = [n.iter for n in walk_body(se_mx) if isinstance(n, ast.For)] + \
             [g_.iter for n in walk_body(se_mx) if isinstance(n, (ast.ListComp, ast.GeneratorExp, ast.SetComp, ast.DictComp)) for g_ in n.generators]
    written8 = {x.attr for x in ast.walk(se_mx) if is_self_attr(x) and isinstance(x.ctx, ast.Store)}
    prov_attrs = sorted({x.attr for it in iters8 for x in ast.walk(source.inline_node(it, se_defs8)) if is_self_attr(x)} - set(wiped) - written8 - {launcher_attr})
    if len(wiped) != 1 or len(prov_attrs) != 1:
        chk.unknown("O12.8", f"roles not recognised: stop_engine's clean-up loop iterates over the attribute(s) {wiped}, start_engine iterates over the attribute(s) {prov_attrs} "
                    "(expected one attribute with the node configurations and one with the provisioners)", se_m)
    else:
        def start8(failing):
            P = [_Obj(cls="Provisioner", name=f"the provisioner of node {i}") for i in (0, 1)]
            L = _Obj(cls="Launcher", name="the launcher")
            me = _Obj(name="self", **{k: _snap(v) for k, v in _init_fields(MI).items()})
            me.fields[prov_attrs[0]] = list(P)
            me.fields[launcher_attr] = L
            fail = {"launch": lambda ev: ev.recv is L, "provisioning": lambda ev: ev.recv is P[1]}.get(failing)
            sim = _Sim(model.table, MI, me, fail=fail)
            esc = None
            try:
                sim.call_method(se_m, [])
            except _Raised as x:
                esc = x.name
            return sim.trace, me, esc, P, L

        def holds8(me, r):
            flat = []

            def fl(x, d=0):
                flat.append(x)
                if d < 3 and isinstance(x, (list, tuple, set, frozenset)):
                    for y in x:
                        fl(y, d + 1)
                elif d < 3 and isinstance(x, dict):
                    for y in list(x.keys()) + list(x.values()):
                        fl(y, d + 1)

            v = me.fields.get(wiped[0])
            if not isinstance(v, (list, tuple, set, frozenset, dict)):
                return None
            fl(v)
            return any(y is r for y in flat)

        try:
            t_ok8, me_ok8, esc_ok8, P8, L8 = start8(None)
            launch_ev = [e for e in t_ok8 if e.recv is L8]
            flat_args = [y for e in launch_ev for a in list(e.args) + list(e.kwargs.values()) for y in (a if isinstance(a, (list, tuple)) else [a])]
            roles8 = {e.name for e in t_ok8 if any(e.recv is p for p in P8) and isinstance(e.result, _Opaque) and any(y is e.result for y in flat_args)}
            runs8 = [("a successful start", t_ok8, me_ok8, esc_ok8, P8)]
            if launch_ev and roles8:
                for failing in ("launch", "provisioning"):
                    t8, me8, esc8, Pf, _ = start8(failing)
                    runs8.append((f"the {failing} of " + ("a node fails in the launcher" if failing == "launch" else "the second node fails"), t8, me8, esc8, Pf))
            err8 = None
        except _Cannot as e:
            err8 = str(e)
        if err8 is not None:
            chk.unknown("O12.8", f"Mechanic.start_engine cannot be evaluated on a stand-in mechanic: {err8}", se_m)
        elif not launch_ev or not roles8 or esc_ok8 is not None:
            chk.unknown("O12.8", "on a stand-in mechanic with two provisioners start_engine does not hand results of calls on the provisioners to a call on the launcher "
                        f"(launcher calls seen: {len(launch_ev)}, escaping: {esc_ok8}): the provisioning step was not recognised", se_m)
        else:
            for what, t8, me8, esc8, Pf in runs8:
                done = [e for e in t8 if any(e.recv is p for p in Pf) and e.name in roles8 and isinstance(e.result, _Opaque)]
                held = [holds8(me8, e.result) for e in done]
                inst = f"start_engine, {what}: the configurations provisioned so far are the ones stop_engine cleans up"
                if what != "a successful start" and esc8 is None:
                    chk.unknown("O12.8", f"{inst}: the injected failure does not leave start_engine (it is handled inside; what is recorded then is not decided here)", se_m)
                elif not done or None in held:
                    chk.unknown("O12.8", f"{inst}: {len(done)} completed provisioning call(s) seen, self.{wiped[0]} is {me8.fields.get(wiped[0])!r:.60} (not a container of them)", se_m)
                else:
                    ok = all(held)
                    chk.ob("O12.8", inst, ok, (done[held.index(False)].node if not ok else se_m),
                           f"{len(done)} completed {'/'.join(sorted(roles8))}() call(s), self.{wiped[0]} holds {sum(held)} of their results when start_engine "
                           f"{'returns' if esc8 is None else 'raises'}" + ("" if ok else f": the stop that follows iterates over self.{wiped[0]} and never cleans up the rest"),
                           key=f"{_M}:Mechanic.start_engine:provisioned-state-recorded:{what.split(' ')[1]}")

    # ---- O12.9 stop() without a metrics store (the roll-back of a failed start) runs to the end (C12-m18) ---------------------------------------------------------
    chk.rule("O12.9", "a launcher's stop() that is called without a metrics store (None: by the roll-back in its own start(), by mechanic.stop() when the race is not found) "
             "uses the store parameter - takes an attribute of it, or hands it to a routine of the package that does - only where a guard has excluded None, so that the loop "
             "over the nodes reaches every node", 2,
             "three nodes per host, the third fails to launch: the roll-back stops the first node, raises AttributeError on None while storing its metrics, and the second node "
             "keeps running (the mechanic never learns about it, the later stop stops nothing)")
    ext_funcs = [f_ for m_ in (mech, lau) for f_ in ast.walk(m_.tree) if isinstance(f_, source.FUNC_TYPES)]
    launcher_funcs = {id(f_): c for c in launchers for f_ in lau.methods(c).values()}
    for c in launchers:
        sf_orig = lau.methods(c)[stop_name]
        sps = params_of(sf_orig)
        if len(sps) < 3:
            raise AnchorMissing(f"{c.name}.{stop_name}: signature (self, nodes, metrics_store)")
        store_p = sps[2]
        absent = []
        for f_ in ext_funcs:
            owner = launcher_funcs.get(id(f_))
            if owner is not None and owner is not c:
                continue
            for x in source.calls_in(f_, attr=stop_name):
                if source.enclosing_func(x) is not f_ or (owner is c) != _self_call(x) or source.arg_of(x, 0, sps[1]) is None:
                    continue
                a1 = source.arg_of(x, 1, store_p)
                if a1 is None:
                    continue
                vals = [a1]
                if isinstance(a1, ast.Name):
                    vals = [n.value for n in walk_body(f_) if isinstance(n, ast.Assign) and any(isinstance(t, ast.Name) and t.id == a1.id for t in n.targets)]
                if any(isinstance(v, ast.Constant) and v.value is None for v in vals):
                    absent.append(x)
        sfx = _Inliner(model.table, model.table.get(c.name, _L)).expand(sf_orig)
        inst = f"{c.name}.{stop_name} completes without a metrics store"
        if not absent:
            chk.ob("O12.9", inst, True, sf_orig, f"no caller in {_L} / {_M} passes None for `{store_p}`")
            continue
        bad = _absent_uses(repo, sfx, store_p)
        chk.ob("O12.9", inst, not bad, bad[0][0] if bad else sf_orig,
               (f"{len(absent)} caller(s) pass None (line {', '.join(str(x.lineno) for x in absent)}); every use of `{store_p}` is behind a test that excludes None" if not bad else
                f"`{short(source.enclosing_stmt(bad[0][0]), 70)}` runs with {store_p}=None (passed at line {absent[0].lineno}) and None is dereferenced in "
                f"{' -> '.join(bad[0][1])}: the exception leaves the loop over the nodes, the remaining nodes are not stopped"),
               key=f"{_L}:{c.name}.{stop_name}:no-store")


from sa.selftest import V  # noqa: E402

# hardening round 3: texts shared by the variants below
_H3_CHAIN = ("            if isinstance(msg, ResetRelativeTime) and self.mechanic:\n                self.mechanic.reset_relative_time()\n"
             "            elif isinstance(msg, thespian.actors.WakeupMessage) and self.mechanic:\n                self.mechanic.flush_metrics()\n"
             "                self.wakeupAfter(METRIC_FLUSH_INTERVAL_SECONDS)\n            elif isinstance(msg, StopNodes):\n                self.mechanic.stop_engine()\n"
             "                self.send(sender, NodesStopped())\n                self.mechanic = None\n            elif isinstance(msg, thespian.actors.ActorExitRequest):\n"
             "                if self.mechanic:\n                    self.mechanic.stop_engine()\n                    self.mechanic = None\n")
_H3_LOOP = ("            for msg_type, handler in self._message_handlers():\n                if isinstance(msg, msg_type):\n                    handler(msg, sender)\n                    break\n")
_H3_ANCHOR = "    def _failure_target(self, msg, sender):"
_H3_ROUTINES = ("    def _on_reset_relative_time(self, msg, sender):\n        if self.mechanic:\n            self.mechanic.reset_relative_time()\n\n"
                "    def _on_wakeup(self, msg, sender):\n        if self.mechanic:\n            self.mechanic.flush_metrics()\n            self.wakeupAfter(METRIC_FLUSH_INTERVAL_SECONDS)\n\n"
                "    def _on_stop_nodes(self, msg, sender):\n        self.mechanic.stop_engine()\n        self.send(sender, NodesStopped())\n        self.mechanic = None\n\n"
                "    def _on_actor_exit_request(self, msg, sender):\n        if self.mechanic:\n            self.mechanic.stop_engine()\n            self.mechanic = None\n\n")
_H3_TABLE = ("    def _message_handlers(self):\n        return (\n            (ResetRelativeTime, self._on_reset_relative_time),\n            (thespian.actors.WakeupMessage, self._on_wakeup),\n"
             "            (StopNodes, self._on_stop_nodes),\n            (thespian.actors.ActorExitRequest, self._on_actor_exit_request),\n        )\n\n")
_H3_MODFUNC_CHAIN = ("            if isinstance(msg, StopNodes):\n                _stop_nodes(self, confirm_to=sender)\n            elif isinstance(msg, thespian.actors.ActorExitRequest):\n"
                     "                if self.mechanic:\n                    _stop_nodes(self)\n            elif self.mechanic and isinstance(msg, ResetRelativeTime):\n"
                     "                self.mechanic.reset_relative_time()\n            elif self.mechanic and isinstance(msg, thespian.actors.WakeupMessage):\n"
                     "                self.mechanic.flush_metrics()\n                self.wakeupAfter(METRIC_FLUSH_INTERVAL_SECONDS)\n")
_H3_STOP_TAIL = ("        self.metrics_store.close()\n        self.nodes = []\n        for node_config in self.node_configs:\n"
                 "            provisioner.cleanup(preserve=self.preserve_install, install_dir=node_config.binary_path, data_paths=node_config.data_paths)\n        self.node_configs = []\n")
_H3_STORE_RESULTS = ("        try:\n            current_race = self._current_race()\n            for node in self.nodes:\n                self._add_results(current_race, node)\n"
                     "        except exceptions.NotFound as e:\n            self.logger.warning(\"Cannot store system metrics: %s.\", str(e))\n\n        self.metrics_store.close()\n")
_H3_STORE_HELPER = ("    def _store_system_metrics(self):\n        try:\n            current_race = self._current_race()\n        except exceptions.NotFound as e:\n"
                    "            self.logger.warning(\"Cannot store system metrics: %s.\", str(e))\n            return\n        for node in self.nodes:\n"
                    "            self._add_results(current_race, node)\n\n")
_H3_CHILD_EXIT = ("        if self.is_current_status_expected([\"cluster_stopping\", \"cluster_stopped\"]):\n"
                  "            self.logger.info(\"Child actor exited while engine is stopping or stopped: [%s]\", msg)\n            return\n"
                  "        failmsg = \"Child actor exited with [%s] while in status [%s].\" % (msg, self.status)\n        self.logger.error(failmsg)\n"
                  "        self.send(self.race_control, actor.BenchmarkFailure(failmsg))\n")
_H3_CHILD_EXIT_ROUTINES = ("    def _child_exit_expected(self, msg):\n        self.logger.info(\"Child actor exited while engine is stopping or stopped: [%s]\", msg)\n\n"
                           "    def _child_exit_unexpected(self, msg):\n        failmsg = \"Child actor exited with [%s] while in status [%s].\" % (msg, self.status)\n"
                           "        self.logger.error(failmsg)\n        self.send(self.race_control, actor.BenchmarkFailure(failmsg))\n")
_H3_CONV_BODY = ('        if not convmsg.remoteAdded:\n'
                 '            self.logger.warning("Remote Rally node [%s] exited during NodeMechanicActor startup process.", convmsg.remoteAdminAddress)\n'
                 '            self.send(\n'
                 '                self.start_sender,\n'
                 '                actor.BenchmarkFailure("Remote Rally node [%s] has been shutdown prematurely." % convmsg.remoteAdminAddress),\n'
                 '            )\n'
                 '        else:\n'
                 '            remote_ip = convmsg.remoteCapabilities.get("ip", None)\n'
                 '            self.logger.info("Remote Rally node [%s] has started.", remote_ip)\n'
                 '\n'
                 '            for eachmsg in self.remotes[remote_ip]:\n'
                 '                self.pending.append((self.createActor(NodeMechanicActor, targetActorRequirements={"ip": remote_ip}), eachmsg))\n'
                 '            if remote_ip in self.remotes:\n'
                 '                del self.remotes[remote_ip]\n'
                 '            if not self.remotes:\n'
                 '                # stay subscribed: a remote node that leaves while its host is still starting nodes needs to be reported as well\n'
                 '                self.send_all_pending()\n')
_H3_CONV_ROUTINES = ('    def _remote_left(self, convmsg):\n'
                     '        self.logger.warning("Remote Rally node [%s] exited during NodeMechanicActor startup process.", convmsg.remoteAdminAddress)\n'
                     '        self.send(\n'
                     '            self.start_sender,\n'
                     '            actor.BenchmarkFailure("Remote Rally node [%s] has been shutdown prematurely." % convmsg.remoteAdminAddress),\n'
                     '        )\n'
                     '\n'
                     '    def _remote_joined(self, convmsg):\n'
                     '        remote_ip = convmsg.remoteCapabilities.get("ip", None)\n'
                     '        self.logger.info("Remote Rally node [%s] has started.", remote_ip)\n'
                     '        new_actor = lambda: self.createActor(NodeMechanicActor, targetActorRequirements={"ip": remote_ip})\n'
                     '        self.pending.extend((new_actor(), eachmsg) for eachmsg in self.remotes.pop(remote_ip, ()))\n'
                     '        if not self.remotes:\n'
                     '            # stay subscribed: a remote node that leaves while its host is still starting nodes needs to be reported as well\n'
                     '            self.send_all_pending()\n')

_NBH_OLD = ("    nodes = {}\n    node_id = 0\n    for ip_port in ip_port_pairs:\n        if ip_port not in nodes:\n            nodes[ip_port] = []\n"
            "        nodes[ip_port].append(node_id)\n        node_id += 1\n    return nodes\n")
_FAN_OLD = "            submsg = startmsg.for_nodes(all_node_ips, all_node_ids, ip, port, node)\n"

VARIANTS = [
    # C12-m13: the node ids are a partition of the target host list (O12.1d)
    [V("m13: nodes_by_host groups only adjacent entries of the target host list (itertools.groupby on the unsorted list)", "break", _M, "import contextlib\n", "import contextlib\nimport itertools\n", "O12.1d"),
     V("", "break", _M, _NBH_OLD, "    nodes = {}\n    for ip_port, group in itertools.groupby(enumerate(ip_port_pairs), key=lambda e: e[1]):\n"
                                  "        nodes[ip_port] = [node_id for node_id, _ in group]\n    return nodes\n")],
    V("m13': a later entry of a host replaces the node ids collected so far", "break", _M, "        nodes[ip_port].append(node_id)\n", "        nodes[ip_port] = [node_id]\n", "O12.1d"),
    V("m13': the node id is not advanced (every node gets id 0)", "break", _M, "        nodes[ip_port].append(node_id)\n        node_id += 1\n", "        nodes[ip_port].append(node_id)\n", "O12.1d"),
    V("m13': the node id is advanced only when a new host shows up", "break", _M, "            nodes[ip_port] = []\n        nodes[ip_port].append(node_id)\n        node_id += 1\n",
      "            nodes[ip_port] = []\n            node_id += 1\n        nodes[ip_port].append(node_id)\n", "O12.1d"),
    V("m13': the dispatcher hands every host only the first of its node ids", "break", _M, _FAN_OLD, _FAN_OLD.replace("port, node)", "port, node[:1])"), "O12.1d"),
    V("m13': the dispatcher hands every host the ids of all nodes", "break", _M, _FAN_OLD, _FAN_OLD.replace("port, node)", "port, all_node_ids)"), "O12.1d"),
    V("m13': the dispatcher hands every host the node ids of the first host", "break", _M, _FAN_OLD, _FAN_OLD.replace("port, node)", "port, all_nodes_by_host[all_ips_and_ports[0]])"), "O12.1d"),
    V("m13': the start message of a remote host waits for the daemon of another host", "break", _M, "                self.remotes[ip].append(submsg)\n",
      "                self.remotes[sorted(all_node_ips)[-1]].append(submsg)\n", "O12.1d"),
    V("m13 keep: the dispatcher builds StartNodes itself", "keep", _M, _FAN_OLD,
      "            submsg = StartNodes(startmsg.cfg, startmsg.open_metrics_context, startmsg.sources, startmsg.distribution, startmsg.external, startmsg.docker,\n"
      "                                 all_node_ips, all_node_ids, ip, port, node)\n"),
    [V("m13 keep: registration of a start message in a helper method of the dispatcher", "keep", _M,
       _FAN_OLD + "            submsg.reply_to = sender\n            if ip == \"127.0.0.1\":\n                m = self.createActor(NodeMechanicActor, targetActorRequirements={\"coordinator\": True})\n"
       "                self.pending.append((m, submsg))\n            else:\n                self.remotes[ip].append(submsg)\n",
       "            self._register(startmsg.for_nodes(all_node_ips, all_node_ids, ip, port, node), ip, sender)\n"),
     V("", "keep", _M, "    def send_all_pending(self):\n",
       "    def _register(self, submsg, ip, reply_to):\n        submsg.reply_to = reply_to\n        if ip == \"127.0.0.1\":\n"
       "            m = self.createActor(NodeMechanicActor, targetActorRequirements={\"coordinator\": True})\n            self.pending.append((m, submsg))\n"
       "        else:\n            self.remotes[ip].append(submsg)\n\n    def send_all_pending(self):\n")],
    V("m13 keep: to_ip_port as a comprehension over a local function", "keep", _M, "        ip = net.resolve(host_or_ip)\n        ip_port_pairs.append((ip, port))\n    return ip_port_pairs\n",
      "        ip_port_pairs.append((host_or_ip, port))\n\n    def resolved(pair):\n        return net.resolve(pair[0]), pair[1]\n\n    return [resolved(p) for p in ip_port_pairs]\n"),
    V("m13 keep: grouping respelt with enumerate and setdefault", "keep", _M, _NBH_OLD,
      "    nodes = {}\n    for node_id, ip_port in enumerate(ip_port_pairs):\n        nodes.setdefault(ip_port, []).append(node_id)\n    return nodes\n"),
    [V("m13 keep: groupby over the entries SORTED by ip:port (all entries of a pair are adjacent then)", "keep", _M, "import contextlib\n", "import contextlib\nimport itertools\n"),
     V("", "keep", _M, _NBH_OLD, "    by_pair = sorted(enumerate(ip_port_pairs), key=lambda e: e[1])\n"
                                 "    return {ip_port: [node_id for node_id, _ in group] for ip_port, group in itertools.groupby(by_pair, key=lambda e: e[1])}\n")],
    V("m13 keep: grouping collected in a defaultdict", "keep", _M, _NBH_OLD,
      "    nodes = defaultdict(list)\n    for node_id in range(len(ip_port_pairs)):\n        nodes[ip_port_pairs[node_id]] += [node_id]\n    return dict(nodes)\n"),
    V("m13 keep: the start message of a host is built with keyword arguments from a copy of its node ids", "keep", _M, _FAN_OLD,
      "            submsg = startmsg.for_nodes(all_node_ips=all_node_ips, all_node_ids=all_node_ids, node_ids=tuple(node), port=port, ip=ip)\n"),
    V("F3: address called instead of send", "break", _M, "            self.send(\n                self.start_sender,\n                actor.BenchmarkFailure(\"Remote Rally node [%s] has been shutdown prematurely.\" % convmsg.remoteAdminAddress),\n            )",
      "            self.start_sender(actor.BenchmarkFailure(\"Remote Rally node [%s] has been shutdown prematurely.\" % convmsg.remoteAdminAddress))", "O12.4"),
    V("departure only logged", "break", _M, "            self.send(\n                self.start_sender,\n                actor.BenchmarkFailure(\"Remote Rally node [%s] has been shutdown prematurely.\" % convmsg.remoteAdminAddress),\n            )", "            pass", "O12.4"),
    V("transition on first response", "break", _A, "            if response_count == expected_count:", "            if response_count >= 1:", "O12.1"),
    V("transition compares with > ", "break", _A, "            if response_count == expected_count:\n", "            if response_count < expected_count:\n", "O12.1"),
    V("count read before append", "break", _A, "            self.received_responses.append(msg)\n            response_count = len(self.received_responses)", "            response_count = len(self.received_responses)\n            self.received_responses.append(msg)", "O12.1"),
    V("responses not reset", "break", _A, "                self.received_responses = []\n                transition()", "                transition()", "O12.1"),
    V("EngineStarted sent from NodesStarted directly", "break", _M, "        self.transition_when_all_children_responded(sender, msg, \"starting\", \"cluster_started\", self.on_all_nodes_started)",
      "        self.send(self.race_control, EngineStarted(self.team_revision))", "O12.1b"),
    V("wrong expected status for stop", "break", _M, 'self.transition_when_all_children_responded(sender, msg, "cluster_stopping", "cluster_stopped", self.on_all_nodes_stopped)',
      'self.transition_when_all_children_responded(sender, msg, None, "cluster_stopped", self.on_all_nodes_stopped)', "O12.1b"),
    V("children sized by hosts not nodes_by_host", "break", _M, "            self.children = [None] * len(nodes_by_host(to_ip_port(hosts)))", "            self.children = [None] * len(to_ip_port(hosts))", "O12.1c"),
    V("external branch creates dispatcher", "break", _M, '            self.logger.info("Cluster will not be provisioned by Rally.")\n', '            self.logger.info("Cluster will not be provisioned by Rally.")\n            self.send(self.createActor(Dispatcher), msg)\n', "O12.2"),
    V("external stop goes to children", "break", _M, "        if self.externally_provisioned:\n            self.on_all_nodes_stopped()\n        else:\n            self.send_to_children_and_transition(sender, StopNodes(), [], \"cluster_stopping\")",
      "        self.send_to_children_and_transition(sender, StopNodes(), [], \"cluster_stopping\")", "O12."),
    V("NodesStarted before start_engine", "break", _M, "            self.mechanic.start_engine()\n            self.wakeupAfter(METRIC_FLUSH_INTERVAL_SECONDS)\n            self.send(getattr(msg, \"reply_to\", sender), NodesStarted())",
      "            self.send(getattr(msg, \"reply_to\", sender), NodesStarted())\n            self.mechanic.start_engine()\n            self.wakeupAfter(METRIC_FLUSH_INTERVAL_SECONDS)", "O12.3"),
    V("NodesStopped before stop_engine", "break", _M, "                self.mechanic.stop_engine()\n                self.send(sender, NodesStopped())\n                self.mechanic = None", "                self.send(sender, NodesStopped())\n                self.mechanic.stop_engine()\n                self.mechanic = None", "O12.5"),
    V("mechanic reference not cleared", "break", _M, "                self.send(sender, NodesStopped())\n                self.mechanic = None", "                self.send(sender, NodesStopped())", "O12.5"),
    V("cleanup ignores preserve", "break", _M, "provisioner.cleanup(preserve=self.preserve_install,", "provisioner.cleanup(preserve=False,", "O12.5"),
    V("close before flush", "break", _M, "        self.flush_metrics(refresh=True)\n        try:\n            current_race = self._current_race()", "        self.metrics_store.close()\n        self.flush_metrics(refresh=True)\n        try:\n            current_race = self._current_race()", "O12.5"),
    V("exit request stops unconditionally", "break", _M, "                if self.mechanic:\n                    self.mechanic.stop_engine()\n                    self.mechanic = None", "                self.mechanic.stop_engine()\n                self.mechanic = None", "O12.5"),
    V("system metrics only for stopped nodes", "break", _L, "            # store system metrics in any case (telemetry devices may derive system metrics while the node is running)\n            if metrics_store:\n                node.telemetry.store_system_metrics(node, metrics_store)",
      "                # store system metrics\n                if metrics_store:\n                    node.telemetry.store_system_metrics(node, metrics_store)", "O12.6"),
    V("create() for external returns", "break", _M, '        raise exceptions.RallyAssertionError("Externally provisioned clusters should not need to be managed by Rally\'s mechanic")',
      "        s = lambda: None\n        p = []\n        l = launcher.ProcessLauncher(cfg)", "O12.2"),
    # F41 (865b774): the dispatcher stays subscribed while the hosts start their nodes
    V("F41: subscription cancelled once the last remote has joined", "break", _M,
      "                # stay subscribed: a remote node that leaves while its host is still starting nodes needs to be reported as well\n",
      "                self.notifyOnSystemRegistrationChanges(False)\n", "O12.4b"),
    V("F41: subscription cancelled by the routine that sends the start messages", "break", _M, "            self.send(*each)\n        self.pending = []\n",
      "            self.send(*each)\n        self.pending = []\n        self.notifyOnSystemRegistrationChanges(enable=False)\n", "O12.4b"),
    V("F41: start messages parked for remotes without subscribing", "break", _M, "            self.notifyOnSystemRegistrationChanges(True)\n        else:\n            self.send_all_pending()",
      "            self.logger.info('waiting for remotes')\n        else:\n            self.send_all_pending()", "O12.4b"),
    V("F41: start messages sent inline once the last remote has joined", "keep", _M, "                self.send_all_pending()\n\n    def send_all_pending(self):",
      "                for parked in self.pending:\n                    self.send(*parked)\n                self.pending = []\n\n    def send_all_pending(self):"),
    V("F41: idempotent re-subscription before the start messages go out", "keep", _M,
      "                # stay subscribed: a remote node that leaves while its host is still starting nodes needs to be reported as well\n",
      "                still_needed = True\n                self.notifyOnSystemRegistrationChanges(still_needed)\n"),
    # F42 (468edd0): the death of a node mechanic reaches race control
    V("F42: dispatcher without a ChildActorExited handler", "break", _M,
      "    def receiveMsg_ChildActorExited(self, msg, sender):\n        # the node mechanics are our children: let the actor that knows the engine's status decide whether this is a failure\n"
      "        self.send(self.start_sender, msg)\n\n", "", "O12.4c"),
    V("F42: dispatcher only logs the exit of a node mechanic", "break", _M, "decide whether this is a failure\n        self.send(self.start_sender, msg)",
      "decide whether this is a failure\n        self.logger.info('child exited: %s', msg)", "O12.4c"),
    V("F42: mechanic ignores child exits while starting", "break", _M, 'if self.is_current_status_expected(["cluster_stopping", "cluster_stopped"]):',
      'if self.is_current_status_expected(["starting", "cluster_stopping", "cluster_stopped"]):', "O12.4c"),
    V("F42: forwarding handler with other parameter names and a local for the target", "keep", _M,
      "    def receiveMsg_ChildActorExited(self, msg, sender):\n        # the node mechanics are our children: let the actor that knows the engine's status decide whether this is a failure\n"
      "        self.send(self.start_sender, msg)\n",
      "    def receiveMsg_ChildActorExited(self, notification, origin):\n        upstream = self.start_sender\n        self.send(upstream, notification)\n"),
    V("F42: stopping statuses tested by membership", "keep", _M, 'if self.is_current_status_expected(["cluster_stopping", "cluster_stopped"]):',
      'if self.status in ("cluster_stopping", "cluster_stopped"):'),
    # F43 (69fbba0): launcher start() is all-or-nothing per host
    V("F43: ProcessLauncher starts the nodes in a comprehension again", "break", _L,
      "        nodes = []\n        try:\n            for node_configuration in node_configurations:\n                nodes.append(self._start_node(node_configuration, node_count_on_host))\n"
      "        except BaseException:\n            # all or nothing: the caller only learns about the nodes if all of them have started, so stop the ones that already run\n"
      "            self.stop(nodes, None)\n            raise\n        return nodes\n",
      "        return [self._start_node(node_configuration, node_count_on_host) for node_configuration in node_configurations]\n", "O12.7"),
    V("F43: DockerLauncher does not stop the nodes already started", "break", _L,
      "                nodes.append(node)\n        except BaseException:\n            # all or nothing: the caller only learns about the nodes if all of them have started, so stop the ones that already run\n"
      "            self.stop(nodes, None)\n            raise\n", "                nodes.append(node)\n        except BaseException:\n            raise\n", "O12.7"),
    V("F43: ProcessLauncher stops an empty list instead of the started nodes", "break", _L,
      "node_count_on_host))\n        except BaseException:\n            # all or nothing: the caller only learns about the nodes if all of them have started, so stop the ones that already run\n"
      "            self.stop(nodes, None)\n", "node_count_on_host))\n        except BaseException:\n            self.stop([], None)\n", "O12.7"),
    V("F43: ProcessLauncher swallows the start failure after the clean-up", "break", _L,
      "node_count_on_host))\n        except BaseException:\n            # all or nothing: the caller only learns about the nodes if all of them have started, so stop the ones that already run\n"
      "            self.stop(nodes, None)\n            raise\n", "node_count_on_host))\n        except BaseException:\n            self.stop(nodes, None)\n", "O12.7"),
    V("F43: clean-up in try/finally with a completion flag, skipped for an empty list", "keep", _L,
      "        nodes = []\n        try:\n            for node_configuration in node_configurations:\n                nodes.append(self._start_node(node_configuration, node_count_on_host))\n"
      "        except BaseException:\n            # all or nothing: the caller only learns about the nodes if all of them have started, so stop the ones that already run\n"
      "            self.stop(nodes, None)\n            raise\n        return nodes\n",
      "        started = []\n        complete = False\n        try:\n            for node_configuration in node_configurations:\n"
      "                started.append(self._start_node(node_configuration, node_count_on_host))\n            complete = True\n        finally:\n"
      "            if not complete and len(started) > 0:\n                self.stop(started, None)\n        return started\n"),
    V("F43: bare except and keyword argument for the started nodes", "keep", _L,
      "                nodes.append(node)\n        except BaseException:\n            # all or nothing: the caller only learns about the nodes if all of them have started, so stop the ones that already run\n"
      "            self.stop(nodes, None)\n            raise\n",
      "                nodes.append(node)\n        except:  # noqa\n            so_far = nodes\n            self.stop(metrics_store=None, nodes=so_far)\n            raise\n"),
    # preserving
    V("helper local for node map", "keep", _M, "            self.children = [None] * len(nodes_by_host(to_ip_port(hosts)))", "            node_map = nodes_by_host(to_ip_port(hosts))\n            self.children = [None] * len(node_map)"),
    V(">= on the acknowledgement count", "keep", _A, "            if response_count == expected_count:", "            if response_count >= expected_count:"),
    V("keyword transition argument", "keep", _M, 'self.transition_when_all_children_responded(sender, msg, "cluster_stopping", "cluster_stopped", self.on_all_nodes_stopped)',
      'self.transition_when_all_children_responded(sender, msg, expected_status="cluster_stopping", new_status="cluster_stopped", transition=self.on_all_nodes_stopped)'),
    V("logging between stop stages", "keep", _M, "        self.flush_metrics(refresh=True)\n        try:", "        self.flush_metrics(refresh=True)\n        self.logger.info('flushed')\n        try:"),
    # ---- hardening round 2: the refactored shapes the re-stated obligations accept (keep) and defects placed INSIDE those shapes (break) ----
    # O12.1: decided by evaluating the helper on acknowledgement counts
    [V("H2: surplus raises, missing returns, otherwise transition (guard clauses instead of == / elif >)", "keep", _A, "            if response_count == expected_count:\n",
       "            if response_count > expected_count:\n                raise exceptions.RallyAssertionError('surplus response')\n            if response_count < expected_count:\n"
       "                return\n            if True:\n"),
     V("", "keep", _A, "            elif response_count > expected_count:\n                raise exceptions.RallyAssertionError(\n"
       "                    \"Received [%d] responses but only [%d] were expected to transition from [%s] to [%s]. The responses are: %s\"\n"
       "                    % (response_count, expected_count, self.status, new_status, self.received_responses)\n                )\n", "")],
    [V("H2: guard clauses, but the wait ends one acknowledgement early", "break", _A, "            if response_count == expected_count:\n",
       "            if response_count > expected_count:\n                raise exceptions.RallyAssertionError('surplus response')\n            if response_count < expected_count - 1:\n"
       "                return\n            if True:\n", "O12.1"),
     V("", "break", _A, "            elif response_count > expected_count:\n                raise exceptions.RallyAssertionError(\n"
       "                    \"Received [%d] responses but only [%d] were expected to transition from [%s] to [%s]. The responses are: %s\"\n"
       "                    % (response_count, expected_count, self.status, new_status, self.received_responses)\n                )\n", "")],
    [V("H2: recording and counting the response extracted into a helper method", "keep", _A,
       "            self.received_responses.append(msg)\n            response_count = len(self.received_responses)", "            response_count = self._record_response(msg)"),
     V("", "keep", _A, "    def send_to_children_and_transition(self, sender, msg, expected_status, new_status):",
       "    def _record_response(self, response):\n        self.received_responses.append(response)\n        return len(self.received_responses)\n\n"
       "    def send_to_children_and_transition(self, sender, msg, expected_status, new_status):")],
    [V("H2: the extracted helper counts before it records the response", "break", _A,
       "            self.received_responses.append(msg)\n            response_count = len(self.received_responses)", "            response_count = self._record_response(msg)", "O12.1"),
     V("", "break", _A, "    def send_to_children_and_transition(self, sender, msg, expected_status, new_status):",
       "    def _record_response(self, response):\n        seen = len(self.received_responses)\n        self.received_responses.append(response)\n        return seen\n\n"
       "    def send_to_children_and_transition(self, sender, msg, expected_status, new_status):")],
    [V("H2: responses collected in an attribute with another name (consistent rename)", "keep", _A, "self.received_responses", "self.acks_so_far", count=5),
     V("", "keep", _M, "self.received_responses", "self.acks_so_far", count=2)],
    # O12.1b: the constructing routine is followed up the call graph of the class
    [V("H2: EngineStarted built by a helper that only the transition routine calls", "keep", _M, "        self.send(self.race_control, EngineStarted(self.team_revision))",
       "        self.send(self.race_control, self._engine_started())"),
     V("", "keep", _M, "    def reset_relative_time(self):\n        for m in self.children:",
       "    def _engine_started(self):\n        return EngineStarted(self.team_revision)\n\n    def reset_relative_time(self):\n        for m in self.children:")],
    [V("H2: the message-building helper is also used by the NodesStarted handler directly", "break", _M, "        self.send(self.race_control, EngineStarted(self.team_revision))",
       "        self.send(self.race_control, self._engine_started())", "O12.1b"),
     V("", "break", _M, "    def reset_relative_time(self):\n        for m in self.children:",
       "    def _engine_started(self):\n        return EngineStarted(self.team_revision)\n\n    def reset_relative_time(self):\n        for m in self.children:"),
     V("", "break", _M, "        if sender not in self.children:\n", "        self.send(self.race_control, self._engine_started())\n        if sender not in self.children:\n")],
    # O12.1c: chains through wrappers / helpers, joining and sending decided on representative dispatcher states
    [V("H2: both counts through element-preserving wrappers", "keep", _M, "            self.children = [None] * len(nodes_by_host(to_ip_port(hosts)))",
       "            self.children = [None] * len(list(nodes_by_host(to_ip_port(hosts)).keys()))"),
     V("", "keep", _M, "        for (ip, port), node in all_nodes_by_host.items():", "        for (ip, port), node in sorted(all_nodes_by_host.items()):")],
    V("H2: entry of a joined remote removed with pop(key, None)", "keep", _M, "            if remote_ip in self.remotes:\n                del self.remotes[remote_ip]\n",
      "            self.remotes.pop(remote_ip, None)\n"),
    V("H2: parked start messages drained with while / pop", "keep", _M, "        for each in self.pending:\n            self.send(*each)\n        self.pending = []\n",
      "        while self.pending:\n            node_mechanic, startmsg = self.pending.pop(0)\n            self.send(node_mechanic, startmsg)\n"),
    V("H2: drain loop that sends the first parked message only", "break", _M, "        for each in self.pending:\n            self.send(*each)\n        self.pending = []\n",
      "        while self.pending:\n            node_mechanic, startmsg = self.pending.pop(0)\n            self.send(node_mechanic, startmsg)\n            break\n", "O12.1c"),
    V("H2: start messages of a joined remote parked without a node actor of their own", "break", _M,
      "                self.pending.append((self.createActor(NodeMechanicActor, targetActorRequirements={\"ip\": remote_ip}), eachmsg))",
      "                pass\n            if self.remotes[remote_ip]:\n                self.pending.append((self.createActor(NodeMechanicActor, targetActorRequirements={\"ip\": remote_ip}), self.remotes[remote_ip][0]))",
      "O12.1c"),
    # O12.2: the flag is found by role and tests are decided for external / provisioned
    [V("H2: flag renamed and stored negated (rally_managed = not external)", "keep", _M, "        self.externally_provisioned = msg.external\n        if self.externally_provisioned:",
       "        self.rally_managed = not msg.external\n        if not self.rally_managed:"),
     V("", "keep", _M, "        if self.externally_provisioned:\n            self.on_all_nodes_stopped()", "        if not self.rally_managed:\n            self.on_all_nodes_stopped()"),
     V("", "keep", _M, "        self.externally_provisioned = False", "        self.rally_managed = True")],
    [V("H2: negated flag read with the wrong polarity at stop time", "break", _M, "        self.externally_provisioned = msg.external\n        if self.externally_provisioned:",
       "        self.rally_managed = not msg.external\n        if not self.rally_managed:", "O12."),
     V("", "break", _M, "        if self.externally_provisioned:\n            self.on_all_nodes_stopped()", "        if self.rally_managed:\n            self.on_all_nodes_stopped()"),
     V("", "break", _M, "        self.externally_provisioned = False", "        self.rally_managed = True")],
    V("H2: create() tests the external switch first", "keep", _M, "    if sources or distribution:\n        s = supplier.create(cfg, sources, distribution, car, plugins)",
      "    if external and not (sources or distribution):\n        raise exceptions.RallyAssertionError('externally provisioned')\n    if sources or distribution:\n"
      "        s = supplier.create(cfg, sources, distribution, car, plugins)"),
    # O12.3: the handler is run on a start message and every call before the acknowledgement is made to fail in turn
    [V("H2: failure reporting of StartNodes extracted into a helper", "keep", _M,
       "            self.send(getattr(msg, \"reply_to\", sender), actor.BenchmarkFailure(ex_value, traceback.format_exc()))",
       "            self._report_failure(getattr(msg, \"reply_to\", sender), ex_value)"),
     V("", "keep", _M, "    def _failure_target(self, msg, sender):",
       "    def _report_failure(self, target, cause):\n        self.send(target, actor.BenchmarkFailure(cause, traceback.format_exc()))\n\n    def _failure_target(self, msg, sender):")],
    [V("H2: the extracted failure helper only logs", "break", _M,
       "            self.send(getattr(msg, \"reply_to\", sender), actor.BenchmarkFailure(ex_value, traceback.format_exc()))",
       "            self._report_failure(getattr(msg, \"reply_to\", sender), ex_value)", "O12.3"),
     V("", "break", _M, "    def _failure_target(self, msg, sender):",
       "    def _report_failure(self, target, cause):\n        self.logger.error('start failed: %s (%s)', cause, target)\n\n    def _failure_target(self, msg, sender):")],
    V("H2: acknowledgement sent to the address stored at the start of the handler", "keep", _M, "            self.send(getattr(msg, \"reply_to\", sender), NodesStarted())",
      "            self.send(self.reply_to, NodesStarted())"),
    V("H2: acknowledgement sent to the relaying dispatcher instead of the requester", "break", _M, "            self.send(getattr(msg, \"reply_to\", sender), NodesStarted())",
      "            self.send(sender, NodesStarted())", "O12.3"),
    V("H2: narrow handler around the start of the nodes", "break", _M, "        except Exception:\n            self.logger.exception(\"Cannot process message [%s]\", msg)\n            # avoid",
      "        except exceptions.LaunchError:\n            self.logger.exception(\"Cannot process message [%s]\", msg)\n            # avoid", "O12.3"),
    # O12.4: the departure is evaluated on dispatcher states (before the daemon joined / after all have joined)
    [V("H2: departure reported through a helper, guard clause first", "keep", _M,
       "            self.send(\n                self.start_sender,\n                actor.BenchmarkFailure(\"Remote Rally node [%s] has been shutdown prematurely.\" % convmsg.remoteAdminAddress),\n            )",
       "            self._tell_requester(actor.BenchmarkFailure(\"Remote Rally node [%s] has been shutdown prematurely.\" % convmsg.remoteAdminAddress))\n            return"),
     V("", "keep", _M, "    def send_all_pending(self):", "    def _tell_requester(self, what):\n        requester = self.start_sender\n        self.send(requester, what)\n\n    def send_all_pending(self):")],
    [V("H2: the departure helper reports to the dispatcher itself", "break", _M,
       "            self.send(\n                self.start_sender,\n                actor.BenchmarkFailure(\"Remote Rally node [%s] has been shutdown prematurely.\" % convmsg.remoteAdminAddress),\n            )",
       "            self._tell_requester(actor.BenchmarkFailure(\"Remote Rally node [%s] has been shutdown prematurely.\" % convmsg.remoteAdminAddress))\n            return", "O12.4"),
     V("", "break", _M, "    def send_all_pending(self):", "    def _tell_requester(self, what):\n        self.send(self.myAddress, what)\n\n    def send_all_pending(self):")],
    # O12.5: helpers of the Mechanic are expanded; the node actor is run on StopNodes / exit requests / other messages
    [V("H2: clean-up of the installations extracted into a helper of the Mechanic", "keep", _M,
       "        for node_config in self.node_configs:\n            provisioner.cleanup(preserve=self.preserve_install, install_dir=node_config.binary_path, data_paths=node_config.data_paths)\n"
       "        self.node_configs = []\n", "        self._cleanup_installations()\n"),
     V("", "keep", _M, "    def _current_race(self):",
       "    def _cleanup_installations(self):\n        keep = self.preserve_install\n        for node_config in self.node_configs:\n"
       "            provisioner.cleanup(preserve=keep, install_dir=node_config.binary_path, data_paths=node_config.data_paths)\n        self.node_configs.clear()\n\n    def _current_race(self):")],
    [V("H2: the extracted clean-up helper runs before the metrics store is closed", "break", _M,
       "        for node_config in self.node_configs:\n            provisioner.cleanup(preserve=self.preserve_install, install_dir=node_config.binary_path, data_paths=node_config.data_paths)\n"
       "        self.node_configs = []\n", "", "O12.5"),
     V("", "break", _M, "        self.metrics_store.close()\n        self.nodes = []\n", "        self._cleanup_installations()\n        self.metrics_store.close()\n        self.nodes = []\n"),
     V("", "break", _M, "    def _current_race(self):",
       "    def _cleanup_installations(self):\n        for node_config in self.node_configs:\n"
       "            provisioner.cleanup(preserve=self.preserve_install, install_dir=node_config.binary_path, data_paths=node_config.data_paths)\n        self.node_configs = []\n\n    def _current_race(self):")],
    [V("H2: StopNodes handled by a handler of its own", "keep", _M,
       "            elif isinstance(msg, StopNodes):\n                self.mechanic.stop_engine()\n                self.send(sender, NodesStopped())\n                self.mechanic = None\n", ""),
     V("", "keep", _M, "    def receiveUnrecognizedMessage(self, msg, sender):\n        # at the moment",
       "    def receiveMsg_StopNodes(self, msg, sender):\n        try:\n            self.mechanic.stop_engine()\n            self.send(sender, NodesStopped())\n            self.mechanic = None\n"
       "        except BaseException as e:\n            self.logger.exception(\"Cannot process message [%s]\", msg)\n"
       "            self.send(self._failure_target(msg, sender), actor.BenchmarkFailure(\"Error on host %s\" % str(self.host), e))\n\n"
       "    def receiveUnrecognizedMessage(self, msg, sender):\n        # at the moment")],
    [V("H2: the StopNodes handler of its own confirms in a finally block", "break", _M,
       "            elif isinstance(msg, StopNodes):\n                self.mechanic.stop_engine()\n                self.send(sender, NodesStopped())\n                self.mechanic = None\n", "", "O12.5"),
     V("", "break", _M, "    def receiveUnrecognizedMessage(self, msg, sender):\n        # at the moment",
       "    def receiveMsg_StopNodes(self, msg, sender):\n        try:\n            self.mechanic.stop_engine()\n            self.mechanic = None\n"
       "        except BaseException as e:\n            self.logger.exception(\"Cannot process message [%s]\", msg)\n"
       "            self.send(self._failure_target(msg, sender), actor.BenchmarkFailure(\"Error on host %s\" % str(self.host), e))\n        finally:\n            self.send(sender, NodesStopped())\n\n"
       "    def receiveUnrecognizedMessage(self, msg, sender):\n        # at the moment")],
    V("H2: attribute of the node actor that holds the mechanic renamed", "keep", _M, "self.mechanic", "self.node_mechanic", count=12),
    # O12.6 / O12.7: per-node helper of a launcher, roll-back helper
    V("H2: per-node shutdown of the Docker launcher extracted into a helper", "keep", _L,
      "            self.logger.info(\"Stopping node [%s].\", node.node_name)\n            if metrics_store:\n                telemetry.add_metadata_for_node(metrics_store, node.node_name, node.host_name)\n"
      "            node.telemetry.detach_from_node(node, running=True)\n            process.run_subprocess_with_logging(self._docker_compose(node.binary_path, \"down\"))\n"
      "            node.telemetry.detach_from_node(node, running=False)\n            if metrics_store:\n                node.telemetry.store_system_metrics(node, metrics_store)\n",
      "            self._stop_node(node, metrics_store)\n\n    def _stop_node(self, node, store):\n        self.logger.info(\"Stopping node [%s].\", node.node_name)\n        if store is not None:\n"
      "            telemetry.add_metadata_for_node(store, node.node_name, node.host_name)\n        node.telemetry.detach_from_node(node, running=True)\n"
      "        process.run_subprocess_with_logging(self._docker_compose(node.binary_path, \"down\"))\n        node.telemetry.detach_from_node(node, running=False)\n"
      "        if store is not None:\n            node.telemetry.store_system_metrics(node, store)\n"),
    V("H2: the extracted per-node helper returns early for a node without a binary path", "break", _L,
      "            self.logger.info(\"Stopping node [%s].\", node.node_name)\n            if metrics_store:\n                telemetry.add_metadata_for_node(metrics_store, node.node_name, node.host_name)\n"
      "            node.telemetry.detach_from_node(node, running=True)\n            process.run_subprocess_with_logging(self._docker_compose(node.binary_path, \"down\"))\n"
      "            node.telemetry.detach_from_node(node, running=False)\n            if metrics_store:\n                node.telemetry.store_system_metrics(node, metrics_store)\n",
      "            self._stop_node(node, metrics_store)\n\n    def _stop_node(self, node, store):\n        self.logger.info(\"Stopping node [%s].\", node.node_name)\n"
      "        if not node.binary_path:\n            return\n        node.telemetry.detach_from_node(node, running=True)\n"
      "        process.run_subprocess_with_logging(self._docker_compose(node.binary_path, \"down\"))\n        node.telemetry.detach_from_node(node, running=False)\n"
      "        if store is not None:\n            node.telemetry.store_system_metrics(node, store)\n", "O12.6"),
    [V("H2: roll-back of the started nodes extracted into a helper of the launcher", "keep", _L,
       "                nodes.append(node)\n        except BaseException:\n            # all or nothing: the caller only learns about the nodes if all of them have started, so stop the ones that already run\n"
       "            self.stop(nodes, None)\n            raise\n", "                nodes.append(node)\n        except BaseException:\n            self._roll_back(nodes)\n            raise\n"),
     V("", "keep", _L, "    def _docker_compose(self, compose_config, cmd):",
       "    def _roll_back(self, started):\n        self.logger.warning('stopping the nodes already started')\n        self.stop(started, None)\n\n    def _docker_compose(self, compose_config, cmd):")],
    [V("H2: the roll-back helper only stops something when asked to", "break", _L,
       "                nodes.append(node)\n        except BaseException:\n            # all or nothing: the caller only learns about the nodes if all of them have started, so stop the ones that already run\n"
       "            self.stop(nodes, None)\n            raise\n", "                nodes.append(node)\n        except BaseException:\n            self._roll_back(nodes)\n            raise\n", "O12.7"),
     V("", "break", _L, "    def _docker_compose(self, compose_config, cmd):",
       "    def _roll_back(self, started, force=False):\n        if force:\n            self.stop(started, None)\n\n    def _docker_compose(self, compose_config, cmd):")],
    # ---- hardening round 3: the work of a handler is looked up (table of bound methods / names, dict keyed by the class, match statement, lambdas, functions of the module handed
    # the actor) instead of being spelt out in an if-chain. The simulation follows routines that are VALUES; a negative verdict drawn from a trace in which an unknown value was
    # called is "not recognised".
    [V("H3: isinstance chain replaced by an ordered table of (message type, bound handler) returned by a helper", "keep", _M, _H3_CHAIN, _H3_LOOP),
     V("", "keep", _M, _H3_ANCHOR, _H3_ROUTINES + _H3_TABLE + _H3_ANCHOR)],
    [V("H3: table of bound handlers, the exit-request handler stops without looking at the mechanic reference", "break", _M, _H3_CHAIN, _H3_LOOP, "O12.5"),
     V("", "break", _M, _H3_ANCHOR, _H3_ROUTINES.replace("    def _on_actor_exit_request(self, msg, sender):\n        if self.mechanic:\n            self.mechanic.stop_engine()\n            self.mechanic = None\n",
                                                         "    def _on_actor_exit_request(self, msg, sender):\n        self.mechanic.stop_engine()\n        self.mechanic = None\n")
       + _H3_TABLE + _H3_ANCHOR)],
    [V("H3: table of bound handlers, the StopNodes handler confirms before it stops the nodes", "break", _M, _H3_CHAIN, _H3_LOOP, "O12.5"),
     V("", "break", _M, _H3_ANCHOR, _H3_ROUTINES.replace("        self.mechanic.stop_engine()\n        self.send(sender, NodesStopped())\n", "        self.send(sender, NodesStopped())\n        self.mechanic.stop_engine()\n")
       + _H3_TABLE + _H3_ANCHOR)],
    [V("H3: dict keyed by the class of the message, looked up with .get(type(msg))", "keep", _M, _H3_CHAIN,
       "            handlers = {\n                ResetRelativeTime: self._on_reset_relative_time,\n                thespian.actors.WakeupMessage: self._on_wakeup,\n"
       "                StopNodes: self._on_stop_nodes,\n                thespian.actors.ActorExitRequest: self._on_actor_exit_request,\n            }\n"
       "            handler = handlers.get(type(msg))\n            if handler is not None:\n                handler(msg, sender)\n"),
     V("", "keep", _M, _H3_ANCHOR, _H3_ROUTINES + _H3_ANCHOR)],
    V("H3: match statement over the class of the message", "keep", _M, _H3_CHAIN,
      "            match msg:\n                case ResetRelativeTime() if self.mechanic:\n                    self.mechanic.reset_relative_time()\n"
      "                case thespian.actors.WakeupMessage() if self.mechanic:\n                    self.mechanic.flush_metrics()\n                    self.wakeupAfter(METRIC_FLUSH_INTERVAL_SECONDS)\n"
      "                case StopNodes():\n                    self.mechanic.stop_engine()\n                    self.send(sender, NodesStopped())\n                    self.mechanic = None\n"
      "                case thespian.actors.ActorExitRequest():\n                    if self.mechanic:\n                        self.mechanic.stop_engine()\n                        self.mechanic = None\n"),
    V("H3: match statement, the StopNodes case keeps the mechanic reference (the exit request stops the nodes again)", "break", _M, _H3_CHAIN,
      "            match msg:\n                case ResetRelativeTime() if self.mechanic:\n                    self.mechanic.reset_relative_time()\n"
      "                case thespian.actors.WakeupMessage() if self.mechanic:\n                    self.mechanic.flush_metrics()\n                    self.wakeupAfter(METRIC_FLUSH_INTERVAL_SECONDS)\n"
      "                case StopNodes():\n                    self.mechanic.stop_engine()\n                    self.send(sender, NodesStopped())\n"
      "                case thespian.actors.ActorExitRequest():\n                    if self.mechanic:\n                        self.mechanic.stop_engine()\n                        self.mechanic = None\n", "O12.5"),
    [V("H3: table of (message type, method name) at module level, resolved with getattr", "keep", _M, _H3_CHAIN,
       "            for msg_type, handler_name in _NODE_MESSAGE_HANDLERS:\n                if isinstance(msg, msg_type):\n                    getattr(self, handler_name)(msg, sender)\n                    break\n"),
     V("", "keep", _M, _H3_ANCHOR, _H3_ROUTINES + _H3_ANCHOR),
     V("", "keep", _M, "class NodeMechanicActor(actor.RallyActor):\n",
       "_NODE_MESSAGE_HANDLERS = (\n    (ResetRelativeTime, \"_on_reset_relative_time\"),\n    (thespian.actors.WakeupMessage, \"_on_wakeup\"),\n    (StopNodes, \"_on_stop_nodes\"),\n"
       "    (thespian.actors.ActorExitRequest, \"_on_actor_exit_request\"),\n)\n\n\nclass NodeMechanicActor(actor.RallyActor):\n")],
    [V("H3: lambdas and a local function in a table, the first match taken with next(<generator>)", "keep", _M, _H3_CHAIN,
       "            def stop_nodes():\n                self.mechanic.stop_engine()\n                self.send(sender, NodesStopped())\n                self.mechanic = None\n\n"
       "            actions = [\n                (ResetRelativeTime, lambda: self.mechanic and self.mechanic.reset_relative_time()),\n"
       "                (thespian.actors.WakeupMessage, lambda: self.mechanic and self._on_wakeup(msg, sender)),\n                (StopNodes, stop_nodes),\n"
       "                (thespian.actors.ActorExitRequest, lambda: self._on_actor_exit_request(msg, sender)),\n            ]\n"
       "            action = next((a for t, a in actions if isinstance(msg, t)), None)\n            if action:\n                action()\n"),
     V("", "keep", _M, _H3_ANCHOR, _H3_ROUTINES + _H3_ANCHOR)],
    [V("H3: stopping and confirming moved into a function of the module that is handed the actor", "keep", _M, _H3_CHAIN, _H3_MODFUNC_CHAIN),
     V("", "keep", _M, "class NodeMechanicActor(actor.RallyActor):\n",
       "def _stop_nodes(node_actor, confirm_to=None):\n    node_actor.mechanic.stop_engine()\n    if confirm_to is not None:\n        node_actor.send(confirm_to, NodesStopped())\n"
       "    node_actor.mechanic = None\n\n\nclass NodeMechanicActor(actor.RallyActor):\n")],
    [V("H3: the module-level stop function confirms in a finally block", "break", _M, _H3_CHAIN, _H3_MODFUNC_CHAIN, "O12.5"),
     V("", "break", _M, "class NodeMechanicActor(actor.RallyActor):\n",
       "def _stop_nodes(node_actor, confirm_to=None):\n    try:\n        node_actor.mechanic.stop_engine()\n        node_actor.mechanic = None\n    finally:\n        if confirm_to is not None:\n"
       "            node_actor.send(confirm_to, NodesStopped())\n\n\nclass NodeMechanicActor(actor.RallyActor):\n")],
    V("H3: reaction to an exited child looked up by status in a dict of bound methods", "keep", _M, _H3_CHILD_EXIT,
      "        benign = dict.fromkeys((\"cluster_stopping\", \"cluster_stopped\"), self._child_exit_expected)\n        benign.get(self.status, self._child_exit_unexpected)(msg)\n\n" + _H3_CHILD_EXIT_ROUTINES),
    V("H3: the status table treats an exit while the nodes are starting as expected", "break", _M, _H3_CHILD_EXIT,
      "        benign = {s: self._child_exit_expected for s in (\"starting\", \"cluster_stopping\", \"cluster_stopped\")}\n        benign.get(self.status, self._child_exit_unexpected)(msg)\n\n"
      + _H3_CHILD_EXIT_ROUTINES, "O12.4c"),
    V("H3: an exit while the nodes are starting is dropped in front of a table the simulation cannot evaluate", "break", _M, _H3_CHILD_EXIT,
      "        if self.status == \"starting\":\n            return\n        actor.CHILD_EXIT_REACTIONS.get(self.status, actor.report_child_exit)(self, msg)\n", "O12.4c"),
    V("H3: convention update dispatched on remoteAdded through a dict of bound methods, node actors created by a lambda", "keep", _M, _H3_CONV_BODY,
      "        {True: self._remote_joined, False: self._remote_left}[bool(convmsg.remoteAdded)](convmsg)\n\n" + _H3_CONV_ROUTINES),
    V("H3: the departure routine of the dict dispatch only logs", "break", _M, _H3_CONV_BODY,
      "        {True: self._remote_joined, False: self._remote_left}[bool(convmsg.remoteAdded)](convmsg)\n\n"
      + _H3_CONV_ROUTINES.replace("        self.send(\n            self.start_sender,\n            actor.BenchmarkFailure(\"Remote Rally node [%s] has been shutdown prematurely.\" % convmsg.remoteAdminAddress),\n        )\n", ""),
      "O12.4"),
    [V("H3: the external flag is stored as a constant in each arm of a test over the field of the start message", "keep", _M,
       "        self.externally_provisioned = msg.external\n        if self.externally_provisioned:\n", "        if msg.external:\n            self.externally_provisioned = True\n"),
     V("", "keep", _M, "            console.info(\"Preparing for race ...\", flush=True)\n", "            self.externally_provisioned = False\n            console.info(\"Preparing for race ...\", flush=True)\n")],
    V("H3: constant flag stored in the external arm only (a provisioned start after an external one keeps it)", "break", _M,
      "        self.externally_provisioned = msg.external\n        if self.externally_provisioned:\n", "        if msg.external:\n            self.externally_provisioned = True\n", "O12.2"),
    [V("H3: constants in the two arms stored the wrong way round", "break", _M,
       "        self.externally_provisioned = msg.external\n        if self.externally_provisioned:\n", "        if msg.external:\n            self.externally_provisioned = False\n", "O12."),
     V("", "break", _M, "            console.info(\"Preparing for race ...\", flush=True)\n", "            self.externally_provisioned = True\n            console.info(\"Preparing for race ...\", flush=True)\n")],
    V("H3: the flag accumulates over starts (flag = flag or msg.external)", "break", _M, "        self.externally_provisioned = msg.external\n",
      "        self.externally_provisioned = self.externally_provisioned or msg.external\n", "O12.2"),
    V("H3: stop routine chosen by a conditional expression (StopNodes is built in the arm an external cluster does not take)", "keep", _M,
      "        if self.externally_provisioned:\n            self.on_all_nodes_stopped()\n        else:\n            self.send_to_children_and_transition(sender, StopNodes(), [], \"cluster_stopping\")\n",
      "        self.on_all_nodes_stopped() if self.externally_provisioned else self.send_to_children_and_transition(sender, StopNodes(), [], \"cluster_stopping\")\n"),
    V("H3: conditional expression with the arms the wrong way round", "break", _M,
      "        if self.externally_provisioned:\n            self.on_all_nodes_stopped()\n        else:\n            self.send_to_children_and_transition(sender, StopNodes(), [], \"cluster_stopping\")\n",
      "        self.send_to_children_and_transition(sender, StopNodes(), [], \"cluster_stopping\") if self.externally_provisioned else self.on_all_nodes_stopped()\n", "O12."),
    V("H3: swap-and-clear with a parallel assignment, the clean-up loop runs over the saved list", "keep", _M, _H3_STOP_TAIL,
      "        self.metrics_store.close()\n        stopped_configs, self.node_configs, self.nodes = self.node_configs, [], []\n        for node_config in stopped_configs:\n"
      "            provisioner.cleanup(preserve=self.preserve_install, install_dir=node_config.binary_path, data_paths=node_config.data_paths)\n"),
    V("H3: swap-and-clear, but the clean-up loop runs over the attribute that was just emptied", "break", _M, _H3_STOP_TAIL,
      "        self.metrics_store.close()\n        stopped_configs, self.node_configs, self.nodes = self.node_configs, [], []\n        for node_config in self.node_configs:\n"
      "            provisioner.cleanup(preserve=self.preserve_install, install_dir=node_config.binary_path, data_paths=node_config.data_paths)\n", "O12.5"),
    V("H3: the list of nodes is emptied before the launcher is asked to stop them", "break", _M, "        self.launcher.stop(self.nodes, self.metrics_store)\n        self.flush_metrics(refresh=True)\n",
      "        nodes, self.nodes = self.nodes, []\n        self.launcher.stop(self.nodes, self.metrics_store)\n        self.flush_metrics(refresh=True)\n", "O12.5"),
    [V("H3: storing of the system metrics extracted into a helper whose handler returns early (try / except-return, then the loop)", "keep", _M, _H3_STORE_RESULTS,
       "        self._store_system_metrics()\n\n        self.metrics_store.close()\n"),
     V("", "keep", _M, "    def _current_race(self):\n", _H3_STORE_HELPER + "    def _current_race(self):\n")],
    [V("H3: the extracted storing helper runs after the metrics store was closed", "break", _M, _H3_STORE_RESULTS,
       "        self.metrics_store.close()\n        self._store_system_metrics()\n", "O12.5"),
     V("", "break", _M, "    def _current_race(self):\n", _H3_STORE_HELPER + "    def _current_race(self):\n")],
    V("H3: stop_engine flushes the metrics store directly and relies on its default (refresh=True)", "keep", _M, "        self.flush_metrics(refresh=True)\n        try:\n            current_race",
      "        self.metrics_store.flush()\n        try:\n            current_race"),
    V("H3: stop_engine relies on the default of Mechanic.flush_metrics (refresh=False)", "break", _M, "        self.flush_metrics(refresh=True)\n        try:\n            current_race",
      "        self.flush_metrics()\n        try:\n            current_race", "O12.5"),
    [V("H3: presence of the metrics store spelt as a value test (bool(...) is True, != None)", "keep", _L,
       "            if metrics_store:\n                node.telemetry.store_system_metrics(node, metrics_store)\n\n\ndef wait_for_pidfile",
       "            if bool(metrics_store) is True:\n                node.telemetry.store_system_metrics(node, metrics_store)\n\n\ndef wait_for_pidfile"),
     V("", "keep", _L, "            if metrics_store:\n                node.telemetry.store_system_metrics(node, metrics_store)\n        return stopped_nodes",
       "            if metrics_store != None:\n                node.telemetry.store_system_metrics(node, metrics_store)\n        return stopped_nodes")],
    V("H3: value test over the store that holds when it is absent", "break", _L,
      "            if metrics_store:\n                node.telemetry.store_system_metrics(node, metrics_store)\n        return stopped_nodes",
      "            if metrics_store == None:\n                node.telemetry.store_system_metrics(node, metrics_store)\n        return stopped_nodes", "O12.6"),
    V("H3: the acknowledgement goes to msg.reply_to (the dispatcher always stamps it)", "keep", _M, "            self.send(getattr(msg, \"reply_to\", sender), NodesStarted())",
      "            self.send(msg.reply_to, NodesStarted())"),
    [V("H3: failure reporting of StartNodes through a local function defined in front of the try", "keep", _M,
       "        try:\n            self.host = msg.ip\n            self.reply_to = getattr(msg, \"reply_to\", sender)\n",
       "        def report_failure():\n            _, ex_value, _ = sys.exc_info()\n            self.send(getattr(msg, \"reply_to\", sender), actor.BenchmarkFailure(ex_value, traceback.format_exc()))\n\n"
       "        try:\n            self.host = msg.ip\n            self.reply_to = getattr(msg, \"reply_to\", sender)\n"),
     V("", "keep", _M, "            self.logger.exception(\"Cannot process message [%s]\", msg)\n            # avoid \"can't pickle traceback objects\"\n            _, ex_value, _ = sys.exc_info()\n"
       "            self.send(getattr(msg, \"reply_to\", sender), actor.BenchmarkFailure(ex_value, traceback.format_exc()))\n",
       "            self.logger.exception(\"Cannot process message [%s]\", msg)\n            report_failure()\n")],
]

# round 6 (C12-m16, C12-m18): shared texts
_SE_OLD = ("        self.node_configs = []\n        for p in self.provisioners:\n            self.node_configs.append(p.prepare(binaries))\n"
           "        self.nodes = self.launcher.start(self.node_configs)\n")
_PL_STORE_OLD = ("            # store system metrics in any case (telemetry devices may derive system metrics while the node is running)\n            if metrics_store:\n"
                 "                node.telemetry.store_system_metrics(node, metrics_store)")
_PL_STORE_COMMENT = "            # store system metrics in any case (telemetry devices may derive system metrics while the node is running)\n"

VARIANTS += [
    # C12-m16: what has been provisioned is recorded where stop_engine cleans up, before anything else can fail (O12.8)
    V("m16: start_engine records the node configurations only after the launch has succeeded", "break", _M, _SE_OLD,
      "        node_configs = [p.prepare(binaries) for p in self.provisioners]\n        self.nodes = self.launcher.start(node_configs)\n        self.node_configs = node_configs\n", "O12.8"),
    V("m16: the node configurations are assigned as one comprehension (a later prepare() fails: the earlier installation is unknown to the stop)", "break", _M, _SE_OLD,
      "        self.node_configs = [p.prepare(binaries) for p in self.provisioners]\n        self.nodes = self.launcher.start(self.node_configs)\n", "O12.8"),
    V("m16: start_engine forgets the node configurations when the launch fails", "break", _M, _SE_OLD,
      "        self.node_configs = []\n        for p in self.provisioners:\n            self.node_configs.append(p.prepare(binaries))\n"
      "        try:\n            self.nodes = self.launcher.start(self.node_configs)\n        except BaseException:\n            self.node_configs = []\n            raise\n", "O12.8"),
    V("m16: the configurations are collected through a local alias of the attribute", "keep", _M, _SE_OLD,
      "        configs = []\n        self.node_configs = configs\n        for node_provisioner in self.provisioners:\n            config = node_provisioner.prepare(binaries)\n"
      "            configs.append(config)\n        self.nodes = self.launcher.start(configs)\n"),
    V("m16: the attribute is extended one configuration at a time", "keep", _M, _SE_OLD,
      "        self.node_configs = []\n        for p in self.provisioners:\n            self.node_configs += [p.prepare(binaries)]\n"
      "        self.nodes = self.launcher.start(list(self.node_configs))\n"),
    # C12-m18: stop() without a store (roll-back of a failed start) must reach every node (O12.9)
    V("m18: ProcessLauncher.stop stores system metrics unconditionally (None is dereferenced in the roll-back)", "break", _L, _PL_STORE_OLD,
      _PL_STORE_COMMENT + "            node.telemetry.store_system_metrics(node, metrics_store)", "O12.9"),
    V("m18: DockerLauncher.stop adds the node meta-data unconditionally", "break", _L,
      "            if metrics_store:\n                telemetry.add_metadata_for_node(metrics_store, node.node_name, node.host_name)\n",
      "            telemetry.add_metadata_for_node(metrics_store, node.node_name, node.host_name)\n", "O12.9"),
    V("m18: ProcessLauncher.stop flushes the store after every node without asking whether there is one", "break", _L, _PL_STORE_OLD,
      _PL_STORE_OLD + "\n            metrics_store.flush(refresh=False)", "O12.9"),
    V("m18: presence of the store tested as a guard clause at the end of the loop body", "keep", _L, _PL_STORE_OLD,
      _PL_STORE_COMMENT + "            if metrics_store is None:\n                continue\n            node.telemetry.store_system_metrics(node, metrics_store)"),
    [V("m18: the presence test moves into Telemetry.store_system_metrics", "keep", _L, _PL_STORE_OLD,
       _PL_STORE_COMMENT + "            node.telemetry.store_system_metrics(node, metrics_store)"),
     V("", "keep", "esrally/telemetry.py", "    def store_system_metrics(self, node, metrics_store):\n        for device in self.devices:\n",
       "    def store_system_metrics(self, node, metrics_store):\n        if metrics_store is None:\n            return\n        for device in self.devices:\n")],
]

# launch result held in a local before it is recorded (O12.5 / O12.6 / O12.7 / O12.8 roles found through the local)
VARIANTS += [
    V("launch result bound to a local before it is recorded in self.nodes", "keep", _M,
      "        self.nodes = self.launcher.start(self.node_configs)\n",
      "        started = self.launcher.start(self.node_configs)\n        self.nodes = started\n"),
]
