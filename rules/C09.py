"""C09 — any failure or cancellation ends the race as failed, never as success (DESIGN.md section 4, C09)."""
from __future__ import annotations

import ast

from sa import pat, source
from sa.cfg import cfg_of, guards, holds
from sa.classes import ActorModel, FAILURE_MESSAGES, handler_guard, is_failure_send, is_logging_call, is_logging_stmt, no_retry_is_sound
from sa.source import AnchorMissing, dotted, is_self_attr, last_attr, loc, params_of, short, u, walk_body
from sa.minieval import CannotEval, Record, ev as _ev
from sa.sym import UnknownAtom, truth_table
from sa.tables import decide as _decide, Unsupported as _Uns

RESULT_CALLS = {"calculate_results", "add_results", "store_results", "summarize"}

# O9.2 frozen exception table (one reason each)
UNGUARDED_OK = {
    ("MechanicActor", "receiveMsg_WakeupMessage"): "raises only on a payload this class never sends (checked below: the only "
    "wakeupAfter(payload=...) of the class passes the constant the handler compares with)",
}


def payload_type(model, call: ast.Call, handler_msg: dict):
    """Message class name of a send payload: constructor call, or the enclosing handler's own message parameter."""
    if len(call.args) < 2:
        return None
    p = call.args[1]
    if isinstance(p, ast.Call):
        return last_attr(p.func)
    if isinstance(p, ast.Name):
        f = source.enclosing_func(call)
        if f is not None and id(f) in handler_msg and handler_msg[id(f)][0] == p.id:
            return handler_msg[id(f)][1]
        # local assigned from a constructor in the same function
        if f is not None:
            for n in walk_body(f):
                if isinstance(n, ast.Assign) and len(n.targets) == 1 and isinstance(n.targets[0], ast.Name) and n.targets[0].id == p.id:
                    if isinstance(n.value, ast.Call):
                        return last_attr(n.value.func)
    return None


def _log_noise(c: ast.AST) -> bool:
    """A logging call, or the `logging.getLogger(...)` call that is the receiver of one (its arguments are NOT exempt)."""
    if is_logging_call(c):
        return True
    p = source.parent(c)
    return isinstance(c, ast.Call) and dotted(c.func) == "logging.getLogger" and isinstance(p, ast.Attribute) and p.value is c and is_logging_call(source.parent(p))


def _created_actor_locals(func) -> set:
    """Locals of func whose every binding is the result of a createActor(...) call (an actor address by construction)."""
    good, bad = set(), set()
    if func is None:
        return good
    for n in walk_body(func):
        if isinstance(n, ast.Name) and isinstance(n.ctx, (ast.Store, ast.Del)):
            p = source.parent(n)
            if isinstance(p, ast.Assign) and len(p.targets) == 1 and p.targets[0] is n and isinstance(p.value, ast.Call) and last_attr(p.value.func) == "createActor":
                good.add(n.id)
            else:
                bad.add(n.id)
    return good - bad


def send_target_ok(call: ast.Call, addr_attrs: set, func) -> bool:
    """Target of a send sink is an address attribute, the sender parameter, a local bound only to createActor(...) results, or getattr(msg, 'reply_to', sender)."""
    if not call.args:
        return False
    t = call.args[0]
    ps = params_of(func) if func is not None else []
    sender = ps[2] if len(ps) >= 3 else None
    if is_self_attr(t) and t.attr in addr_attrs:
        return True
    if isinstance(t, ast.Name) and (t.id == sender or t.id in _created_actor_locals(func)):
        return True
    if isinstance(t, ast.Name) and t.id == "sender" and any(isinstance(f_, source.FUNC_TYPES) and "sender" in params_of(f_) for f_ in source.ancestors(call)):
        return True  # a parameter named sender (of the function or of the handler a nested function closes over)
    if isinstance(t, ast.Call) and dotted(t.func) == "getattr" and len(t.args) == 3:
        return source.is_const(t.args[1], "reply_to") and isinstance(t.args[2], ast.Name)
    if isinstance(t, ast.Call) and is_self_attr(t.func) and func is not None:
        # the target is chosen by a helper method of the class: every value it can return is an address (an address attribute, or one of its parameters / reply_to of one
        # of its parameters where the caller passes an address or the message)
        cls = source.enclosing_class(func)
        helper = next((m for m in (cls.body if cls is not None else []) if isinstance(m, source.FUNC_TYPES) and m.name == t.func.attr), None)
        if helper is None:
            return False
        bound = source.bind_args(t, helper)
        hps = [p_ for p_ in params_of(helper) if p_ != "self"]
        defs = source.local_defs(helper)

        def addr_like(e, depth=0, none_ok=False):
            if depth > 6:
                return False
            if is_self_attr(e) and (e.attr in addr_attrs or e.attr == "myAddress"):
                return True
            if isinstance(e, ast.Name) and e.id in defs:
                return addr_like(defs[e.id], depth + 1)
            if isinstance(e, ast.Name) and e.id in hps:
                a_ = bound.get(e.id)
                return isinstance(a_, ast.Name) and (a_.id == sender or a_.id == "sender")
            if isinstance(e, ast.Call) and dotted(e.func) == "getattr" and len(e.args) == 3 and source.is_const(e.args[1], "reply_to"):
                return addr_like(e.args[2], depth + 1) or (none_ok and source.is_const(e.args[2]) and e.args[2].value is None)
            if isinstance(e, ast.IfExp):
                return addr_like(e.body, depth + 1) and addr_like(e.orelse, depth + 1)
            if isinstance(e, ast.BoolOp) and isinstance(e.op, ast.Or):
                # `a or b or c`: an absent (None) address falls through to the next operand; the last one must be an address
                return all(addr_like(v_, depth + 1, none_ok=True) for v_ in e.values[:-1]) and addr_like(e.values[-1], depth + 1)
            if isinstance(e, ast.BoolOp):
                return all(addr_like(v_, depth + 1) for v_ in e.values)
            return False

        rets = [n for n in walk_body(helper) if isinstance(n, ast.Return)]

        def ret_ok(r_):
            v_ = r_.value
            if v_ is None:
                return False
            if addr_like(v_):
                return True
            # `x = getattr(msg, "reply_to", None)` returned only where x is known to be set (`if x: return x`)
            return isinstance(v_, ast.Name) and v_.id in defs and addr_like(defs[v_.id], none_ok=True) and any(isinstance(f_, ast.Name) and f_.id == v_.id for f_ in pat.fact_nodes(r_))

        return bool(rets) and all(ret_ok(r_) for r_ in rets)
    return False


class _NoValue(Exception):
    pass


_NO_REPLY_TO = object()  # stands for a message that has no reply_to attribute (a wake-up)


def _address_value(e, env, cls, depth=0):
    """Value of an address expression in a scenario: names from env, self.myAddress = 'SELF', any other self.<x> = 'ADDR:<x>' (a set address attribute),
    getattr(<message without reply_to>, 'reply_to', d) = d, helper methods of the class interpreted (straight-line code, if / conditional expressions on ==, !=, and, or, not)."""
    if depth > 8:
        raise _NoValue("helper nesting")
    if isinstance(e, ast.Name):
        if e.id in env:
            return env[e.id]
        raise _NoValue(f"name {e.id}")
    if isinstance(e, ast.Constant):
        return e.value
    if is_self_attr(e):
        return "SELF" if e.attr == "myAddress" else env.get(f"self.{e.attr}", f"ADDR:{e.attr}")
    if isinstance(e, ast.Call) and dotted(e.func) == "getattr" and len(e.args) == 3 and isinstance(e.args[1], ast.Constant):
        obj = _address_value(e.args[0], env, cls, depth + 1)
        if obj is _NO_REPLY_TO:
            return _address_value(e.args[2], env, cls, depth + 1)
        raise _NoValue("getattr on a value the scenario does not fix")
    if isinstance(e, ast.IfExp):
        return _address_value(e.body if _address_value(e.test, env, cls, depth + 1) else e.orelse, env, cls, depth + 1)
    if isinstance(e, ast.BoolOp):
        v = None
        for x in e.values:
            v = _address_value(x, env, cls, depth + 1)
            if (isinstance(e.op, ast.And) and not v) or (isinstance(e.op, ast.Or) and v):
                return v
        return v
    if isinstance(e, ast.UnaryOp) and isinstance(e.op, ast.Not):
        return not _address_value(e.operand, env, cls, depth + 1)
    if isinstance(e, ast.Compare) and len(e.ops) == 1 and isinstance(e.ops[0], (ast.Eq, ast.NotEq, ast.Is, ast.IsNot)):
        a_, b_ = _address_value(e.left, env, cls, depth + 1), _address_value(e.comparators[0], env, cls, depth + 1)
        same = a_ is b_ if a_ is None or b_ is None or a_ is _NO_REPLY_TO or b_ is _NO_REPLY_TO else a_ == b_
        return same if isinstance(e.ops[0], (ast.Eq, ast.Is)) else not same
    if isinstance(e, ast.Call) and is_self_attr(e.func):
        helper = next((m for m in cls.body if isinstance(m, source.FUNC_TYPES) and m.name == e.func.attr), None)
        if helper is None:
            raise _NoValue(f"method {e.func.attr}")
        henv = {k: _address_value(v, env, cls, depth + 1) for k, v in source.bind_args(e, helper).items()}
        henv.update({k: v for k, v in env.items() if k.startswith("self.")})

        def run(stmts):
            for st in stmts:
                if isinstance(st, ast.Return):
                    return ("ret", None if st.value is None else _address_value(st.value, henv, cls, depth + 1))
                if isinstance(st, ast.Assign) and len(st.targets) == 1 and isinstance(st.targets[0], ast.Name):
                    henv[st.targets[0].id] = _address_value(st.value, henv, cls, depth + 1)
                elif isinstance(st, ast.If):
                    r = run(st.body if _address_value(st.test, henv, cls, depth + 1) else st.orelse)
                    if r is not None:
                        return r
                elif is_logging_stmt(st) or (isinstance(st, ast.Expr) and isinstance(st.value, ast.Constant)):
                    continue
                else:
                    raise _NoValue(f"statement {type(st).__name__} in {helper.name}")
            return None

        r = run(helper.body)
        if r is None:
            raise _NoValue(f"{helper.name} does not return")
        return r[1]
    raise _NoValue(f"expression {type(e).__name__}")


def _truthy_edge(test: ast.AST, var: str):
    """CFG edge label ('true' / 'false') an `if test:` takes when local `var` holds an exception object, provided the test decides on var alone
    (the other value, None, takes the other edge); None if the test is not such a decision."""
    def val(v):
        try:
            return bool(_ev(test, {var: v}))
        except Exception:  # CannotEval, or a Python error on the stand-in value: not a decision this evaluator understands
            return None
    a, b = val(Record(exception=True)), val(None)
    if a is None or b is None or a == b:
        return None
    return "true" if a else "false"


def run(chk):
    repo = chk.repo
    model = ActorModel(repo)
    actor_mod = repo.module("esrally/actor.py")
    drv = repo.module("esrally/driver/driver.py")
    rc = repo.module("esrally/racecontrol.py")
    mech = repo.module("esrally/mechanic/mechanic.py")
    chk.use(actor_mod, drv, rc, mech)
    chk.explanation = (
        "Decides the error-discipline skeleton of C09 statically: the no_retry guard, guardedness of all work handlers, the "
        "failure forwarding chain to race control, that every failure/cancel message constructed is actually sent to an address, "
        "that executor failures are polled and sent, that results are computed/stored/printed only under (not cancelled and not error), "
        "and that Success is only reachable through BenchmarkComplete."
    )
    chk.not_decided = "worker process death detection by Thespian, timing ('bounded time'), faults inside Thespian, message loss."

    if len(model.actors) < 8:
        raise AnchorMissing(f"expected >= 8 RallyActor subclasses, found {len(model.actors)}")

    # ---- O9.1 ------------------------------------------------------------------------------------
    chk.rule("O9.1", "actor.no_retry wraps the handler in try/except BaseException and unconditionally sends BenchmarkFailure to sender", 1,
             "any handler raising: Thespian would retry once and drop it, race control never hears")
    ok, detail, node = no_retry_is_sound(repo)
    chk.ob("O9.1", "actor.no_retry", ok, node, detail)

    # ---- O9.2 ------------------------------------------------------------------------------------
    chk.rule("O9.2", "every work handler receiveMsg_<T> (T a package message class or WakeupMessage; plus NodeMechanicActor.receiveUnrecognizedMessage) "
             "is guarded by no_retry or a whole-body try whose (Base)Exception arm sends BenchmarkFailure", 30,
             "an exception in that handler (param source / runner setup / metrics store failure) is swallowed by Thespian: no failure notification")
    for a in model.actors:
        for hname, f in model.handlers(a).items():
            if hname == "receiveUnrecognizedMessage":
                # only a handler that dispatches package messages by isinstance is a work handler
                tests = [n for n in walk_body(f) if isinstance(n, ast.Call) and dotted(n.func) == "isinstance" and len(n.args) == 2
                         and model.is_package_message(last_attr(n.args[1]) or "")]
                if not tests:
                    continue
            else:
                t = hname[len("receiveMsg_"):]
                if t in FAILURE_MESSAGES:
                    continue
                if not (model.is_package_message(t) or t == "WakeupMessage"):
                    continue
            g = handler_guard(f)
            inst = f"{a.name}.{hname}"
            if g is None and (a.name, hname) in UNGUARDED_OK:
                # verify the reason: the handler raises only in the else-arm of a payload comparison with a class constant, and the
                # class's only wakeupAfter(payload=...) uses that constant
                consts = set()
                for n in walk_body(f):
                    if isinstance(n, ast.Compare) and len(n.ops) == 1 and isinstance(n.ops[0], (ast.Eq, ast.NotEq)):
                        for side in (n.left, n.comparators[0]):
                            if isinstance(side, ast.Attribute) and dotted(side) and dotted(side).startswith(a.name + "."):
                                consts.add(dotted(side))
                            elif isinstance(side, ast.Constant) and isinstance(side.value, (str, int)) and getattr(side, "_from_constant", False):
                                consts.add(repr(side.value))  # a named class constant, propagated (N9)
                payloads = set()
                for m in a.methods.values():
                    for c in source.calls_in(m, attr="wakeupAfter"):
                        pv = source.arg_of(c, 1, "payload")
                        payloads.add("<none>" if pv is None else (repr(pv.value) if isinstance(pv, ast.Constant) else dotted(pv)))
                # a raise is harmless only where the payload is known to differ from every constant the class schedules (guard facts: polarity / orientation / arm order do not matter)
                msgp = params_of(f)[1] if len(params_of(f)) > 1 else "msg"
                def differs(n, cs):
                    return [c_ for c_ in cs if c_ != "<none>" and pat.guarded(n, f"{msgp}.payload != {c_}") is not None]

                raises_elsewhere = [n for n in walk_body(f) if isinstance(n, ast.Raise) and not (differs(n, consts) and len(differs(n, payloads)) == len(payloads))]
                other_calls = [n for n in walk_body(f) if isinstance(n, ast.Call) and not _log_noise(n)
                               and not (isinstance(n.func, ast.Attribute) and is_self_attr(n.func.value) is False and isinstance(n.func.value, ast.Name) and n.func.value.id == "self")
                               and last_attr(n.func) not in ("RallyAssertionError",)]
                ok = bool(consts) and payloads <= consts and not raises_elsewhere
                chk.ob("O9.2", inst, ok, f, f"tabled exception: compared constants {sorted(consts)}, wakeup payloads {sorted(payloads)}; {UNGUARDED_OK[(a.name, hname)]}")
                if other_calls:
                    chk.adv("O9.2", f"{inst} is unguarded and calls {[short(c, 40) for c in other_calls][:3]}", f)
                continue
            chk.ob("O9.2", inst, g is not None, f, f"guard={g}")

    # ---- message typing helpers -------------------------------------------------------------------
    handler_msg = {}
    for a in model.actors:
        for hname, f in model.handlers(a).items():
            ps = params_of(f)
            if hname.startswith("receiveMsg_") and len(ps) >= 2:
                handler_msg[id(f)] = (ps[1], hname[len("receiveMsg_"):])
    addr = {a.name: model.address_attrs(a) for a in model.actors}

    # ---- O9.3 forwarding chain --------------------------------------------------------------------
    chk.rule("O9.3", "every actor class forwards BenchmarkFailure on every path to its parent address (attribute assigned from the sender of its "
             "bootstrap message); parents lead to race control, which sets the coordinator's error flag before forwarding to the asker", 8,
             "a failure detected below that class never reaches race control: the race hangs or ends as success")
    root = model.actor("BenchmarkActor")
    parent_attr = {}
    for a in model.actors:
        f = a.methods.get("receiveMsg_BenchmarkFailure")
        inst = f"{a.name}.receiveMsg_BenchmarkFailure"
        if f is None:
            chk.ob("O9.3", inst, False, a.node, "class has no receiveMsg_BenchmarkFailure (failures sent to it by no_retry are dropped)")
            continue
        ps = params_of(f)
        msgp = ps[1] if len(ps) > 1 else "msg"
        g = cfg_of(f)
        sends = []
        for c in source.calls_in(f, attr="send"):
            if len(c.args) >= 2 and isinstance(c.args[1], ast.Name) and c.args[1].id == msgp and send_target_ok(c, set(addr[a.name]), f):
                sends.append(c)
        nodes = [g.node_of(c) for c in sends]
        ok = bool(nodes) and g.must_pass(g.entry, nodes)
        detail = f"forwarding sends: {[short(c, 60) for c in sends]}"
        path = None
        if nodes and not ok:
            p = g.find_path(g.entry, g.exit, avoid=nodes)
            path = g.describe_path(p) if p else None
            detail += " — a normal-exit path bypasses the forwarding send"
        chk.ob("O9.3", inst, ok, f, detail, path=path)
        if sends:
            t = sends[0].args[0]
            parent_attr[a.name] = t.attr if is_self_attr(t) else "reply_to|sender"
        # a failure the actor addressed to ITSELF (no_retry around a wake-up handler, or the actor's own handler of a wake-up: the sender of a wake-up is the actor, and a
        # wake-up carries no reply_to) must LEAVE the actor when it is forwarded; evaluated for sender == own address, message without reply_to, every address attribute set
        for c in sends:
            try:
                val = _address_value(c.args[0], {ps[2] if len(ps) > 2 else "sender": "SELF", msgp: _NO_REPLY_TO}, a.node)
            except _NoValue as e:
                chk.unknown("O9.3", f"{a.name}.receiveMsg_BenchmarkFailure: forwarding target `{short(c.args[0], 60)}` cannot be evaluated ({e})", c)
                continue
            chk.ob("O9.3", f"{a.name}: a failure the actor addressed to itself (failing wake-up) is forwarded to another actor", val != "SELF", c,
                   f"target `{short(c.args[0], 60)}` = {val} for sender == own address and a message without reply_to" + ("" if val != "SELF" else
                   ": the failure is sent to the actor itself again and circulates forever; race control is never told, the race ends as a success"),
                   key=f"{loc(a.node).split(':')[0]}:{a.name}.receiveMsg_BenchmarkFailure:self-addressed-failure-leaves")
    # race control sets the error flag before forwarding
    f = root.methods.get("receiveMsg_BenchmarkFailure")
    if f is not None:
        g = cfg_of(f)
        sets = [n for n in walk_body(f) if isinstance(n, ast.Assign) and any(isinstance(t, ast.Attribute) and t.attr == "error" for t in n.targets)
                and source.is_const(n.value, True)]
        sends = [c for c in source.calls_in(f, attr="send")]
        ok = bool(sets) and bool(sends) and all(g.dominated_by_nodes(g.node_of(s), [g.node_of(x) for x in sets]) for s in sends)
        chk.ob("O9.3", "BenchmarkActor: error flag set before forward", ok, f, f"flag stores={len(sets)} sends={len(sends)}")
        fc = root.methods.get("receiveMsg_BenchmarkCancelled")
        if fc is None:
            chk.ob("O9.3", "BenchmarkActor.receiveMsg_BenchmarkCancelled", False, root.node, "no cancel handler")
        else:
            gc = cfg_of(fc)
            sets = [n for n in walk_body(fc) if isinstance(n, ast.Assign) and any(isinstance(t, ast.Attribute) and t.attr == "cancelled" for t in n.targets)
                    and source.is_const(n.value, True)]
            ok = bool(sets) and gc.must_pass(gc.entry, [gc.node_of(s) for s in sets])
            chk.ob("O9.3", "BenchmarkActor: cancelled flag set on cancel", ok, fc, f"flag stores={len(sets)}")
    # parent chain: attr assigned from sender of bootstrap message M; who sends M?
    senders_of: dict[str, set] = {}
    for a in model.actors:
        for m in a.methods.values():
            for c in source.calls_in(m, attr="send"):
                pt = payload_type(model, c, handler_msg)
                if pt:
                    senders_of.setdefault(pt, set()).add(a.name)
            # message handed to a helper method of the class that sends its parameter (send_to_children_and_transition)
            for c in source.calls_in(m):
                if isinstance(c.func, ast.Attribute) and isinstance(c.func.value, ast.Name) and c.func.value.id == "self":
                    callee = model.table.method(a, c.func.attr)
                    if callee is None or callee is m:
                        continue
                    bound = source.bind_args(c, callee)
                    for pname, argv in bound.items():
                        if isinstance(argv, ast.Call) and model.is_package_message(last_attr(argv.func) or ""):
                            for s in source.calls_in(callee, attr="send"):
                                if len(s.args) >= 2 and isinstance(s.args[1], ast.Name) and s.args[1].id == pname:
                                    senders_of.setdefault(last_attr(argv.func), set()).add(a.name)
    race_fn = rc.func("race")
    for c in source.calls_in(race_fn, attr="ask"):
        if len(c.args) >= 2 and isinstance(c.args[1], ast.Call):
            senders_of.setdefault(last_attr(c.args[1].func), set()).add("<race()>")
    parents: dict[str, set] = {}
    for a in model.actors:
        pa = parent_attr.get(a.name)
        if pa is None:
            continue
        if pa == "reply_to|sender":
            # reply_to is stamped by the Dispatcher from the sender of StartEngine; accept and link to senders of the start message
            ps = set()
            for hname in a.methods:
                if hname.startswith("receiveMsg_Start"):
                    ps |= {"Dispatcher"}
            parents[a.name] = ps or {"?"}
            continue
        ps = set()
        for hname, kind, node in addr[a.name].get(pa, []):
            if kind == "sender" and hname.startswith("receiveMsg_"):
                mt = hname[len("receiveMsg_"):]
                found = senders_of.get(mt, set())
                if not found:
                    # the message is constructed, parked and sent later through a splat (`self.send(*each)`): the constructing actor class is the sender
                    found = {b.name for b in model.actors for m_ in b.methods.values() for c_ in walk_body(m_) if isinstance(c_, ast.Call) and last_attr(c_.func) == mt}
                if not found:
                    # ... or built by a factory method of another message; the actor that CREATES this actor class is the one that bootstraps it
                    found = {b.name for b in model.actors for m_ in b.methods.values() for c_ in walk_body(m_) if isinstance(c_, ast.Call) and last_attr(c_.func) == "createActor"
                             and c_.args and last_attr(c_.args[0]) == a.name}
                ps |= found
        ps.discard(a.name)
        parents[a.name] = ps
    for a in model.actors:
        seen, work, reach = set(), [a.name], False
        while work:
            x = work.pop()
            if x in seen:
                continue
            seen.add(x)
            if x == "<race()>":
                reach = True
                break
            work.extend(parents.get(x, ()))
        chk.ob("O9.3", f"{a.name}: parent chain reaches race()", reach, a.node, f"parent attr={parent_attr.get(a.name)} parents={sorted(parents.get(a.name, []))}")

    # cleanup that runs BEFORE the forwarding send must not be able to block it for good: the driver actor closes the driver (metrics store) first; a failing close
    # raises out of the handler, the actor framework re-delivers the message, and the second delivery must get past the cleanup
    met_m = repo.module("esrally/metrics.py")
    chk.use(met_m)
    DA = model.actor("DriverActor")
    for hn in ("receiveMsg_BenchmarkFailure", "receiveMsg_BenchmarkCancelled", "receiveMsg_PoisonMessage"):
        f = DA.methods.get(hn)
        if f is None:
            continue
        g = cfg_of(f)
        fwd = [c for c in source.calls_in(f, attr="send")]
        pre = [c for c in walk_body(f) if isinstance(c, ast.Call) and not _log_noise(c) and last_attr(c.func) not in ("send", "format", "str", "BenchmarkFailure", "BenchmarkCancelled")
               and any(g.path_exists(g.node_of(c), g.node_of(s_)) and g.node_of(c) is not g.node_of(s_) for s_ in fwd)]
        for c in pre:
            ok = u(c.func) == "self.driver.close"
            chk.ob("O9.3", f"DriverActor.{hn}: the only work before forwarding is the re-entrant driver close", ok, c, short(c, 60), key=f"esrally/driver/driver.py:DriverActor.{hn}:pre-forward:{short(c, 40)}")
    dcl = drv.methods(drv.cls("Driver")).get("close")
    mcl = met_m.methods(met_m.cls("MetricsStore")).get("close")
    if dcl is None or mcl is None:
        raise AnchorMissing("Driver.close / MetricsStore.close")
    sc = [c for c in source.calls_in(dcl, attr="close")]
    ok = bool(sc) and all(pat.guarded(c, "self.metrics_store.opened") is not None for c in sc)
    chk.ob("O9.3", "Driver.close closes the metrics store only while it is marked open", ok, sc[0] if sc else dcl, "")
    gm_ = cfg_of(mcl)
    clr = [n for n in walk_body(mcl) if isinstance(n, ast.Assign) and any(is_self_attr(t, "opened") for t in n.targets) and source.is_const(n.value, False)]
    fall = [c for c in walk_body(mcl) if isinstance(c, ast.Call) and not _log_noise(c)]
    ok = len(clr) >= 1 and all(gm_.dominated_by_nodes(gm_.node_of(c), [gm_.node_of(x) for x in clr]) for c in fall)
    late = [c for c in fall if not (clr and gm_.dominated_by_nodes(gm_.node_of(c), [gm_.node_of(x) for x in clr]))]
    chk.ob("O9.3", "MetricsStore.close marks the store closed before anything in it can fail", ok, late[0] if late else mcl,
           "" if ok else f"`{short(late[0], 40)}` runs while the store is still marked open: if it keeps failing, every re-delivery of BenchmarkFailure fails in close() again and the failure is never forwarded",
           key="esrally/metrics.py:MetricsStore.close:closed-before-fallible")

    # a failing parameter source / scheduler must not be mistaken for the normal end of the task
    chk.rule("O9.5c", "in the schedule generator the only exception that ends the schedule normally is StopIteration (exhaustion); every other exception of a parameter source or "
             "scheduler propagates to the executor, which turns it into a failure", 2,
             "a parameter source that raises mid-task: the task is treated as finished, the worker reports JoinPointReached and the race ends as success")
    SH = drv.cls("ScheduleHandle")
    shc = drv.methods(SH).get("__call__")
    if shc is None:
        raise AnchorMissing("ScheduleHandle.__call__")
    n_h = 0
    for t_ in [n for n in walk_body(shc) if isinstance(n, ast.Try)]:
        for h in t_.handlers:
            reraises = any(isinstance(x, ast.Raise) for x in ast.walk(h))
            if reraises:
                continue
            n_h += 1
            names = [dotted(e_) or u(e_) for e_ in (h.type.elts if isinstance(h.type, ast.Tuple) else ([h.type] if h.type is not None else []))]
            ok = names == ["StopIteration"]
            chk.ob("O9.5c", "schedule generator ends normally only on StopIteration", ok, h, f"except {', '.join(names) or '(bare)'} -> ends the schedule without error",
                   key=f"esrally/driver/driver.py:ScheduleHandle.__call__:swallow:{len([x for x in walk_body(shc) if isinstance(x, ast.ExceptHandler) and x.lineno < h.lineno])}")
    chk.ob("O9.5c", "exhaustion handlers located", n_h >= 2, shc, f"{n_h} handler(s)")

    # no_retry reports a handler's failure to the SENDER of the message; once the handler has asked an actor to exit, nothing that can fail may follow in that handler
    # (the report would go to an actor that is already gone and the race would hang)
    chk.rule("O9.2x", "in a handler guarded by no_retry no fallible work follows a send of ActorExitRequest: only sends, logging and plain stores may come after it", 1,
             "a failure at the very end (final flush, results calculation, race store) is reported to an exited actor: race() gets neither a failure nor Success")
    n_x = 0
    for a in model.actors:
        for hn, f in model.handlers(a).items():
            if handler_guard(f) != "no_retry":
                continue
            g = cfg_of(f)
            exits_ = [c for c in source.calls_in(f, attr="send") if len(c.args) >= 2 and isinstance(c.args[1], ast.Call) and last_attr(c.args[1].func) == "ActorExitRequest"]
            for x in exits_:
                n_x += 1
                after = [c for c in walk_body(f) if isinstance(c, ast.Call) and c is not x and not _log_noise(c) and last_attr(c.func) not in ("send", "ActorExitRequest")
                         and not any(c in list(ast.walk(s_)) for s_ in source.calls_in(f, attr="send"))
                         and g.node_of(c) is not g.node_of(x) and g.path_exists(g.node_of(x), g.node_of(c), edge_ok=g.normal_edge)]
                chk.ob("O9.2x", f"{a.name}.{hn}: nothing fallible after the exit request to {u(x.args[0])}", not after, after[0] if after else x,
                       "" if not after else f"`{short(after[0], 60)}` can fail after {u(x.args[0])} was told to exit; no_retry then reports the failure to the sender, which no longer exists",
                       key=f"{a.module.relpath}:{a.name}.{hn}:after-exit-request")
    chk.ob("O9.2x", "exit requests in guarded handlers located", n_x >= 1, model.actor("BenchmarkActor").node, f"{n_x} site(s)")

    # a worker process that dies is reported whichever worker it is: the failure for an exited child is sent under exactly {the child is one of the workers, we are not exiting}
    chk.rule("O9.3w", "child processes that die are reported: DriverActor.receiveMsg_ChildActorExited sends BenchmarkFailure to race control for every exited child that is a worker "
             "(also the one with index 0) or a track preparator that has not been asked to exit yet, unless the driver is exiting; the track preparator reports the death of one of "
             "its preparation workers to the driver unless it has been asked to exit itself (decided on values: the conditions around each failure send are evaluated per scenario)", 5,
             "the process of one particular worker / of a track preparation worker dies (OOM killer while a corpus is decompressed): nothing reaches race control and the race hangs")
    cae = DA.methods.get("receiveMsg_ChildActorExited")
    if cae is None:
        raise AnchorMissing("DriverActor.receiveMsg_ChildActorExited")

    def _fires(call, fn, env):
        """do all conditions that control `call` (guard facts, locals inlined) hold in the scenario? True / False / None (not evaluable)"""
        ldefs = source.local_defs(fn)
        for f_ in pat.fact_nodes(call):
            e_ = source.inline_node(f_, ldefs)

            class _Idx(ast.NodeTransformer):  # <list>.index(<x>) on scenario values
                def visit_Call(self, n):
                    self.generic_visit(n)
                    if isinstance(n.func, ast.Attribute) and n.func.attr == "index" and len(n.args) == 1:
                        try:
                            return ast.copy_location(ast.Constant(value=list(_ev(n.func.value, env)).index(_ev(n.args[0], env))), n)
                        except (CannotEval, ValueError):
                            return n
                    return n
            e_ = ast.fix_missing_locations(_Idx().visit(ast.parse(u(e_), mode="eval").body))  # a fresh copy (analysed nodes carry parent links: never deep-copy them)
            try:
                if not _ev(e_, env):
                    return False
            except CannotEval:
                return None
        return True

    mp_ = params_of(cae)[1]
    fs_ = [c for c in source.calls_in(cae, attr="send") if is_failure_send(c)]
    chk.ob("O9.3w", "a failure is sent for an exited worker", len(fs_) >= 1, fs_[0] if fs_ else cae, f"{len(fs_)} failure send(s)")
    SCEN = [("worker 0 dies while the benchmark runs", "W0", "running", "every-worker"), ("worker 1 dies while the benchmark runs", "W1", "running", "every-worker:1"),
            ("a track preparator dies while the track is being prepared", "P0", "preparing", "preparator")]
    for what, child, status, kk in SCEN:
        env = {mp_: Record(childAddress=child), "self": Record(driver=Record(workers=["W0", "W1"]), children=["P0"], status=status)}
        res = [_fires(c, cae, env) for c in fs_]
        if any(r is None for r in res) and not any(r is True for r in res):
            chk.unknown("O9.3w", f"DriverActor.receiveMsg_ChildActorExited: the conditions of a failure send cannot be evaluated for `{what}`", cae)
            continue
        ok = any(r is True for r in res)
        chk.ob("O9.3w", f"driver: {what} -> BenchmarkFailure to race control", ok, fs_[0] if fs_ else cae,
               f"failure sends firing: {sum(1 for r in res if r is True)} of {len(res)}" + ("" if ok else " — the exit is only logged: race control waits forever"
               + (" (e.g. a truthiness test of the worker's list index excludes worker 0)" if child == "W0" else "")),
               key=f"esrally/driver/driver.py:DriverActor.receiveMsg_ChildActorExited:{kk}")
    TPA = model.actor("TrackPreparationActor")
    tcae = TPA.methods.get("receiveMsg_ChildActorExited") if TPA is not None else None
    creates = TPA is not None and any(isinstance(n, ast.Call) and last_attr(n.func) == "createActor" for m_ in TPA.methods.values() for n in walk_body(m_))
    if TPA is None or not creates:
        raise AnchorMissing("TrackPreparationActor (creator of the track preparation workers)")
    if tcae is None:
        chk.ob("O9.3w", "track preparator: a preparation worker dies while it works -> BenchmarkFailure to the driver", False, TPA.node,
               "TrackPreparationActor creates worker actors but has no receiveMsg_ChildActorExited: their death is dropped, the preparator waits for WorkerIdle forever",
               key="esrally/driver/driver.py:TrackPreparationActor.receiveMsg_ChildActorExited:reports")
    else:
        exr = TPA.methods.get("receiveMsg_ActorExitRequest")
        flags = {t.attr for n in (walk_body(exr) if exr is not None else []) if isinstance(n, ast.Assign) and source.is_const(n.value, True) for t in n.targets if is_self_attr(t)}
        tf_ = [c for c in source.calls_in(tcae, attr="send") if is_failure_send(c) and send_target_ok(c, set(addr[TPA.name]), tcae)]
        env = {params_of(tcae)[1]: Record(childAddress="T0"), "self": Record(children=["T0", "T1"], **{f_: False for f_ in flags})}
        res = [_fires(c, tcae, env) for c in tf_]
        if any(r is None for r in res) and not any(r is True for r in res):
            chk.unknown("O9.3w", "TrackPreparationActor.receiveMsg_ChildActorExited: the conditions of the failure send cannot be evaluated", tcae)
        else:
            ok = any(r is True for r in res)
            chk.ob("O9.3w", "track preparator: a preparation worker dies while it works -> BenchmarkFailure to the driver", ok, tf_[0] if tf_ else tcae,
                   f"{len(tf_)} failure send(s) to the driver, firing: {sum(1 for r in res if r is True)} (not asked to exit: {sorted(flags)} = False)", key="esrally/driver/driver.py:TrackPreparationActor.receiveMsg_ChildActorExited:reports")

    # completion is announced LAST: once BenchmarkComplete is on its way race control computes, stores and prints the results; anything that can still fail at the final join point
    # (closing the driver's metrics store = its last flush, deleting API keys) therefore runs before it
    chk.rule("O9.6b", "at the final join point nothing fallible follows the call that announces completion (on_benchmark_complete): only logging may come after it", 1,
             "the last flush of the metrics store fails after completion was announced: results are stored and printed, race() reports success")
    DRV = drv.cls("Driver")
    jr_ = drv.methods(DRV).get("joinpoint_reached")
    if jr_ is None:
        raise AnchorMissing("Driver.joinpoint_reached")
    gj = cfg_of(jr_)
    obc = [c for c in walk_body(jr_) if isinstance(c, ast.Call) and last_attr(c.func) == "on_benchmark_complete"]
    if not obc:
        raise AnchorMissing("on_benchmark_complete(...) in Driver.joinpoint_reached")
    for x in obc:
        after = [c for c in walk_body(jr_) if isinstance(c, ast.Call) and c is not x and not _log_noise(c) and not any(c in list(ast.walk(a_)) for a_ in x.args)
                 and gj.node_of(c) is not gj.node_of(x) and gj.path_exists(gj.node_of(x), gj.node_of(c), edge_ok=gj.normal_edge)]
        chk.ob("O9.6b", "completion announced after the last fallible step of the final join point", not after, after[0] if after else x,
               "" if not after else f"`{short(after[0], 60)}` can still fail after BenchmarkComplete was sent", key="esrally/driver/driver.py:Driver.joinpoint_reached:complete-last")

    # PoisonMessage in classes that create children
    chk.rule("O9.3p", "every actor class that creates child actors has a receiveMsg_PoisonMessage that sends a BenchmarkFailure (or forwards) to its parent on every path", 5,
             "an undeliverable message to a dead child is never reported")
    for a in model.actors:
        creates = any(source.calls_in(m, attr="createActor") for m in a.methods.values())
        if not creates:
            continue
        f = a.methods.get("receiveMsg_PoisonMessage")
        if f is None:
            chk.ob("O9.3p", f"{a.name}.receiveMsg_PoisonMessage", False, a.node, "creates child actors but has no PoisonMessage handler")
            continue
        g = cfg_of(f)
        ps = params_of(f)
        sends = [c for c in source.calls_in(f, attr="send") if len(c.args) >= 2 and send_target_ok(c, set(addr[a.name]), f)
                 and (is_failure_send(c) or (isinstance(c.args[1], ast.Name) and len(ps) > 1 and c.args[1].id == ps[1]))]
        nodes = [g.node_of(c) for c in sends]
        ok = bool(nodes) and g.must_pass(g.entry, nodes)
        chk.ob("O9.3p", f"{a.name}.receiveMsg_PoisonMessage", ok, f, f"sends={[short(c, 70) for c in sends]}")

    # ---- O9.4 every failure message is sent -------------------------------------------------------
    chk.rule("O9.4", "every construction of BenchmarkFailure/BenchmarkCancelled in the package is the payload of send/ask/tell to an address "
             "(address attribute, sender, getattr(msg,'reply_to',sender)); address attributes are never called", 15,
             "the failure object is built and dropped (or an ActorAddress is 'called', raising TypeError): race control is never told")
    all_addr = set()
    for a in model.actors:
        all_addr |= set(addr[a.name])
    for m in repo.all_modules():
        for n in ast.walk(m.tree):
            if isinstance(n, ast.Call) and last_attr(n.func) in FAILURE_MESSAGES:
                cls = source.enclosing_class(n)
                if cls is not None and cls.name in FAILURE_MESSAGES:
                    continue
                chk.use(m)
                p = source.parent(n)
                f = source.enclosing_func(n)
                ok = False
                detail = ""
                if isinstance(p, ast.Call) and last_attr(p.func) in ("send", "ask", "tell") and len(p.args) >= 2 and p.args[1] is n:
                    cname = cls.name if cls is not None else None
                    attrs = set(addr.get(cname, {})) if cname else set()
                    ok = send_target_ok(p, attrs, f)
                    detail = f"payload of {short(p.func, 40)}(target={short(p.args[0], 50)})"
                    if not ok:
                        detail += " — target is not an address attribute / sender / reply_to"
                elif isinstance(p, ast.Call) and p.func is not n and n in p.args:
                    detail = f"passed to {short(p.func, 60)}(...) which is not a send sink"
                    if is_self_attr(p.func) and p.func.attr in all_addr:
                        detail = f"address attribute self.{p.func.attr} is CALLED with the failure message instead of self.send(self.{p.func.attr}, ...)"
                else:
                    detail = f"constructed but not sent: {short(source.enclosing_stmt(n), 80)}"
                chk.ob("O9.4", f"{source.qualname(n)}: {last_attr(n.func)}", ok, n, detail,
                       key=f"{m.relpath}:{source.qualname(n)}:{last_attr(n.func)}({short(n.args[0], 50) if n.args else ''})")
    # address attributes never called
    for a in model.actors:
        for m in a.methods.values():
            for n in walk_body(m):
                if isinstance(n, ast.Call) and is_self_attr(n.func) and n.func.attr in addr[a.name]:
                    chk.ob("O9.4", f"{a.name}.{m.name}: call of address attribute self.{n.func.attr}", False, n,
                           "an ActorAddress is not callable; the message is never sent",
                           key=f"{a.module.relpath}:{a.name}.{m.name}:call-address:{n.func.attr}")

    # ---- O9.5 executor failures surface ----------------------------------------------------------
    chk.rule("O9.5", "each actor that submits work to an executor pool polls the future in its WakeupMessage handler: .exception() is read and, "
             "when truthy, a BenchmarkFailure is sent to the parent on every path; the executor's broad handler re-raises", 3,
             "a runner / param source / on-error=abort failure inside the executor thread is never reported")
    for a in model.actors:
        fut_attrs = set()
        for m in a.methods.values():
            for n in walk_body(m):
                if isinstance(n, ast.Assign) and isinstance(n.value, ast.Call) and last_attr(n.value.func) == "submit" and len(n.targets) == 1 and is_self_attr(n.targets[0]):
                    fut_attrs.add(n.targets[0].attr)
        if not fut_attrs:
            continue
        f = a.methods.get("receiveMsg_WakeupMessage")
        inst = f"{a.name}.receiveMsg_WakeupMessage polls {sorted(fut_attrs)}"
        if f is None:
            chk.ob("O9.5", inst, False, a.node, "no WakeupMessage handler")
            continue
        g = cfg_of(f)
        found = False
        for n in walk_body(f):
            if isinstance(n, ast.Assign) and isinstance(n.value, ast.Call) and last_attr(n.value.func) == "exception" \
                    and isinstance(n.value.func, ast.Attribute) and is_self_attr(n.value.func.value) and n.value.func.value.attr in fut_attrs \
                    and len(n.targets) == 1 and isinstance(n.targets[0], ast.Name):
                var = n.targets[0].id
                # the test on the variable: any `if` that decides on it alone (evaluated for an exception object and for None, so `if e`, `if e is not None`,
                # `if not e` / `if e is None` with swapped arms are the same decision); the branch taken for an exception must send
                for t in walk_body(f):
                    lab = _truthy_edge(t.test, var) if isinstance(t, ast.If) else None
                    if lab is not None:
                        found = True
                        tn = g.node_of(t)
                        sends = [g.node_of(c) for c in source.calls_in(f, attr="send") if is_failure_send(c) and send_target_ok(c, set(addr[a.name]), f)]
                        starts = g.edge_targets(tn, lab)
                        ok = bool(sends) and bool(starts) and all(s in sends or g.must_pass(s, sends) for s in starts)
                        chk.ob("O9.5", inst, ok, t, "on a truthy future exception every normal path sends BenchmarkFailure" if ok else
                               "a path from the truthy-exception branch reaches the handler's end without sending BenchmarkFailure")
        if not found:
            chk.ob("O9.5", inst, False, f, "the handler never reads <future>.exception() into a tested variable")
    # broad handler in the request loop re-raises
    ex = drv.cls("AsyncExecutor")
    call = drv.methods(ex).get("__call__")
    if call is None:
        raise AnchorMissing("AsyncExecutor.__call__")
    loops = [n for n in walk_body(call) if isinstance(n, ast.AsyncFor)]
    if not loops:
        raise AnchorMissing("AsyncExecutor.__call__: request loop (async for) not found")
    trys = [t for t in source.ancestors(loops[0]) if isinstance(t, ast.Try)]
    g = cfg_of(call)
    for t in trys:
        for h in t.handlers:
            hn = [x for x in g.by_ast.get(id(h), [])]
            ok = bool(hn) and all(g.exit.id not in g.reachable([x]) for x in hn)
            chk.ob("O9.5", f"AsyncExecutor.__call__: handler `except {u(h.type) if h.type else ''}` never completes normally", ok, h,
                   "every path from this handler ends in raise" if ok else "the handler can fall through / return: the executor future completes without exception")
    # AsyncIoAdapter / gather: exceptions must propagate (no return_exceptions=True)
    for c in source.calls_in(drv.tree, name="asyncio.gather", local=False):
        re_kw = source.arg_of(c, None, "return_exceptions")
        ok = re_kw is None or source.is_const(re_kw, False)
        chk.ob("O9.5", "asyncio.gather propagates client exceptions", ok, c, "return_exceptions is not enabled" if ok else "return_exceptions=True swallows client failures")

    # abort policy per request (shared with C04/O4.6)
    from rules.C04 import check_execute_single

    check_execute_single(chk, drv, "O9.5b")

    # ---- O9.9 cancellation chain and abort policy per task -------------------------------------------------------------------------------------------------------
    chk.rule("O9.9", "user cancellation: race() tells race control BenchmarkCancelled (blocking) and raises; an exit request sets the worker's cancel event while its executor runs; the worker's "
             "wake-up reports BenchmarkCancelled before looking at the future; the request loop stops at the next request; the task's error behaviour is 'abort' iff the benchmark's is "
             "'abort' and the task does not ignore non-fatal errors", 7,
             "Ctrl+C ends the race as success / stores results; on-error=abort continues after a failed request of some task")
    kh = [h for t in ast.walk(race_fn) if isinstance(t, ast.Try) for h in t.handlers if h.type is not None and last_attr(h.type) == "KeyboardInterrupt"]
    ok = bool(kh) and any(isinstance(n, ast.Call) and last_attr(n.func) == "ask" and len(n.args) >= 2 and isinstance(n.args[1], ast.Call) and last_attr(n.args[1].func) == "BenchmarkCancelled" for n in ast.walk(kh[0])) \
        and isinstance(kh[0].body[-1], ast.Raise)
    chk.ob("O9.9", "race(): KeyboardInterrupt -> ask(BenchmarkCancelled) then raise", ok, kh[0] if kh else race_fn, "")
    fin = [t for t in ast.walk(race_fn) if isinstance(t, ast.Try) and t.finalbody]
    ok = bool(fin) and any(isinstance(n, ast.Call) and last_attr(n.func) == "tell" and "ActorExitRequest" in u(n) for s_ in fin[0].finalbody for n in ast.walk(s_))
    chk.ob("O9.9", "race(): race control is always told to exit (finally)", ok, fin[0] if fin else race_fn, "")
    Wk = model.actor("Worker")
    exr = Wk.methods.get("receiveMsg_ActorExitRequest")
    ok = exr is not None and any(isinstance(n, ast.Call) and u(n.func) == "self.cancel.set" and pat.guarded(n, "E_future.running()") is not None for n in walk_body(exr))
    chk.ob("O9.9", "exit request sets the cancel event while the executor runs", ok, exr if exr is not None else Wk.node, "")
    wkh = Wk.methods.get("receiveMsg_WakeupMessage")
    if wkh is None:
        raise AnchorMissing("Worker.receiveMsg_WakeupMessage")
    gk = cfg_of(wkh)
    cs_ = [c for c in source.calls_in(wkh, attr="send") if len(c.args) >= 2 and isinstance(c.args[1], ast.Call) and last_attr(c.args[1].func) == "BenchmarkCancelled"]
    ex_ = [n for n in walk_body(wkh) if isinstance(n, ast.Call) and last_attr(n.func) == "exception"]
    ok = bool(cs_) and holds(cs_[0], "self.cancel.is_set()") and bool(ex_) and not gk.path_exists(gk.node_of(cs_[0]), gk.node_of(ex_[0])) \
        and holds(ex_[0], "not self.cancel.is_set()")
    chk.ob("O9.9", "worker wake-up reports cancellation before polling the future", ok, cs_[0] if cs_ else wkh, "")
    # first statement of the loop body that is not logging: an `if` one of whose arms breaks exactly when the cancel event is set (decided on the guard facts of the break)
    body_ = [s_ for s_ in loops[0].body if not is_logging_stmt(s_)]
    first = body_[0] if body_ else loops[0]
    ok = isinstance(first, ast.If) and any(isinstance(x, ast.Break) and [u(f_) for f_ in pat.fact_nodes(x, stop=loops[0])] == ["self.cancel.is_set()"] for x in first.body + first.orelse)
    chk.ob("O9.9", "request loop stops at the next request once cancelled", ok, first, "")
    trkm = repo.module("esrally/track/track.py")
    chk.use(trkm)
    eb = trkm.methods(trkm.cls("Task")).get("error_behavior")
    if eb is None:
        raise AnchorMissing("Task.error_behavior")
    if len(params_of(eb)) < 2:
        raise AnchorMissing("Task.error_behavior(self, <default>)")
    dpar = params_of(eb)[1]
    # the level is "ignore" only for the literal 'non-fatal'; every other value — None (unset) but also the empty string a templated track may produce — does not ignore
    for dflt, ignores, level in ((True, False, None), (True, True, "non-fatal"), (False, False, None), (False, True, "non-fatal"), (True, False, ""), (False, False, "")):
        def atom(n, env, dflt=dflt, ignores=ignores, level=level):
            # atoms are evaluated on representative values (any orientation / operator: ==, !=, in (...)), not recognised by their text
            if isinstance(n, ast.BoolOp) or (isinstance(n, ast.UnaryOp) and isinstance(n.op, ast.Not)):
                return None
            try:
                return bool(_ev(n, {dpar: "abort" if dflt else "continue", "self": Record(ignore_response_error_level=level)}))
            except (CannotEval, TypeError, ValueError):
                return None

        try:
            out = _decide(eb.body, atom, {})
        except (_Uns, UnknownAtom) as e:
            chk.unknown("O9.9", f"error_behavior is not a decision over (default is abort, task ignores non-fatal): {e}", eb)
            break
        got = out.value.value if out.kind == "return" and isinstance(out.value, ast.Constant) else None
        want = "abort" if (dflt and not ignores) else "continue"
        chk.ob("O9.9", f"error behaviour when on-error={'abort' if dflt else 'continue'} and the task {'ignores' if ignores else 'does not ignore'} non-fatal errors" + (" (level = '')" if level == "" else ""),
               got == want, eb, f"{got}; expected {want}", key=f"esrally/track/track.py:Task.error_behavior:{dflt}|{ignores}" + ("|empty" if level == "" else ""))
    adp = drv.methods(drv.cls("AsyncIoAdapter")).get("run")
    exi = drv.methods(ex).get("__init__")
    if adp is None or exi is None:
        raise AnchorMissing("AsyncIoAdapter.run / AsyncExecutor.__init__")
    exc_ = [n for n in walk_body(adp) if isinstance(n, ast.Call) and last_attr(n.func) == "AsyncExecutor"]
    # by role: the on_error argument is <t>.error_behavior(self.abort_on_error) where <t> is the very local handed to the executor as its task
    bound = source.bind_args(exc_[0], exi) if exc_ else {}
    tk_ = bound.get("task")
    ok = bool(exc_) and isinstance(tk_, ast.Name) and pat.match(bound.get("on_error"), "V_t.error_behavior(self.abort_on_error)", {"t": tk_.id}) is not None
    chk.ob("O9.9", "each executor gets its task's error behaviour derived from the worker's on-error setting", ok, exc_[0] if exc_ else adp, "")
    wst = Wk.methods.get("receiveMsg_StartWorker")
    if wst is None:
        raise AnchorMissing("Worker.receiveMsg_StartWorker")
    ok = any(isinstance(n, ast.Assign) and is_self_attr(n.targets[0], "on_error") and "'on.error'" in u(n.value) for n in walk_body(wst))
    chk.ob("O9.9", "worker reads on-error from the driver configuration", ok, wst, "")

    # ---- O9.6 no results on error or cancel ----------------------------------------------------------
    chk.rule("O9.6", "in the coordinator every call that computes, stores or prints results is reachable only under cancelled=False and error=False "
             "(4-row truth table of the guarding predicates); the flags are only ever set to True after construction", 5,
             "a failed or cancelled race stores/prints final results")
    coord = rc.cls("BenchmarkCoordinator")
    obc = rc.methods(coord).get("on_benchmark_complete")
    if obc is None:
        raise AnchorMissing("BenchmarkCoordinator.on_benchmark_complete")

    def classify(n):
        if is_self_attr(n, "cancelled"):
            return "cancelled"
        if is_self_attr(n, "error"):
            return "error"
        return None

    for n in walk_body(obc):
        if isinstance(n, ast.Call) and (last_attr(n.func) in RESULT_CALLS or last_attr(n.func) == "store_race"):
            gs = guards(n)
            try:
                allowed = []
                for env in [{"cancelled": c, "error": e} for c in (False, True) for e in (False, True)]:
                    val = True
                    for test, pol in gs:
                        rows = truth_table(test, ["cancelled", "error"], classify)
                        v = [r for e2, r in rows if e2 == env][0]
                        val = val and (v == pol)
                    if val:
                        allowed.append(env)
                ok = allowed == [{"cancelled": False, "error": False}]
                chk.ob("O9.6", f"on_benchmark_complete: {last_attr(n.func)}()", ok, n, f"reachable under {allowed}")
            except UnknownAtom as e:
                chk.unknown("O9.6", f"guard of {short(n, 50)} contains foreign atom {e}", n)
    for m in rc.methods(coord).values():
        if m.name in ("on_benchmark_complete", "on_preparation_complete"):
            continue
        for n in walk_body(m):
            if isinstance(n, ast.Call) and last_attr(n.func) in RESULT_CALLS:
                chk.ob("O9.6", f"{m.name}: {last_attr(n.func)}()", False, n, "result computation/storage outside the guarded completion routine")
    for mod in (rc,):
        for n in ast.walk(mod.tree):
            if isinstance(n, ast.Assign):
                for t in n.targets:
                    if isinstance(t, ast.Attribute) and t.attr in ("cancelled", "error") and (is_self_attr(t.value, "coordinator") or (is_self_attr(t) and source.enclosing_class(n) is coord)):
                        f = source.enclosing_func(n)
                        if f is not None and f.name == "__init__":
                            continue
                        chk.ob("O9.6", f"{source.qualname(n)}: {u(t)} only set to True", source.is_const(n.value, True), n, short(n, 60))

    # ---- O9.7 success only via completion ----------------------------------------------------------
    chk.rule("O9.7", "Success is constructed only when handling EngineStopped, StopEngine only when handling BenchmarkComplete; nothing reachable from "
             "failure/cancel handlers constructs them or calls a results function; race() raises for BenchmarkFailure and for unexpected replies", 5,
             "a failed race is reported to the user as finished successfully")
    for m in repo.all_modules():
        for n in ast.walk(m.tree):
            if isinstance(n, ast.Call) and last_attr(n.func) in ("Success", "StopEngine"):
                if m.relpath.startswith("esrally/") and source.enclosing_class(n) is not None and isinstance(source.parent(n), ast.Call):
                    f = source.enclosing_func(n)
                    cls = source.enclosing_class(n)
                    want = "receiveMsg_EngineStopped" if last_attr(n.func) == "Success" else "receiveMsg_BenchmarkComplete"
                    if last_attr(n.func) == "Success" and cls.name != "BenchmarkActor":
                        continue  # other classes named Success (none today)
                    chk.ob("O9.7", f"{last_attr(n.func)}() constructed in {cls.name}.{f.name}", cls.name == "BenchmarkActor" and f.name == want, n,
                           f"expected only in BenchmarkActor.{want}")
    extra = {"BenchmarkActor": {"coordinator": model.table.get("BenchmarkCoordinator")}, "DriverActor": {"driver": model.table.get("Driver")}}
    for a in model.actors:
        for hname in ("receiveMsg_BenchmarkFailure", "receiveMsg_BenchmarkCancelled", "receiveMsg_PoisonMessage"):
            f = a.methods.get(hname)
            if f is None:
                continue
            bad = []
            for ci, fn in model.method_closure(a, f, extra):
                for n in walk_body(fn):
                    if isinstance(n, ast.Call) and last_attr(n.func) in (RESULT_CALLS | {"Success", "StopEngine", "BenchmarkComplete", "EngineStopped"}):
                        bad.append(f"{ci.name}.{fn.name}:{last_attr(n.func)}")
            chk.ob("O9.7", f"{a.name}.{hname} reaches no success/result construct", not bad, f, f"reaches {bad}" if bad else "")
    # race(): isinstance chain
    g = cfg_of(race_fn)

    def isinst(t):
        """(class name, polarity) of a test `isinstance(x, C)` / `not isinstance(x, C)`, else None."""
        pol = True
        while isinstance(t, ast.UnaryOp) and isinstance(t.op, ast.Not):
            t, pol = t.operand, not pol
        if isinstance(t, ast.Call) and dotted(t.func) == "isinstance" and len(t.args) == 2:
            return last_attr(t.args[1]), pol
        return None

    arms = {}
    for n in walk_body(race_fn):
        if isinstance(n, ast.If) and isinst(n.test) is not None:
            arms[isinst(n.test)[0]] = n
    if "Success" not in arms or "BenchmarkFailure" not in arms:
        raise AnchorMissing("race(): isinstance chain over the reply not found")
    fa = arms["BenchmarkFailure"]
    tn = g.node_of(fa)
    starts = g.edge_targets(tn, "true" if isinst(fa.test)[1] else "false")
    ok = bool(starts) and all(g.exit.id not in g.reachable([s], edge_ok=None) or _only_via_raise(g, s) for s in starts)
    chk.ob("O9.7", "race(): BenchmarkFailure reply raises", ok, fa, "the failure arm raises on every path" if ok else "the failure arm can complete without raising")
    # default arm: evaluate the reply dispatch for a reply that is an instance of none of the tested classes (arm order / polarity do not matter)
    top = [n for n in arms.values() if not any(source.parent(n) is m_ and n in m_.orelse for m_ in arms.values())]
    seq_ = None
    for fld in ("body", "orelse", "finalbody"):
        l_ = getattr(source.parent(top[0]), fld, None) or []
        if all(any(t_ is s_ for s_ in l_) for t_ in top):
            seq_ = l_
    if seq_ is None:
        raise AnchorMissing("race(): the isinstance tests over the reply do not form one dispatch in one statement list")
    top.sort(key=lambda t_: [s_ is t_ for s_ in seq_].index(True))
    try:
        out = _decide(seq_[seq_.index(top[0]):], lambda n, env: (False if isinst(n) is not None and isinst(n)[1] else None), {})
        ok = out.kind == "raise"
        ends = [n for n in arms.values() if not any(x is m_ for x in n.orelse for m_ in arms.values())]  # the test(s) that close the dispatch: location of the obligation
        chk.ob("O9.7", "race(): unexpected reply raises", ok, ends[-1] if ends else top[0], "default arm ends in raise" if ok else f"for a reply of no known class the dispatch ends in `{out.text()}`, not in raise")
    except (_Uns, UnknownAtom) as e:
        chk.unknown("O9.7", f"race(): reply dispatch is not a decision over isinstance tests: {e}", top[0])
    # success log only under Success
    for n in walk_body(race_fn):
        if isinstance(n, ast.Call) and is_logging_call(n) and n.args and isinstance(n.args[0], ast.Constant) and "success" in str(n.args[0].value).lower():
            ok = any(isinst(t) == ("Success", True) for t in pat.fact_nodes(n))
            chk.ob("O9.7", "race(): success is logged only for a Success reply", ok, n, short(n, 70))

    # ---- O9.8 advisory: forward first ---------------------------------------------------------------
    for a in model.actors:
        for hname in ("receiveMsg_BenchmarkFailure", "receiveMsg_BenchmarkCancelled", "receiveMsg_PoisonMessage"):
            f = a.methods.get(hname)
            if f is None or handler_guard(f):
                continue
            sends = source.calls_in(f, attr="send")
            if not sends:
                continue
            first = min(s.lineno for s in sends)
            pre = [n for n in walk_body(f) if isinstance(n, ast.Call) and n.lineno < first and not _log_noise(n)
                   and last_attr(n.func) not in ("str", "isinstance", "BenchmarkFailure", "getattr")]
            if pre:
                chk.adv("O9.8", f"{a.name}.{hname}: may-raise call(s) {[short(p, 40) for p in pre]} precede the forwarding send in an unguarded handler", f)

    chk.stats["actors"] = [a.name for a in model.actors]
    chk.stats["address_attrs"] = {k: sorted(v) for k, v in addr.items()}
    chk.stats["parents"] = {k: sorted(v) for k, v in parents.items()}


def _stmt_raises(s):
    return isinstance(s, ast.Raise)


def _only_via_raise(g, start):
    """True iff the normal exit is not reachable from start at all."""
    return g.exit.id not in g.reachable([start])


# ---------------------------------------------------------------------------------------------------------
# both-ways battery (thorough tier / sa.selftest)
from sa.selftest import V  # noqa: E402

_D = "esrally/driver/driver.py"
_R = "esrally/racecontrol.py"
_M = "esrally/mechanic/mechanic.py"
_A = "esrally/actor.py"
VARIANTS = [
    V("F57 reverted: the driver logs the premature exit of a track preparator", "break", _D, "        elif msg.childAddress in self.children and self.status != \"exiting\":\n", "        elif False:\n", "O9.3w"),
    V("F57 reverted: the track preparator reports the death of a worker only when it is exiting", "break", _D, "    def receiveMsg_ChildActorExited(self, msg, sender):\n        if self.exiting:\n", "    def receiveMsg_ChildActorExited(self, msg, sender):\n        if not self.exiting:\n", "O9.3w"),
    V("F57 respelled: preparator branch tested first, status compared the other way round", "keep", _D, "        elif msg.childAddress in self.children and self.status != \"exiting\":\n", "        elif \"exiting\" != self.status and msg.childAddress in self.children:\n", "O9.3w"),
    V("F57 respelled: guard clause in the track preparator", "keep", _D, "        if self.exiting:\n            self.logger.debug(\"A track preparation worker has exited.\")\n        else:\n            self.logger.error(\"A track preparation worker has exited prematurely. Aborting benchmark.\")\n            self.send(self.driver_actor, actor.BenchmarkFailure(\"A track preparation worker has exited prematurely.\"))\n",
      "        if self.exiting:\n            self.logger.debug(\"A track preparation worker has exited.\")\n            return\n        self.logger.error(\"A track preparation worker has exited prematurely. Aborting benchmark.\")\n        self.send(self.driver_actor, actor.BenchmarkFailure(\"A track preparation worker has exited prematurely.\"))\n", "O9.3w"),
    V("F58 reverted: the node mechanic forwards a failure to reply_to / sender whoever that is", "break", _M, "        return getattr(msg, \"reply_to\", None) or self.reply_to or sender\n", "        return getattr(msg, \"reply_to\", sender)\n", "O9.3"),
    V("F58: the sender is preferred to whoever started the node mechanic", "break", _M, "        return getattr(msg, \"reply_to\", None) or self.reply_to or sender\n", "        return getattr(msg, \"reply_to\", None) or sender or self.reply_to\n", "O9.3"),
    V("F58 respelled: if statements instead of the or-chain", "keep", _M, "        return getattr(msg, \"reply_to\", None) or self.reply_to or sender\n",
      "        target = getattr(msg, \"reply_to\", None)\n        if target:\n            return target\n        if self.reply_to:\n            return self.reply_to\n        return sender\n", "O9.3"),
    V("F58 respelled: own address recognised explicitly", "keep", _M, "        return getattr(msg, \"reply_to\", None) or self.reply_to or sender\n",
      "        target = getattr(msg, \"reply_to\", sender)\n        return self.reply_to if target == self.myAddress and self.reply_to else target\n", "O9.3"),
    V("F58 respelled: failures always go to whoever started the node mechanic", "keep", _M, "        self.send(self._failure_target(msg, sender), msg)\n", "        self.send(self.reply_to, msg)\n", "O9.3"),
    V("no_retry catches Exception only", "break", _A, "        except BaseException:\n            # log here", "        except Exception:\n            # log here", "O9.1"),
    V("no_retry logs but does not send", "break", _A, "            self.send(sender, BenchmarkFailure(traceback.format_exc()))", "            pass", "O9.1"),
    V("drop no_retry on UpdateSamples", "break", _D, '    @actor.no_retry("driver")  # pylint: disable=no-value-for-parameter\n    def receiveMsg_UpdateSamples', "    def receiveMsg_UpdateSamples", "O9.2"),
    V("drop no_retry on Worker.Drive", "break", _D, '    @actor.no_retry("worker")  # pylint: disable=no-value-for-parameter\n    def receiveMsg_Drive', "    def receiveMsg_Drive", "O9.2"),
    V("F3 shape: call the address", "break", _M, "    def receiveMsg_BenchmarkFailure(self, msg, sender):\n        self.send(self.race_control, msg)", "    def receiveMsg_BenchmarkFailure(self, msg, sender):\n        self.race_control(msg)", "O9."),
    V("worker failure handler only logs", "break", _D, "        # sent by our no_retry infrastructure; forward to master\n        self.send(self.driver_actor, msg)", "        self.logger.error('failure: %s', msg)", "O9.3"),
    V("driver forwards failure only when driver exists", "break", _D, '        self.logger.error("Main driver received a fatal exception from a load generator. Shutting down.")\n        self.driver.close()\n        self.send(self.benchmark_actor, msg)',
      '        self.logger.error("Main driver received a fatal exception from a load generator. Shutting down.")\n        self.driver.close()\n        if self.status == "init":\n            self.send(self.benchmark_actor, msg)', "O9.3"),
    V("error flag set after the send", "break", _R, "        self.coordinator.error = True\n        self.send(self.start_sender, msg)\n\n    @actor.no_retry(\"race control\")  # pylint: disable=no-value-for-parameter\n    def receiveMsg_BenchmarkComplete",
      "        self.send(self.start_sender, msg)\n        self.coordinator.error = True\n\n    @actor.no_retry(\"race control\")  # pylint: disable=no-value-for-parameter\n    def receiveMsg_BenchmarkComplete", "O9.3"),
    V("failure constructed but not sent (worker exited)", "break", _D, '                self.send(self.benchmark_actor, actor.BenchmarkFailure(f"Worker [{worker_index}] has exited prematurely."))',
      '                failure = actor.BenchmarkFailure(f"Worker [{worker_index}] has exited prematurely.")\n                self.logger.error("%s", failure)', "O9.4"),
    V("worker does not report executor exception", "break", _D, '                    self.send(self.driver_actor, actor.BenchmarkFailure(f"Error in load generator [{self.worker_id}]", str(e)))', "                    self.executor_future = None", "O9.5"),
    V("executor broad handler swallows", "break", _D, '            raise exceptions.RallyError(f"Cannot run task [{self.task}]: {e}") from None', '            self.logger.error("Cannot run task [%s]: %s", self.task, e)', "O9.5"),
    V("results guard uses or", "break", _R, "        if not self.cancelled and not self.error:", "        if not self.cancelled or not self.error:", "O9.6"),
    V("store_results moved out of the guard", "break", _R, "        self.metrics_store.close()\n\n\ndef race(", "        metrics.results_store(self.cfg).store_results(self.race)\n        self.metrics_store.close()\n\n\ndef race(", "O9.6"),
    V("error flag reset on task finished", "break", _R, "        self.coordinator.on_task_finished(msg.metrics)", "        self.coordinator.on_task_finished(msg.metrics)\n        self.coordinator.error = False", "O9.6"),
    V("failure handler reports Success", "break", _R, "        self.coordinator.cancelled = True\n", "        self.coordinator.cancelled = True\n        self.send(self.start_sender, Success())\n", "O9.7"),
    V("race() default arm logs", "break", _R, '            raise exceptions.RallyError("Got an unexpected result during benchmarking: [%s]." % str(result))', '            logger.error("Got an unexpected result during benchmarking: [%s].", str(result))', "O9.7"),
    V("race() failure arm logs only", "break", _R, "            raise exceptions.RallyError(result.message, result.cause)", "            pass", "O9.7"),
    V("task executor poison without handler: createActor in class lacking PoisonMessage", "break", _D, "    def receiveMsg_PoisonMessage(self, poisonmsg, sender):\n        self.logger.error(\"Track Preparator received",
      "    def on_poison(self, poisonmsg, sender):\n        self.logger.error(\"Track Preparator received", "O9.3p"),
    V("cancel not reported by the worker", "break", _D, "                self.send(self.driver_actor, actor.BenchmarkCancelled())", "                self.logger.info('cancelled')", "O9."),
    V("on-error=abort ignored for every task", "break", "esrally/track/track.py", "            if self.ignore_response_error_level != \"non-fatal\":\n                behavior = \"abort\"", "            if self.ignore_response_error_level == \"non-fatal\":\n                behavior = \"abort\"", "O9.9"),
    V("KeyboardInterrupt does not notify race control", "break", _R, "        actor_system.ask(benchmark_actor, actor.BenchmarkCancelled())\n", "", "O9.9"),
    # behaviour-preserving
    V("guard via explicit try/except instead of decorator", "keep", _D,
      '    @actor.no_retry("driver")  # pylint: disable=no-value-for-parameter\n    def receiveMsg_UpdateSamples(self, msg, sender):\n        self.driver.update_samples(msg.samples)',
      "    def receiveMsg_UpdateSamples(self, msg, sender):\n        try:\n            self.driver.update_samples(msg.samples)\n        except BaseException:\n            self.send(sender, actor.BenchmarkFailure('Error in driver'))"),
    V("De Morgan rewrite of the results guard", "keep", _R, "        if not self.cancelled and not self.error:", "        if not (self.cancelled or self.error):"),
    V("inverted results guard", "keep", _R,
      "        if not self.cancelled and not self.error:\n            final_results = metrics.calculate_results(self.metrics_store, self.race)\n            self.race.add_results(final_results)\n            self.race_store.store_race(self.race)\n            metrics.results_store(self.cfg).store_results(self.race)\n            reporter.summarize(final_results, self.cfg)\n        else:\n            self.logger.info(\"Suppressing output of summary report. Cancelled = [%r], Error = [%r].\", self.cancelled, self.error)",
      "        if self.cancelled or self.error:\n            self.logger.info(\"Suppressing output of summary report. Cancelled = [%r], Error = [%r].\", self.cancelled, self.error)\n        else:\n            final_results = metrics.calculate_results(self.metrics_store, self.race)\n            self.race.add_results(final_results)\n            self.race_store.store_race(self.race)\n            metrics.results_store(self.cfg).store_results(self.race)\n            reporter.summarize(final_results, self.cfg)"),
    V("rename worker parent attribute consistently", "keep", _D, "self.task_preparation_actor", "self.parent_actor", count=9),
    V("extra logging before forward", "keep", _M, "    def receiveMsg_BenchmarkFailure(self, msg, sender):\n        self.send(self.race_control, msg)", "    def receiveMsg_BenchmarkFailure(self, msg, sender):\n        self.logger.error('forwarding failure')\n        self.send(self.race_control, msg)"),
    # role / polarity robustness (hardening pass): the same decision written another way stays silent, the opposite decision is still reported
    V("tabled wake-up handler: single-armed != test", "keep", _M, "        if msg.payload == MechanicActor.WAKEUP_RESET_RELATIVE_TIME:\n            self.reset_relative_time()\n        else:\n            raise exceptions.RallyAssertionError(f\"Unknown wakeup reason [{msg.payload}]\")",
      "        if MechanicActor.WAKEUP_RESET_RELATIVE_TIME != msg.payload:\n            raise exceptions.RallyAssertionError(f\"Unknown wakeup reason [{msg.payload}]\")\n        self.reset_relative_time()"),
    V("tabled wake-up handler: raise in the else of an unrelated test", "break", _M, "        if msg.payload == MechanicActor.WAKEUP_RESET_RELATIVE_TIME:\n            self.reset_relative_time()\n        else:\n            raise exceptions.RallyAssertionError(f\"Unknown wakeup reason [{msg.payload}]\")",
      "        if msg.payload == MechanicActor.WAKEUP_RESET_RELATIVE_TIME:\n            self.reset_relative_time()\n        if self.cfg:\n            pass\n        else:\n            raise exceptions.RallyAssertionError(f\"Unknown wakeup reason [{msg.payload}]\")", "O9.2"),
    V("worker sends the failure when the future has NO exception", "break", _D, "                if e:\n                    self.logger.exception(\n                        \"Worker[%s] has detected a benchmark failure. Notifying master...\"",
      "                if e is None:\n                    self.logger.exception(\n                        \"Worker[%s] has detected a benchmark failure. Notifying master...\"", "O9.5"),
    V("race(): failure arm before the cancelled arm", "keep", _R, "        elif isinstance(result, actor.BenchmarkCancelled):\n            logger.info(\"User has cancelled the benchmark (detected by actor).\")\n        elif isinstance(result, actor.BenchmarkFailure):\n            logger.error(\"A benchmark failure has occurred\")\n            raise exceptions.RallyError(result.message, result.cause)\n",
      "        elif isinstance(result, actor.BenchmarkFailure):\n            logger.error(\"A benchmark failure has occurred\")\n            raise exceptions.RallyError(result.message, result.cause)\n        elif isinstance(result, actor.BenchmarkCancelled):\n            logger.info(\"User has cancelled the benchmark (detected by actor).\")\n"),
    V("race(): cancel told to a local that is not an actor address", "break", _R, "    try:\n        result = actor_system.ask(benchmark_actor, Setup(", "    benchmark_actor = cfg\n    try:\n        result = actor_system.ask(benchmark_actor, Setup(", "O9.4"),
    V("executor's on_error passed by keyword", "keep", _D, "self.cancel, self.complete, task.error_behavior(self.abort_on_error)\n", "self.cancel, self.complete, on_error=task.error_behavior(self.abort_on_error)\n"),
    V("executor's on_error taken from another object than its task", "break", _D, "self.cancel, self.complete, task.error_behavior(self.abort_on_error)\n", "self.cancel, self.complete, task_allocation.error_behavior(self.abort_on_error)\n", "O9.9"),
    V("error_behavior: one merged, flipped condition", "keep", "esrally/track/track.py", "        if default_error_behavior == \"abort\":\n            if self.ignore_response_error_level != \"non-fatal\":\n                behavior = \"abort\"",
      "        if \"non-fatal\" != self.ignore_response_error_level and \"abort\" == default_error_behavior:\n            behavior = \"abort\""),
    V("error_behavior: merged condition with or", "break", "esrally/track/track.py", "        if default_error_behavior == \"abort\":\n            if self.ignore_response_error_level != \"non-fatal\":\n                behavior = \"abort\"",
      "        if \"non-fatal\" != self.ignore_response_error_level or \"abort\" == default_error_behavior:\n            behavior = \"abort\"", "O9.9"),
    V("request loop: logging first, break in the else arm of the negated test", "keep", _D, "                if self.cancel.is_set():\n                    self.logger.info(\"User cancelled execution.\")\n                    break",
      "                self.logger.debug('next')\n                if not self.cancel.is_set():\n                    pass\n                else:\n                    self.logger.info(\"User cancelled execution.\")\n                    break"),
    V("request loop breaks when NOT cancelled", "break", _D, "                if self.cancel.is_set():\n                    self.logger.info(\"User cancelled execution.\")\n                    break",
      "                if not self.cancel.is_set():\n                    self.logger.info(\"User cancelled execution.\")\n                    break", "O9.9"),
    V("exit request: De Morgan, cancel set in the else arm", "keep", _D, "        if self.executor_future is not None and self.executor_future.running():\n            self.cancel.set()",
      "        if self.executor_future is None or not self.executor_future.running():\n            pass\n        else:\n            self.cancel.set()"),
    V("exit request sets the cancel event only when the executor does NOT run", "break", _D, "        if self.executor_future is not None and self.executor_future.running():\n            self.cancel.set()",
      "        if self.executor_future is not None and not self.executor_future.running():\n            self.cancel.set()", "O9.9"),
    V("metrics store close logs through logging.getLogger first", "keep", "esrally/metrics.py", "        self.logger.info(\"Closing metrics store.\")\n        self.opened = False", "        logging.getLogger(__name__).info(\"Closing metrics store.\")\n        self.opened = False"),
    V("metrics store close: fallible call inside the logging arguments before the flag is cleared", "break", "esrally/metrics.py", "        self.logger.info(\"Closing metrics store.\")\n        self.opened = False",
      "        self.logger.info(\"Closing metrics store %s.\", self.flush())\n        self.opened = False", "O9.3"),
    V("worker wake-up: `if e is None: ...; return` first, failure report after it", "keep", _D,
      "                if e:\n                    self.logger.exception(\n                        \"Worker[%s] has detected a benchmark failure. Notifying master...\", str(self.worker_id), exc_info=e\n                    )\n"
      "                    # the exception might be user-defined and not be on the load path of the master driver. Hence, it cannot be\n                    # deserialized on the receiver so we convert it here to a plain string.\n"
      "                    self.send(self.driver_actor, actor.BenchmarkFailure(f\"Error in load generator [{self.worker_id}]\", str(e)))\n                else:\n"
      "                    self.logger.debug(\"Worker[%s] is ready for the next task.\", str(self.worker_id))\n                    self.executor_future = None\n                    self.drive()\n",
      "                if e is None:\n                    self.logger.debug(\"Worker[%s] is ready for the next task.\", str(self.worker_id))\n                    self.executor_future = None\n                    self.drive()\n                    return\n"
      "                self.logger.exception(\"Worker[%s] has detected a benchmark failure. Notifying master...\", str(self.worker_id), exc_info=e)\n"
      "                self.send(self.driver_actor, actor.BenchmarkFailure(f\"Error in load generator [{self.worker_id}]\", str(e)))\n"),
]
