"""C09 — any failure or cancellation ends the race as failed, never as success (DESIGN.md section 4, C09)."""
from __future__ import annotations

import ast

from sa import pat, source
from sa.cfg import cfg_of, guards, holds
from sa.classes import ActorModel, FAILURE_MESSAGES, handler_guard, is_failure_send, is_logging_call, is_logging_stmt, no_retry_is_sound
from sa.source import AnchorMissing, dotted, is_self_attr, last_attr, loc, params_of, short, u, walk_body
from sa.minieval import CannotEval, Record, ev as _ev
from sa.sym import UnknownAtom, truth_table
from sa.tables import decide as _decide, Unsupported as _Uns

RESULT_CALLS = {"calculate_results", "add_results", "store_results", "summarize"}

# O9.2 frozen exception table (one reason each)
UNGUARDED_OK = {
    ("MechanicActor", "receiveMsg_WakeupMessage"): "raises only on a payload this class never sends (checked below: the only "
    "wakeupAfter(payload=...) of the class passes the constant the handler compares with)",
}


def payload_type(model, call: ast.Call, handler_msg: dict):
    """Message class name of a send payload: constructor call, or the enclosing handler's own message parameter."""
    if len(call.args) < 2:
        return None
    p = call.args[1]
    if isinstance(p, ast.Call):
        return last_attr(p.func)
    if isinstance(p, ast.Name):
        f = source.enclosing_func(call)
        if f is not None and id(f) in handler_msg and handler_msg[id(f)][0] == p.id:
            return handler_msg[id(f)][1]
        # local assigned from a constructor in the same function
        if f is not None:
            for n in walk_body(f):
                if isinstance(n, ast.Assign) and len(n.targets) == 1 and isinstance(n.targets[0], ast.Name) and n.targets[0].id == p.id:
                    if isinstance(n.value, ast.Call):
                        return last_attr(n.value.func)
    return None


# calls that cannot fail on any value they are given (clock reads, identity / type questions): not "fallible work" for the ordering rules
_CANNOT_FAIL = ("time.time", "time.perf_counter", "time.monotonic", "time.time_ns", "time.perf_counter_ns", "id", "type", "isinstance")


def _harmless(c: ast.AST) -> bool:
    """a logging call (or the getLogger call feeding one), or a call that cannot fail"""
    return _log_noise(c) or (isinstance(c, ast.Call) and dotted(c.func) in _CANNOT_FAIL)


def _log_noise(c: ast.AST) -> bool:
    """A logging call, or the `logging.getLogger(...)` call that is the receiver of one (its arguments are NOT exempt)."""
    if is_logging_call(c):
        return True
    p = source.parent(c)
    return isinstance(c, ast.Call) and dotted(c.func) == "logging.getLogger" and isinstance(p, ast.Attribute) and p.value is c and is_logging_call(source.parent(p))


def _created_actor_locals(func) -> set:
    """Locals of func whose every binding is the result of a createActor(...) call (an actor address by construction)."""
    good, bad = set(), set()
    if func is None:
        return good
    for n in walk_body(func):
        if isinstance(n, ast.Name) and isinstance(n.ctx, (ast.Store, ast.Del)):
            p = source.parent(n)
            if isinstance(p, ast.Assign) and len(p.targets) == 1 and p.targets[0] is n and isinstance(p.value, ast.Call) and last_attr(p.value.func) == "createActor":
                good.add(n.id)
            else:
                bad.add(n.id)
    return good - bad


def _class_method(cls, name):
    """method `name` defined in the body of class node cls (None if absent)."""
    return next((m for m in (cls.body if cls is not None else []) if isinstance(m, source.FUNC_TYPES) and m.name == name), None)


def _is_method_of(func, cls) -> bool:
    return cls is not None and any(m is func for m in cls.body)


class _Ctx:
    """what is known about addresses inside one function: the address attributes of its class, the names that hold an address handed in from outside (the sender of a
    handler; parameters of a helper method that every call site binds to an address), locals bound only to createActor(...) results, single-assignment locals
    (looked through), and - for a helper interpreted at ONE call site - its parameters bound to the caller's argument expressions."""

    def __init__(self, func, addr_attrs, bound=None, outer=None):
        self.func, self.addr_attrs, self.bound, self.outer = func, set(addr_attrs), bound, outer
        self.defs = source.local_defs(func) if func is not None else {}
        self.created = _created_actor_locals(func)
        self.addr_names = set() if bound is not None else _addr_params(func, self.addr_attrs)


_addr_params_busy: set = set()


def _addr_params(func, addr_attrs) -> set:
    """names visible in func that hold an actor address by construction: the sender (third positional parameter) of a message handler; a parameter of a helper method
    that EVERY call site `self.<helper>(...)` in the class binds to an address expression of the caller; the same of an enclosing function (closures), unless shadowed."""
    out: set = set()
    if func is None:
        return out
    ps = params_of(func)
    cls = source.enclosing_class(func)
    if func.name.startswith("receive") and len(ps) >= 3:
        out.add(ps[2])
    elif _is_method_of(func, cls) and id(func) not in _addr_params_busy:
        _addr_params_busy.add(id(func))
        try:
            per = None
            for m in cls.body:
                if not isinstance(m, source.FUNC_TYPES) or m is func:
                    continue
                for c in ast.walk(m):
                    if isinstance(c, ast.Call) and is_self_attr(c.func) and c.func.attr == func.name:
                        caller = source.enclosing_func(c)
                        cx = _Ctx(caller, addr_attrs)
                        here = {p_ for p_, a_ in source.bind_args(c, func).items() if _addr_like(a_, cx)}
                        per = here if per is None else per & here
            out |= per or set()
        finally:
            _addr_params_busy.discard(id(func))
    elif cls is None and source.enclosing_func(func) is None and getattr(func, "_module", None) is not None and id(func) not in _addr_params_busy:
        # a module-level helper function (a step of race() extracted): a parameter that EVERY call site `helper(...)` in the module binds to an address expression of the caller
        _addr_params_busy.add(id(func))
        try:
            per = None
            for c in ast.walk(source.module_of(func).tree):
                if isinstance(c, ast.Call) and isinstance(c.func, ast.Name) and c.func.id == func.name:
                    caller = source.enclosing_func(c)
                    cx = _Ctx(caller, addr_attrs) if caller is not None else None
                    here = {p_ for p_, a_ in source.bind_args(c, func).items() if _addr_like(a_, cx)} if cx is not None else set()
                    per = here if per is None else per & here
            out |= per or set()
        finally:
            _addr_params_busy.discard(id(func))
    enc = source.enclosing_func(func)
    if enc is not None and any(isinstance(r_, ast.Return) and isinstance(r_.value, ast.Name) and r_.value.id == func.name for r_ in walk_body(enc)):
        # a handler wrapper (the guard a decorator returns): what it passes to the wrapped handler - a parameter of the decorator - in the sender position is the sender
        for c in walk_body(func):
            if isinstance(c, ast.Call) and isinstance(c.func, ast.Name) and c.func.id in params_of(enc) and len(c.args) >= 3 and isinstance(c.args[2], ast.Name) and c.args[2].id in ps:
                out.add(c.args[2].id)
    if enc is not None:
        out |= _addr_params(enc, addr_attrs) - set(ps)
        # a parameter literally named sender of the handler a nested function closes over (kept from the first version of the rule)
        if "sender" in params_of(enc) and "sender" not in ps:
            out.add("sender")
    return out


def _addr_like(e, cx: _Ctx, depth=0, none_ok=False) -> bool:
    """is expression e an actor address in context cx? An address attribute of the class / self.myAddress, an address name of cx, a local bound only to createActor(...),
    getattr(<message>, 'reply_to', <address>), a conditional / `or` chain of addresses (an absent (None) address falls through to the next operand of an `or`; the last one
    must be an address), a single-assignment local or a helper parameter whose value is one, or `self.<helper>(...)` every return value of which is one."""
    if depth > 8 or cx is None:
        return False
    if is_self_attr(e):
        return e.attr in cx.addr_attrs or e.attr == "myAddress"
    if isinstance(e, ast.Name):
        if e.id in cx.addr_names or e.id in cx.created:
            return True
        if e.id in cx.defs:
            return _addr_like(cx.defs[e.id], cx, depth + 1, none_ok)
        if cx.bound is not None and e.id in cx.bound:
            return _addr_like(cx.bound[e.id], cx.outer, depth + 1, none_ok)
        return False
    if isinstance(e, ast.Call) and dotted(e.func) == "getattr" and len(e.args) == 3 and source.is_const(e.args[1], "reply_to"):
        return _addr_like(e.args[2], cx, depth + 1) or (none_ok and source.is_const(e.args[2]) and e.args[2].value is None)
    if isinstance(e, ast.IfExp):
        return _addr_like(e.body, cx, depth + 1) and _addr_like(e.orelse, cx, depth + 1)
    if isinstance(e, ast.BoolOp) and isinstance(e.op, ast.Or):
        return all(_addr_like(v_, cx, depth + 1, none_ok=True) for v_ in e.values[:-1]) and _addr_like(e.values[-1], cx, depth + 1)
    if isinstance(e, ast.BoolOp):
        return all(_addr_like(v_, cx, depth + 1) for v_ in e.values)
    if isinstance(e, ast.Call) and is_self_attr(e.func) and cx.func is not None:
        # the target is chosen by a helper method of the class: every value it can return is an address
        helper = _class_method(source.enclosing_class(cx.func), e.func.attr)
        if helper is None:
            return False
        hx = _Ctx(helper, cx.addr_attrs, bound=source.bind_args(e, helper), outer=cx)
        rets = [n for n in walk_body(helper) if isinstance(n, ast.Return)]

        def ret_ok(r_):
            v_ = r_.value
            if v_ is None:
                return False
            if _addr_like(v_, hx, depth + 1):
                return True
            # `x = getattr(msg, "reply_to", None)` returned only where x is known to be set (`if x: return x`)
            return isinstance(v_, ast.Name) and v_.id in hx.defs and _addr_like(hx.defs[v_.id], hx, depth + 1, none_ok=True) \
                and any(isinstance(f_, ast.Name) and f_.id == v_.id for f_ in pat.fact_nodes(r_))

        return bool(rets) and all(ret_ok(r_) for r_ in rets)
    return False


def send_target_ok(call: ast.Call, addr_attrs: set, func) -> bool:
    """Target of a send sink is an actor address (see _addr_like): an address attribute, the sender of the handler (or a helper parameter every call site binds to an
    address), a local bound only to createActor(...) results, getattr(msg, 'reply_to', <address>), a local / helper method / or-chain that yields one of these."""
    if not call.args:
        return False
    return _addr_like(call.args[0], _Ctx(func, addr_attrs))


def _addr_verdict(e, cx: _Ctx, depth=0):
    """True: e is an actor address (see _addr_like); False: it is located and is NOT one (a constant, an attribute of the class that is assigned but never from a sender /
    createActor, a local one of whose several bindings is no address); None: not recognised (a foreign attribute, the result of a call the rule does not follow, a parameter
    that is not proven to be an address at every call site)."""
    if _addr_like(e, cx):
        return True
    if depth > 4 or cx is None or cx.func is None:
        return None
    if isinstance(e, ast.Constant):
        return False
    if isinstance(e, ast.Name):
        if e.id in cx.defs:
            return _addr_verdict(cx.defs[e.id], cx, depth + 1)
        a_ = cx.func.args
        if e.id in [x.arg for x in a_.posonlyargs + a_.args + a_.kwonlyargs]:
            return None
        stores = [n for n in walk_body(cx.func) if isinstance(n, ast.Name) and n.id == e.id and isinstance(n.ctx, ast.Store)]
        plain = [n for n in stores if isinstance(source.parent(n), ast.Assign) and any(t is n for t in source.parent(n).targets)]
        return False if stores and len(plain) == len(stores) else None
    if is_self_attr(e):
        cls = source.enclosing_class(cx.func)
        assigned = cls is not None and any(isinstance(n, ast.Attribute) and isinstance(n.ctx, ast.Store) and is_self_attr(n, e.attr) for m in cls.body if isinstance(m, source.FUNC_TYPES) for n in ast.walk(m))
        if not assigned:
            return None
        # "assigned in the class but never an address" is only a verdict if nothing out of sight could store an address there: no method that is not defined in this
        # class (inherited / mixed in) is handed the sender of a handler
        for m in cls.body:
            if isinstance(m, source.FUNC_TYPES):
                snd = _addr_params(m, cx.addr_attrs)
                for c in ast.walk(m):
                    if isinstance(c, ast.Call) and is_self_attr(c.func) and c.func.attr not in ("send", "createActor", "wakeupAfter") and _class_method(cls, c.func.attr) is None \
                            and any(isinstance(a_, ast.Name) and a_.id in snd for a_ in list(c.args) + [k.value for k in c.keywords]):
                        return None
        return False
    if isinstance(e, (ast.IfExp, ast.BoolOp)):
        parts = [e.body, e.orelse] if isinstance(e, ast.IfExp) else list(e.values)
        return False if any(_addr_verdict(x, cx, depth + 1) is False for x in parts) else None
    if isinstance(e, ast.Call) and dotted(e.func) == "getattr" and len(e.args) == 3 and source.is_const(e.args[1], "reply_to"):
        return _addr_verdict(e.args[2], cx, depth + 1)  # the requester stamped into the message, else the default: as good as the default (None: nobody is told)
    return None


def send_target_verdict(call: ast.Call, addr_attrs: set, func):
    """True / False / None (not recognised) for the target of a send sink, see _addr_verdict."""
    if not call.args:
        return False
    return _addr_verdict(call.args[0], _Ctx(func, addr_attrs))


def _origin_handlers(func, cls, depth=0) -> list:
    """names of the message handlers on whose behalf func runs: func itself if it is one, else the handlers that reach it through `self.<func>(...)` calls in the class."""
    if func.name.startswith("receive"):
        return [func.name]
    out = []
    if depth < 3 and cls is not None:
        for m in cls.body:
            if isinstance(m, source.FUNC_TYPES) and m is not func and any(isinstance(c, ast.Call) and is_self_attr(c.func) and c.func.attr == func.name for c in ast.walk(m)):
                out += _origin_handlers(m, cls, depth + 1)
    return out


def _address_attrs(model, a) -> dict:
    """ActorModel.address_attrs by data flow: self.<attr> assigned (in a handler, or in a helper method the handler hands its sender to) a value that is the handler's sender
    or getattr(msg, 'reply_to', sender) - directly or through single-assignment locals -, or the result of createActor(...). {attr: [(handler name, kind, node)]}"""
    out: dict = {k: list(v) for k, v in model.address_attrs(a).items()}
    seen = {id(n) for v in out.values() for _, _, n in v}
    for name, f in a.methods.items():
        if name == "__init__":
            continue
        cx = _Ctx(f, ())
        if not cx.addr_names and not cx.defs:
            continue
        for n in walk_body(f):
            if isinstance(n, ast.Assign) and len(n.targets) == 1 and is_self_attr(n.targets[0]) and id(n) not in seen:
                v, k = n.value, 0
                while isinstance(v, ast.Name) and v.id in cx.defs and k < 5:
                    v, k = cx.defs[v.id], k + 1
                if isinstance(v, ast.Call) and last_attr(v.func) == "createActor":
                    out.setdefault(n.targets[0].attr, []).append((name, "createActor", n))
                elif (isinstance(v, ast.Name) and v.id in cx.addr_names) or (isinstance(v, ast.Call) and dotted(v.func) == "getattr" and len(v.args) == 3
                                                                           and source.is_const(v.args[1], "reply_to") and isinstance(v.args[2], ast.Name) and v.args[2].id in cx.addr_names):
                    for hn in _origin_handlers(f, a.node) or [name]:
                        out.setdefault(n.targets[0].attr, []).append((hn, "sender", n))
    return out


def _infallible_expr(e) -> bool:
    """an expression that cannot raise on the plain objects a handler is given: names, constants, getattr with a default, and identity tests / boolean combinations /
    tuples of such (a preamble made of such bindings in front of a whole-body try leaves nothing unguarded)."""
    if isinstance(e, (ast.Name, ast.Constant)):
        return True
    if isinstance(e, ast.Call) and dotted(e.func) == "getattr" and len(e.args) == 3 and not e.keywords:
        return all(_infallible_expr(x) for x in e.args)
    if isinstance(e, ast.IfExp):
        return all(_infallible_expr(x) for x in (e.test, e.body, e.orelse))
    if isinstance(e, ast.BoolOp):
        return all(_infallible_expr(x) for x in e.values)
    if isinstance(e, ast.UnaryOp) and isinstance(e.op, ast.Not):
        return _infallible_expr(e.operand)
    if isinstance(e, ast.Compare) and all(isinstance(o, (ast.Is, ast.IsNot)) for o in e.ops):
        return all(_infallible_expr(x) for x in [e.left] + e.comparators)
    if isinstance(e, ast.Tuple):
        return all(_infallible_expr(x) for x in e.elts)
    return False


def _must_send_failure(cls, call, depth=0) -> bool:
    """`self.<helper>(...)`: the helper method sends a BenchmarkFailure on every path to its normal end (directly or through a further helper)."""
    if depth > 3 or not (isinstance(call, ast.Call) and is_self_attr(call.func)):
        return False
    helper = _class_method(cls, call.func.attr)
    if helper is None:
        return False
    g = cfg_of(helper)
    nodes = [g.node_of(c) for c in walk_body(helper) if isinstance(c, ast.Call) and (is_failure_send(c) or _must_send_failure(cls, c, depth + 1))]
    return bool(nodes) and g.must_pass(g.entry, nodes)


def _handler_guard(func):
    """handler_guard (sa.classes) that also recognises a whole-body try preceded by bindings that cannot raise (`reply_to = getattr(msg, "reply_to", sender)` hoisted out of
    the try), and a broad handler that reports through a helper method of the class which sends the BenchmarkFailure on every path."""
    g = handler_guard(func)
    if g is not None:
        return g
    body = [s for s in func.body if not (isinstance(s, ast.Expr) and isinstance(s.value, ast.Constant)) and not is_logging_stmt(s)]
    if all(isinstance(s, ast.Pass) or (isinstance(s, ast.Assign) and all(isinstance(t, ast.Name) or is_self_attr(t) for t in s.targets) and _infallible_expr(s.value)) for s in body):
        return "nothing-fallible"  # the handler only logs / stores names and constants: there is nothing a guard could catch
    i = 0
    while i < len(body) and isinstance(body[i], ast.Assign) and all(isinstance(t, ast.Name) for t in body[i].targets) and _infallible_expr(body[i].value):
        i += 1
    if len(body) - i != 1 or not isinstance(body[i], ast.Try):
        return None
    cls = source.enclosing_class(func)
    for h in body[i].handlers:
        if h.type is None or last_attr(h.type) in ("Exception", "BaseException"):
            sends = [n for b in h.body for n in source.walk_local(b) if is_failure_send(n) or _must_send_failure(cls, n)]
            if any(not guards(n, stop=h) for n in sends):
                return "try"
    return None


class _NoValue(Exception):
    pass


_NO_REPLY_TO = object()  # stands for a message that has no reply_to attribute (a wake-up)


def _address_value(e, env, cls, depth=0):
    """Value of an address expression in a scenario: names from env, self.myAddress = 'SELF', any other self.<x> = 'ADDR:<x>' (a set address attribute),
    getattr(<message without reply_to>, 'reply_to', d) = d, helper methods of the class interpreted (straight-line code, if / conditional expressions on ==, !=, and, or, not)."""
    if depth > 8:
        raise _NoValue("helper nesting")
    if isinstance(e, ast.Name):
        if e.id in env:
            return env[e.id]
        raise _NoValue(f"name {e.id}")
    if isinstance(e, ast.Constant):
        return e.value
    if is_self_attr(e):
        return "SELF" if e.attr == "myAddress" else env.get(f"self.{e.attr}", f"ADDR:{e.attr}")
    if isinstance(e, ast.Call) and dotted(e.func) == "getattr" and len(e.args) == 3 and isinstance(e.args[1], ast.Constant):
        obj = _address_value(e.args[0], env, cls, depth + 1)
        if obj is _NO_REPLY_TO:
            return _address_value(e.args[2], env, cls, depth + 1)
        raise _NoValue("getattr on a value the scenario does not fix")
    if isinstance(e, ast.IfExp):
        return _address_value(e.body if _address_value(e.test, env, cls, depth + 1) else e.orelse, env, cls, depth + 1)
    if isinstance(e, ast.BoolOp):
        v = None
        for x in e.values:
            v = _address_value(x, env, cls, depth + 1)
            if (isinstance(e.op, ast.And) and not v) or (isinstance(e.op, ast.Or) and v):
                return v
        return v
    if isinstance(e, ast.UnaryOp) and isinstance(e.op, ast.Not):
        return not _address_value(e.operand, env, cls, depth + 1)
    if isinstance(e, ast.Compare) and len(e.ops) == 1 and isinstance(e.ops[0], (ast.Eq, ast.NotEq, ast.Is, ast.IsNot)):
        a_, b_ = _address_value(e.left, env, cls, depth + 1), _address_value(e.comparators[0], env, cls, depth + 1)
        same = a_ is b_ if a_ is None or b_ is None or a_ is _NO_REPLY_TO or b_ is _NO_REPLY_TO else a_ == b_
        return same if isinstance(e.ops[0], (ast.Eq, ast.Is)) else not same
    if isinstance(e, ast.Call) and is_self_attr(e.func):
        helper = next((m for m in cls.body if isinstance(m, source.FUNC_TYPES) and m.name == e.func.attr), None)
        if helper is None:
            raise _NoValue(f"method {e.func.attr}")
        henv = {k: _address_value(v, env, cls, depth + 1) for k, v in source.bind_args(e, helper).items()}
        henv.update({k: v for k, v in env.items() if k.startswith("self.")})

        def run(stmts):
            for st in stmts:
                if isinstance(st, ast.Return):
                    return ("ret", None if st.value is None else _address_value(st.value, henv, cls, depth + 1))
                if isinstance(st, ast.Assign) and len(st.targets) == 1 and isinstance(st.targets[0], ast.Name):
                    henv[st.targets[0].id] = _address_value(st.value, henv, cls, depth + 1)
                elif isinstance(st, ast.If):
                    r = run(st.body if _address_value(st.test, henv, cls, depth + 1) else st.orelse)
                    if r is not None:
                        return r
                elif is_logging_stmt(st) or (isinstance(st, ast.Expr) and isinstance(st.value, ast.Constant)):
                    continue
                else:
                    raise _NoValue(f"statement {type(st).__name__} in {helper.name}")
            return None

        r = run(helper.body)
        if r is None:
            raise _NoValue(f"{helper.name} does not return")
        return r[1]
    raise _NoValue(f"expression {type(e).__name__}")


_ldefs_cache: dict = {}


def _ldefs(func) -> dict:
    """source.local_defs(func), cached per function node."""
    if func is None:
        return {}
    hit = _ldefs_cache.get(id(func))
    if hit is None or hit[0] is not func:
        hit = (func, source.local_defs(func))
        _ldefs_cache[id(func)] = hit
    return hit[1]


def _through_locals(e, func, limit=4):
    """the expression a single-assignment local stands for (`failure = BenchmarkFailure(..); self.send(x, failure)`)."""
    defs, k = _ldefs(func), 0
    while isinstance(e, ast.Name) and e.id in defs and k < limit:
        e, k = defs[e.id], k + 1
    return e


def _payload_ctor(call, func=None):
    """constructor call that builds the payload (second argument) of a send / ask / tell, looking through single-assignment locals; None if it is not built in this function."""
    if not (isinstance(call, ast.Call) and len(call.args) >= 2):
        return None
    p = _through_locals(call.args[1], func if func is not None else source.enclosing_func(call))
    return p if isinstance(p, ast.Call) else None


def _sends(call, func, *classes) -> bool:
    """call is send/ask/tell whose payload is constructed (directly or via a single-assignment local) as one of the message classes."""
    if not (isinstance(call, ast.Call) and last_attr(call.func) in ("send", "ask", "tell")):
        return False
    p = _payload_ctor(call, func)
    return p is not None and last_attr(p.func) in classes


def _is_failure_send(call, func=None) -> bool:
    return is_failure_send(call) or _sends(call, func, "BenchmarkFailure")


def _reads_params(exprs, func) -> bool:
    """one of the expressions (looked at through single-assignment locals) reads a parameter of func other than self / cls"""
    a = func.args
    own = [x.arg for x in a.posonlyargs + a.args + a.kwonlyargs] + [x.arg for x in (a.vararg, a.kwarg) if x is not None]
    if own and own[0] in ("self", "cls"):
        own = own[1:]
    own = set(own)
    for e in exprs:
        v = _through_locals(e.value if isinstance(e, ast.Starred) else e, func)
        if any(isinstance(x, ast.Name) and isinstance(x.ctx, ast.Load) and x.id in own for x in ast.walk(v)):
            return True
    return False


def _report_call_sites(ctor, func, cls, mod, depth=0) -> list:
    """The call sites that stand for the message construction `ctor` when it sits in a reporting helper: a method of the class (called as self.<name>(..) from the
    class) or a module-level function (called by name in its module) that builds the message from its own parameters. Seen with the helper inlined, every such
    call is one construction of the message; a call that in turn only passes its caller's parameters on is followed to that caller's call sites (two levels).
    -> [(call, [helper names, outermost first])]; [] when the message is not built from parameters or the function has no call site (the construction is the instance)."""
    if func is None or isinstance(func, ast.Lambda) or not _reads_params(list(ctor.args) + [k.value for k in ctor.keywords], func):
        return []
    if cls is not None and any(m_ is func for m_ in cls.body):
        sites = [c for c in ast.walk(cls) if isinstance(c, ast.Call) and is_self_attr(c.func) and c.func.attr == func.name]
    elif cls is None and any(s_ is func for s_ in mod.tree.body):
        sites = [c for c in ast.walk(mod.tree) if isinstance(c, ast.Call) and isinstance(c.func, ast.Name) and c.func.id == func.name]
    else:
        return []
    out = []
    for c in sites:
        caller = source.enclosing_func(c)
        outer = _report_call_sites(c, caller, source.enclosing_class(c), mod, depth + 1) if depth < 2 and caller is not None and caller is not func else []
        if outer:
            out += [(c2, chain + [func.name]) for c2, chain in outer]
        else:
            out.append((c, [func.name]))
    return out


def _report_sites(model, a, f, msg_names: set, addr_attrs: set, accept_failure: bool, depth=0):
    """(recognised, unrecognised) sites in f that report upwards: self.send(<address>, <m>) with m one of msg_names (the message being forwarded) or - with accept_failure -
    a freshly built BenchmarkFailure, and calls of helper methods of the class that do so on every path of theirs (handed the message where one is forwarded).
    recognised: [(node in f, [leaf])], leaf = (send call, function containing it, [(call, callee)] chain from f down to that function);
    unrecognised: such sends whose target is not recognised as an actor address (nodes in f)."""
    rec, unrec = [], []
    for c in walk_body(f):
        if not isinstance(c, ast.Call):
            continue
        if last_attr(c.func) == "send":
            if len(c.args) >= 2 and ((isinstance(c.args[1], ast.Name) and c.args[1].id in msg_names) or (accept_failure and _is_failure_send(c, f))):
                if send_target_ok(c, addr_attrs, f):
                    rec.append((c, [(c, f, [])]))
                else:
                    unrec.append(c)
            continue
        if is_self_attr(c.func) and depth < 3:
            callee = model.table.method(a, c.func.attr)
            if callee is None or callee is f:
                continue
            inner = {p_ for p_, v_ in source.bind_args(c, callee).items() if isinstance(v_, ast.Name) and v_.id in msg_names}
            if not inner and not accept_failure:
                continue
            r2, u2 = _report_sites(model, a, callee, inner, addr_attrs, accept_failure, depth + 1)
            gh = cfg_of(callee)
            if r2 and gh.must_pass(gh.entry, [gh.node_of(x) for x, _ in r2]):
                rec.append((c, [(lc, lf, [(c, callee)] + ch) for _, lfs in r2 for lc, lf, ch in lfs]))
            elif u2:
                unrec.append(c)
            # a helper that reports on some of its paths only is no reporting site: the path analysis of the caller then shows the bypass
    return rec, unrec


def _leaf_parent_attr(leaf) -> str:
    """the address attribute a reporting send goes to (through locals and helper parameters), or 'reply_to|sender' for a computed target."""
    send_call, func, chain = leaf
    t = _through_locals(send_call.args[0], func)
    for call, callee in reversed(chain):
        if isinstance(t, ast.Name) and t.id in params_of(callee):
            t = source.bind_args(call, callee).get(t.id, t)
            t = _through_locals(t, source.enclosing_func(call))
        else:
            break
    return t.attr if is_self_attr(t) else "reply_to|sender"


def _leaf_target_value(leaf, env0: dict, clsnode):
    """_address_value of a reporting send's target in the scenario env0 (names of the handler), carried through the helper calls that lead to the send."""
    send_call, func, chain = leaf
    env = dict(env0)
    for call, callee in chain:
        henv = {k: v for k, v in env.items() if k.startswith("self.")}
        caller = source.enclosing_func(call)
        for k, v in source.bind_args(call, callee).items():
            try:
                henv[k] = _address_value(source.inline_node(v, _ldefs(caller)), env, clsnode)
            except _NoValue:
                pass  # an argument the scenario does not fix (a text, a count): only a problem if the target depends on it
        env = henv
    return _address_value(source.inline_node(send_call.args[0], _ldefs(func)), env, clsnode)


def _attr_classes(model, a) -> dict:
    """{attribute: ClassInfo} for `self.<attribute> = <PackageClass>(...)` in the methods of actor class a (the plain objects an actor delegates to)."""
    out = {}
    for m in a.methods.values():
        for n in walk_body(m):
            if isinstance(n, ast.Assign) and len(n.targets) == 1 and is_self_attr(n.targets[0]):
                v = _through_locals(n.value, m)
                if isinstance(v, ast.Call) and last_attr(v.func) in model.table.by_name and last_attr(v.func) != "createActor":
                    out[n.targets[0].attr] = model.table.by_name[last_attr(v.func)][0]
    return out


def _result_calls(coord_ci) -> list:
    """(method, call) for every call in the coordinator that computes, stores or prints results; store_race counts where the method also computes / adds results
    (the first store of a race, before anything ran, carries none)."""
    out = []
    for m in coord_ci.methods.values():
        calls = [n for n in walk_body(m) if isinstance(n, ast.Call)]
        if any(last_attr(n.func) in RESULT_CALLS for n in calls):
            out += [(m, n) for n in calls if last_attr(n.func) in RESULT_CALLS or last_attr(n.func) == "store_race"]
    return out


def _guard_chains(coord_ci, m, n, depth=0) -> list:
    """lists of (test, polarity) under which call n of method m runs: its own guards, extended by the guards of every call site `self.<m>(...)` inside the class
    (a helper that holds the result calls inherits the conditions it is called under); one list per call chain."""
    own = guards(n, path_sensitive=True)
    sites = [(m2, c) for m2 in coord_ci.methods.values() if m2 is not m for c in walk_body(m2) if isinstance(c, ast.Call) and is_self_attr(c.func) and c.func.attr == m.name]
    if not sites or depth >= 3:
        return [own]
    return [up + own for m2, c in sites for up in _guard_chains(coord_ci, m2, c, depth + 1)]


def _result_guard_flags(coord_ci, raised=()) -> set:
    """the boolean attributes of the coordinator (assigned False in __init__) that occur in the conditions guarding its result calls, or are among `raised`
    (attributes somebody else sets to True on it)."""
    init = coord_ci.methods.get("__init__")
    false_attrs = {t.attr for n in (walk_body(init) if init is not None else []) if isinstance(n, ast.Assign) and source.is_const(n.value, False) for t in n.targets if is_self_attr(t)}
    used = set()
    for m, n in _result_calls(coord_ci):
        for chain in _guard_chains(coord_ci, m, n):
            for t, _ in chain:
                used |= {x.attr for x in ast.walk(t) if is_self_attr(x)}
    return (used | set(raised)) & false_attrs


def _allowed_flag_envs(chain, flags) -> list:
    """assignments of the flags under which every (test, polarity) of the chain can hold. Atoms that depend on the flags only are EVALUATED (`not self.error`,
    `self.error is False`, `self.cancelled == True` ...); any other atom is a free boolean (the call is reachable under an assignment if SOME value of those atoms lets it through)."""
    import itertools
    from sa.sym import atoms_of, bool_eval

    names = sorted(flags)

    def value(n, env):
        try:
            return bool(_ev(n, {"self": Record(**env)}))
        except Exception:  # CannotEval, or a Python error on the stand-in: not an atom over the flags
            return None

    foreign = []
    for t, _ in chain:
        for a_ in atoms_of(t):
            if value(a_, dict.fromkeys(names, False)) is None and u(a_) not in foreign:
                foreign.append(u(a_))
    if len(foreign) > 6:
        raise UnknownAtom(", ".join(foreign[:3]))
    out = []
    for vals in itertools.product([False, True], repeat=len(names)):
        env = dict(zip(names, vals))
        for fv in itertools.product([False, True], repeat=len(foreign)):
            fenv = dict(zip(foreign, fv))

            def atom(n, env=env, fenv=fenv):
                if isinstance(n, ast.BoolOp) or (isinstance(n, ast.UnaryOp) and isinstance(n.op, ast.Not)):
                    return None
                v = value(n, env)
                return fenv[u(n)] if v is None else v

            if all(bool_eval(t, atom) == pol for t, pol in chain):
                out.append(env)
                break
    return out


def _flag_stores(model, a, f, flags: set, attr_cls: dict):
    """(nodes of f that set one of the flags to True, what f sets to True instead: other attributes, or a flag on some paths of a callee only): direct stores
    `<x>.<flag> = True`, and calls of a method of the class / of an object held in an attribute (attr_cls) that does so on every path."""
    nodes, foreign = [], []
    for n in walk_body(f):
        if isinstance(n, ast.Assign) and source.is_const(n.value, True):
            for t in n.targets:
                if isinstance(t, ast.Attribute):
                    (nodes if t.attr in flags else foreign).append(n if t.attr in flags else t.attr)
        elif isinstance(n, ast.Call) and isinstance(n.func, ast.Attribute):
            callee = None
            if is_self_attr(n.func) and n.func.attr != "send":
                callee = model.table.method(a, n.func.attr)
            elif is_self_attr(n.func.value) and n.func.value.attr in attr_cls:
                callee = model.table.method(attr_cls[n.func.value.attr], n.func.attr)
            if callee is not None and callee is not f:
                gh = cfg_of(callee)
                st = [x for x in walk_body(callee) if isinstance(x, ast.Assign) and source.is_const(x.value, True) and any(isinstance(t, ast.Attribute) and t.attr in flags for t in x.targets)]
                if st and gh.must_pass(gh.entry, [gh.node_of(x) for x in st]):
                    nodes.append(n)
                elif st:
                    foreign.append(f"a flag in {callee.name}() on some paths only")
    return nodes, foreign


def _opaque_calls(f, known=()) -> list:
    """calls in f whose effect the rule has not looked at: neither logging, nor one of the known calls (or part of their arguments), nor a builtin conversion."""
    inside = {id(x) for k in known for x in ast.walk(k)}
    return [c for c in walk_body(f) if isinstance(c, ast.Call) and id(c) not in inside and not _log_noise(c) and dotted(c.func) not in ("str", "repr", "format", "len", "isinstance", "getattr", "vars")]


def _truthy_edge(test: ast.AST, var: str):
    """CFG edge label ('true' / 'false') an `if test:` takes when local `var` holds an exception object, provided the test decides on var alone
    (the other value, None, takes the other edge); None if the test is not such a decision."""
    def val(v):
        try:
            return bool(_ev(test, {var: v}))
        except Exception:  # CannotEval, or a Python error on the stand-in value: not a decision this evaluator understands
            return None
    a, b = val(Record(exception=True)), val(None)
    if a is None or b is None or a == b:
        return None
    return "true" if a else "false"


# ---- a small interpreter of one request function (execute_single) for ONE failing request: the exception object is a record with the attributes the scenario fixes and a library
# class (class tests are decided on the parsed library hierarchy); statements are executed on values (assignments, dict stores, if / raise / return, helpers of the module);
# nothing of the repository is run. A value that cannot be computed is only a problem when a decision depends on it (then the scenario is "not recognised").
class _SimUnsupported(Exception):
    pass


class _SimRaised(Exception):
    def __init__(self, node):
        super().__init__("raise")
        self.node = node


class _Unk:
    """a value the interpreter could not compute: every decision that depends on it raises CannotEval"""

    def _no(self, *a, **k):
        raise CannotEval("a value the interpreter could not compute")

    __bool__ = __eq__ = __ne__ = __len__ = __getitem__ = __iter__ = __contains__ = __lt__ = __gt__ = __le__ = __ge__ = _no
    __hash__ = object.__hash__


class _Exc(Record):
    """an exception object: library class + the attributes the scenario fixes"""

    def __init__(self, cls, **fields):
        super().__init__(**fields)
        self.cls = cls

    def __repr__(self):
        return f"{self.cls.rsplit('.', 1)[-1]}({', '.join(f'{k}={v!r}' for k, v in self.fields.items())})"


_SIM_ERRORS = (CannotEval, TypeError, ValueError, KeyError, AttributeError, IndexError)
_SIM_MUTATORS = ("update", "setdefault", "pop", "append", "extend", "clear", "add", "remove", "discard", "insert")


class _Sim:
    def __init__(self, mod, hier, exc=None):
        self.mod, self.hier, self.exc = mod, hier, exc
        self.injected = exc is None  # the exception is raised by the first try whose body awaits something (the request)
        self.depth = self.steps = 0
        self.ret_node = None  # the return statement that ended the outermost function

    # -- expressions ------------------------------------------------------------------------------------------------------------
    def cls_name(self, node):
        d = dotted(node)
        if d is None:
            return None
        if self.hier.known(d) and "." in d:
            return d
        head = d.split(".")[0]
        full = getattr(self.mod, "imports", {}).get(head)
        if full and full != head and self.hier.known(full + d[len(head):]):
            return full + d[len(head):]
        return d if self.hier.known(d) else None

    def _class_test(self, n, env):
        """type(x) is C / x.__class__ == C / ... for an exception record x and a library class C, in either orientation: its truth value; None if n is not such a test"""
        if not (isinstance(n, ast.Compare) and len(n.ops) == 1 and isinstance(n.ops[0], (ast.Is, ast.IsNot, ast.Eq, ast.NotEq))):
            return None
        for a_, b_ in ((n.left, n.comparators[0]), (n.comparators[0], n.left)):
            obj = a_.args[0] if isinstance(a_, ast.Call) and dotted(a_.func) == "type" and len(a_.args) == 1 and not a_.keywords else \
                (a_.value if isinstance(a_, ast.Attribute) and a_.attr == "__class__" else None)
            c_ = self.cls_name(b_)
            if obj is None or c_ is None:
                continue
            try:
                v_ = self.ev(obj, env)
            except _SIM_ERRORS:
                continue
            if isinstance(v_, _Exc):
                same = self.hier.resolve_alias(v_.cls) == self.hier.resolve_alias(c_)
                return same if isinstance(n.ops[0], (ast.Is, ast.Eq)) else not same
        return None

    def _special_call(self, n, env):
        """(value,) of a call the interpreter understands beyond minieval (class membership of the exception record, hasattr / getattr / str on records, functions of the module
        interpreted on the values of their arguments), else None"""
        d = dotted(n.func)

        def arg(i):
            return self.ev(n.args[i], env)

        try:
            if d == "isinstance" and len(n.args) == 2 and not n.keywords:
                v_ = arg(0)
                if isinstance(v_, _Exc):
                    cs_ = [self.cls_name(x) for x in (n.args[1].elts if isinstance(n.args[1], ast.Tuple) else [n.args[1]])]
                    if all(c_ is not None for c_ in cs_):
                        return (any(self.hier.is_subclass(v_.cls, c_) for c_ in cs_),)
                return None
            if d == "hasattr" and len(n.args) == 2 and source.is_const(n.args[1]) and not n.keywords:
                v_ = arg(0)
                return (n.args[1].value in v_.fields,) if isinstance(v_, Record) else None
            if d == "getattr" and len(n.args) in (2, 3) and source.is_const(n.args[1]) and not n.keywords:
                v_ = arg(0)
                if isinstance(v_, Record):
                    if n.args[1].value in v_.fields:
                        return (v_.fields[n.args[1].value],)
                    return (arg(2),) if len(n.args) == 3 else None
                return None
            if d in ("str", "repr") and len(n.args) == 1 and not n.keywords:
                v_ = arg(0)
                return (str(v_.fields.get("message", v_.cls)),) if isinstance(v_, _Exc) else None
        except _SIM_ERRORS:
            return None
        if isinstance(n.func, ast.Name) and n.func.id not in env:
            fn = self.mod.get(n.func.id, required=False)
            if isinstance(fn, source.FUNC_TYPES) and not any(isinstance(a_, ast.Starred) for a_ in n.args) and not any(k.arg is None for k in n.keywords):
                vals = {}
                for p_, a_ in source.bind_args(n, fn, skip_self=False).items():
                    try:
                        vals[p_] = self.ev(a_, env)
                    except _SIM_ERRORS:
                        vals[p_] = _Unk()
                return (self.call(fn, vals),)
        return None

    def ev(self, expr, env):
        sim = self

        class T(ast.NodeTransformer):
            def visit_Await(self, n):
                return self.visit(n.value)

            def visit_Compare(self, n):
                r_ = sim._class_test(n, env)
                return ast.Constant(value=r_) if r_ is not None else self.generic_visit(n)

            def visit_Call(self, n):
                r_ = sim._special_call(n, env)
                return ast.Constant(value=r_[0]) if r_ is not None else self.generic_visit(n)

        return _ev(T().visit(source.clone(expr)), env)

    # -- statements -------------------------------------------------------------------------------------------------------------
    def call(self, fn, vals: dict):
        if self.depth > 4:
            raise CannotEval("helper nesting")
        env = dict(vals)
        a_ = fn.args
        pos = a_.posonlyargs + a_.args
        for p_, d_ in list(zip(pos[len(pos) - len(a_.defaults):], a_.defaults)) + [(p_, d_) for p_, d_ in zip(a_.kwonlyargs, a_.kw_defaults) if d_ is not None]:
            if p_.arg not in env:
                try:
                    env[p_.arg] = self.ev(d_, {})
                except _SIM_ERRORS:
                    pass
        self.depth += 1
        try:
            kind, val = self.block(fn.body, env)
        finally:
            self.depth -= 1
        return val if kind == "return" else None

    def _bind(self, target, value, env, failed=False):
        if isinstance(target, ast.Name):
            if failed:
                env.pop(target.id, None)
            else:
                env[target.id] = value
        elif isinstance(target, (ast.Tuple, ast.List)):
            vals = list(value) if not failed and isinstance(value, (tuple, list)) and len(value) == len(target.elts) and not any(isinstance(t, ast.Starred) for t in target.elts) else None
            for i, t in enumerate(target.elts):
                self._bind(t.value if isinstance(t, ast.Starred) else t, None if vals is None else vals[i], env, failed=vals is None)
        elif isinstance(target, ast.Subscript):
            try:
                box = self.ev(target.value, env)
            except _SIM_ERRORS:
                return  # a container the scenario does not know: nothing it decides on
            if isinstance(box, (dict, list)):
                try:
                    box[self.ev(target.slice, env)] = _Unk() if failed else value
                except _SIM_ERRORS:
                    raise _SimUnsupported(f"store `{short(target, 50)}` under a key that cannot be computed")
        elif isinstance(target, ast.Attribute):
            try:
                box = self.ev(target.value, env)
            except _SIM_ERRORS:
                return
            if isinstance(box, Record):
                box.fields[target.attr] = _Unk() if failed else value
        else:
            raise _SimUnsupported(f"assignment target {type(target).__name__}")

    def block(self, stmts, env):
        for s in stmts:
            self.steps += 1
            if self.steps > 3000:
                raise _SimUnsupported("too many steps")
            if isinstance(s, (ast.Pass, ast.Import, ast.ImportFrom, ast.Global, ast.Nonlocal, ast.Assert)) or isinstance(s, source.FUNC_TYPES) or isinstance(s, ast.ClassDef):
                continue
            if isinstance(s, ast.Expr):
                if isinstance(s.value, ast.Constant) or is_logging_stmt(s) or _log_noise(s.value):
                    continue
                c = s.value.value if isinstance(s.value, ast.Await) else s.value
                if isinstance(c, ast.Call) and isinstance(c.func, ast.Attribute) and c.func.attr in _SIM_MUTATORS:
                    try:
                        box = self.ev(c.func.value, env)
                    except _SIM_ERRORS:
                        continue  # a container the scenario does not know
                    if isinstance(box, (dict, list, set)):
                        try:
                            getattr(box, c.func.attr)(*[self.ev(a_, env) for a_ in c.args], **{k.arg: self.ev(k.value, env) for k in c.keywords})
                        except _SIM_ERRORS:
                            raise _SimUnsupported(f"`{short(c, 60)}` changes a value of the scenario in a way that cannot be computed")
                        continue
                try:
                    self.ev(s.value, env)
                except _SIM_ERRORS:
                    # a call the interpreter cannot follow: the mutable values it is handed are unknown from here on
                    for x in ast.walk(s.value):
                        if isinstance(x, ast.Name) and isinstance(env.get(x.id), (dict, list, set)) and isinstance(source.parent(x), (ast.Call, ast.keyword)):
                            env.pop(x.id, None)
                continue
            if isinstance(s, ast.Assign):
                try:
                    v_, failed = self.ev(s.value, env), False
                except _SIM_ERRORS:
                    v_, failed = None, True
                for t in s.targets:
                    self._bind(t, v_, env, failed)
                continue
            if isinstance(s, ast.AnnAssign):
                if s.value is not None:
                    try:
                        self._bind(s.target, self.ev(s.value, env), env)
                    except _SIM_ERRORS:
                        self._bind(s.target, None, env, failed=True)
                continue
            if isinstance(s, ast.AugAssign):
                load = ast.parse(u(s.target), mode="eval").body
                try:
                    v_, failed = self.ev(ast.BinOp(left=load, op=s.op, right=ast.parse(u(s.value), mode="eval").body), env), False
                except _SIM_ERRORS:
                    v_, failed = None, True
                self._bind(s.target, v_, env, failed)
                continue
            if isinstance(s, ast.If):
                try:
                    t_ = bool(self.ev(s.test, env))
                except _SIM_ERRORS as e:
                    raise _SimUnsupported(f"the test `{short(s.test, 60)}` cannot be decided in the scenario ({e})")
                r_ = self.block(s.body if t_ else s.orelse, env)
                if r_[0] != "fall":
                    return r_
                continue
            if isinstance(s, ast.Return):
                if self.depth == 0:
                    self.ret_node = s
                if s.value is None:
                    return "return", None
                try:
                    return "return", self.ev(s.value, env)
                except _SIM_ERRORS:
                    return "return", _Unk()
            if isinstance(s, ast.Raise):
                raise _SimRaised(s)
            if isinstance(s, (ast.With, ast.AsyncWith)):
                for it in s.items:
                    if it.optional_vars is not None:
                        self._bind(it.optional_vars, None, env, failed=True)
                r_ = self.block(s.body, env)
                if r_[0] != "fall":
                    return r_
                continue
            if isinstance(s, ast.Try):
                if not self.injected and any(isinstance(x, ast.Await) for b_ in s.body for x in ast.walk(b_)):
                    # the request of the scenario fails here
                    from sa.exc import handler_type_names

                    self.injected = True
                    h = next((h_ for h_ in s.handlers if self.hier.catches(handler_type_names(h_), self.exc.cls)), None)
                    if h is None:
                        self.block(s.finalbody, env)
                        raise _SimRaised(s)
                    if h.name:
                        env[h.name] = self.exc
                    r_ = self.block(h.body, env)
                    if r_[0] == "fall":
                        r_ = self.block(s.finalbody, env)
                    if r_[0] != "fall":
                        return r_
                    continue
                for part in (s.body, s.orelse, s.finalbody):
                    r_ = self.block(part, env)
                    if r_[0] != "fall":
                        return r_
                continue
            raise _SimUnsupported(f"statement {type(s).__name__} at line {getattr(s, 'lineno', '?')}")
        return "fall", None


def _request_outcome(mod, hier, fn, exc, env):
    """how fn (the request function) ends when its request raises exc, started with the parameter values env: ('raise' | 'return' | 'fall', node or value);
    raises _SimUnsupported when the scenario cannot be decided"""
    sim = _Sim(mod, hier, exc)
    try:
        kind, val = sim.block(fn.body, dict(env))
    except _SimRaised as r_:
        return "raise", r_.node
    except _SIM_ERRORS as e:
        raise _SimUnsupported(str(e))
    if not sim.injected:
        raise _SimUnsupported("no try around an awaited request was found")
    return kind, sim.ret_node if kind == "return" else val


def run(chk):
    repo = chk.repo
    model = ActorModel(repo)
    actor_mod = repo.module("esrally/actor.py")
    drv = repo.module("esrally/driver/driver.py")
    rc = repo.module("esrally/racecontrol.py")
    mech = repo.module("esrally/mechanic/mechanic.py")
    chk.use(actor_mod, drv, rc, mech)
    chk.explanation = (
        "Decides the error-discipline skeleton of C09 statically: the no_retry guard, guardedness of all work handlers, the "
        "failure forwarding chain to race control, that every failure/cancel message constructed is actually sent to an address, "
        "that executor failures are polled and sent, that results are computed/stored/printed only under (not cancelled and not error), "
        "and that Success is only reachable through BenchmarkComplete."
    )
    chk.not_decided = "worker process death detection by Thespian, timing ('bounded time'), faults inside Thespian, message loss."

    if len(model.actors) < 8:
        raise AnchorMissing(f"expected >= 8 RallyActor subclasses, found {len(model.actors)}")

    # ---- O9.1 ------------------------------------------------------------------------------------
    chk.rule("O9.1", "actor.no_retry wraps the handler in try/except BaseException and unconditionally sends BenchmarkFailure to sender", 1,
             "any handler raising: Thespian would retry once and drop it, race control never hears")
    ok, detail, node = no_retry_is_sound(repo)
    chk.ob("O9.1", "actor.no_retry", ok, node, detail)

    # ---- O9.2 ------------------------------------------------------------------------------------
    chk.rule("O9.2", "every work handler receiveMsg_<T> (T a package message class or WakeupMessage; plus NodeMechanicActor.receiveUnrecognizedMessage) "
             "is guarded by no_retry or a whole-body try whose (Base)Exception arm sends BenchmarkFailure", 30,
             "an exception in that handler (param source / runner setup / metrics store failure) is swallowed by Thespian: no failure notification")
    for a in model.actors:
        for hname, f in model.handlers(a).items():
            if hname == "receiveUnrecognizedMessage":
                # only a handler that dispatches package messages by isinstance is a work handler
                tests = [n for n in walk_body(f) if isinstance(n, ast.Call) and dotted(n.func) == "isinstance" and len(n.args) == 2
                         and model.is_package_message(last_attr(n.args[1]) or "")]
                if not tests:
                    continue
            else:
                t = hname[len("receiveMsg_"):]
                if t in FAILURE_MESSAGES:
                    continue
                if not (model.is_package_message(t) or t == "WakeupMessage"):
                    continue
            g = _handler_guard(f)
            inst = f"{a.name}.{hname}"
            if g is None and (a.name, hname) in UNGUARDED_OK:
                # verify the reason: the handler raises only in the else-arm of a payload comparison with a class constant, and the
                # class's only wakeupAfter(payload=...) uses that constant
                consts = set()
                for n in walk_body(f):
                    if isinstance(n, ast.Compare) and len(n.ops) == 1 and isinstance(n.ops[0], (ast.Eq, ast.NotEq)):
                        for side in (n.left, n.comparators[0]):
                            if isinstance(side, ast.Attribute) and dotted(side) and dotted(side).startswith(a.name + "."):
                                consts.add(dotted(side))
                            elif isinstance(side, ast.Constant) and isinstance(side.value, (str, int)) and getattr(side, "_from_constant", False):
                                consts.add(repr(side.value))  # a named class constant, propagated (N9)
                payloads = set()
                for m in a.methods.values():
                    for c in source.calls_in(m, attr="wakeupAfter"):
                        pv = source.arg_of(c, 1, "payload")
                        payloads.add("<none>" if pv is None else (repr(pv.value) if isinstance(pv, ast.Constant) else dotted(pv)))
                # a raise is harmless only where the payload is known to differ from every constant the class schedules (guard facts: polarity / orientation / arm order do not matter)
                msgp = params_of(f)[1] if len(params_of(f)) > 1 else "msg"
                def differs(n, cs):
                    return [c_ for c_ in cs if c_ != "<none>" and pat.guarded(n, f"{msgp}.payload != {c_}") is not None]

                raises_elsewhere = [n for n in walk_body(f) if isinstance(n, ast.Raise) and not (differs(n, consts) and len(differs(n, payloads)) == len(payloads))]
                other_calls = [n for n in walk_body(f) if isinstance(n, ast.Call) and not _log_noise(n)
                               and not (isinstance(n.func, ast.Attribute) and is_self_attr(n.func.value) is False and isinstance(n.func.value, ast.Name) and n.func.value.id == "self")
                               and last_attr(n.func) not in ("RallyAssertionError",)]
                if not consts:
                    # the reason of the tabled exception cannot be re-established on this shape (no comparison of the payload with a constant was located): not recognised
                    chk.unknown("O9.2", f"{inst} is unguarded and the payload comparison that makes it harmless was not located", f)
                    continue
                ok = payloads <= consts and not raises_elsewhere
                chk.ob("O9.2", inst, ok, f, f"tabled exception: compared constants {sorted(consts)}, wakeup payloads {sorted(payloads)}; {UNGUARDED_OK[(a.name, hname)]}")
                if other_calls:
                    chk.adv("O9.2", f"{inst} is unguarded and calls {[short(c, 40) for c in other_calls][:3]}", f)
                continue
            chk.ob("O9.2", inst, g is not None, f, f"guard={g}")

    # ---- message typing helpers -------------------------------------------------------------------
    handler_msg = {}
    for a in model.actors:
        for hname, f in model.handlers(a).items():
            ps = params_of(f)
            if hname.startswith("receiveMsg_") and len(ps) >= 2:
                handler_msg[id(f)] = (ps[1], hname[len("receiveMsg_"):])
    addr = {a.name: _address_attrs(model, a) for a in model.actors}

    # ---- O9.3 forwarding chain --------------------------------------------------------------------
    chk.rule("O9.3", "every actor class forwards BenchmarkFailure on every path to its parent address (attribute assigned from the sender of its "
             "bootstrap message); parents lead to race control, which sets the coordinator's error flag before forwarding to the asker", 8,
             "a failure detected below that class never reaches race control: the race hangs or ends as success")
    root = model.actor("BenchmarkActor")
    parent_attr = {}
    fwd_state = {}
    fwd_sites = {}
    for a in model.actors:
        f = model.table.method(a, "receiveMsg_BenchmarkFailure")
        inst = f"{a.name}.receiveMsg_BenchmarkFailure"
        if f is None:
            chk.ob("O9.3", inst, False, a.node, "class has no receiveMsg_BenchmarkFailure (failures sent to it by no_retry are dropped)")
            fwd_state[a.name] = "bad"
            continue
        ps = params_of(f)
        msgp = ps[1] if len(ps) > 1 else "msg"
        g = cfg_of(f)
        # sites that pass the message on to an address: self.send(<address>, <msg>) in the handler, or a helper method of the class that is handed the message and does so on
        # every path; a send of the message whose target is not recognised as an address is "not recognised", never "does not forward"
        rec, unrec = _report_sites(model, a, f, {msgp}, set(addr[a.name]), accept_failure=True)  # a freshly built BenchmarkFailure (the message re-wrapped) notifies the parent just as well
        fwd_sites[a.name] = rec
        sends = [c for c, _ in rec]
        nodes = [g.node_of(c) for c in sends]
        ok = bool(nodes) and g.must_pass(g.entry, nodes)
        detail = f"forwarding sends: {[short(c, 60) for c in sends]}"
        path = None
        if nodes and not ok:
            p = g.find_path(g.entry, g.exit, avoid=nodes)
            path = g.describe_path(p) if p else None
            detail += " — a normal-exit path bypasses the forwarding send"
        if not ok and unrec:
            chk.unknown("O9.3", f"{inst}: the message is passed on by `{short(unrec[0], 60)}`, whose target is not recognised as an actor address", unrec[0])
            fwd_state[a.name] = "unknown"
        else:
            chk.ob("O9.3", inst, ok, f, detail, path=path)
            fwd_state[a.name] = "ok" if ok else "bad"
        leaves = [lf for _, lfs in rec for lf in lfs]
        if leaves:
            parent_attr[a.name] = _leaf_parent_attr(leaves[0])
        # a failure the actor addressed to ITSELF (no_retry around a wake-up handler, or the actor's own handler of a wake-up: the sender of a wake-up is the actor, and a
        # wake-up carries no reply_to) must LEAVE the actor when it is forwarded; evaluated for sender == own address, message without reply_to, every address attribute set
        for c, lfs in rec:
            for lf in lfs:
                tgt = lf[0].args[0]
                try:
                    val = _leaf_target_value(lf, {ps[2] if len(ps) > 2 else "sender": "SELF", msgp: _NO_REPLY_TO}, a.node)
                except _NoValue as e:
                    chk.unknown("O9.3", f"{a.name}.receiveMsg_BenchmarkFailure: forwarding target `{short(tgt, 60)}` cannot be evaluated ({e})", c)
                    continue
                chk.ob("O9.3", f"{a.name}: a failure the actor addressed to itself (failing wake-up) is forwarded to another actor", val != "SELF", c,
                       f"target `{short(tgt, 60)}` = {val} for sender == own address and a message without reply_to" + ("" if val != "SELF" else
                       ": the failure is sent to the actor itself again and circulates forever; race control is never told, the race ends as a success"),
                       key=f"{loc(a.node).split(':')[0]}:{a.name}.receiveMsg_BenchmarkFailure:self-addressed-failure-leaves")
    # race control sets the flag that suppresses the results before forwarding. The flags are found by role: the boolean attributes of the coordinator (False after
    # construction) that guard the result calls of its completion routine - whatever they are called
    coord_ci = model.table.get("BenchmarkCoordinator")
    attr_cls = _attr_classes(model, root)
    # ... plus the boolean attributes of the coordinator that race control's failure / cancel handlers raise: a flag that is raised but no longer consulted must show up
    # as "results reachable although the flag is set" (O9.6), not silently drop out of the table
    raised = {t.attr for hn_ in ("receiveMsg_BenchmarkFailure", "receiveMsg_BenchmarkCancelled", "receiveMsg_PoisonMessage") for f_ in [model.table.method(root, hn_)] if f_ is not None
              for n in walk_body(f_) if isinstance(n, ast.Assign) and source.is_const(n.value, True) for t in n.targets
              if isinstance(t, ast.Attribute) and is_self_attr(t.value) and attr_cls.get(t.value.attr) is coord_ci}
    guard_flags = _result_guard_flags(coord_ci, raised)
    if not guard_flags:
        raise AnchorMissing("BenchmarkCoordinator: no boolean attribute guards the result calls of the completion routine")
    f = model.table.method(root, "receiveMsg_BenchmarkFailure")
    if f is not None:
        g = cfg_of(f)
        sets, foreign = _flag_stores(model, root, f, guard_flags, attr_cls)
        sends = [c for c in source.calls_in(f, attr="send")] + [c for c, _ in fwd_sites.get(root.name, []) if last_attr(c.func) != "send"]
        if not sets and not foreign and (not sends or _opaque_calls(f, sends)):
            chk.unknown("O9.3", f"BenchmarkActor.receiveMsg_BenchmarkFailure: neither a store to one of the result-guarding flags {sorted(guard_flags)} nor the forwarding send was located", f)
        else:
            ok = bool(sets) and bool(sends) and all(g.dominated_by_nodes(g.node_of(s), [g.node_of(x) for x in sets]) for s in sends)
            chk.ob("O9.3", "BenchmarkActor: error flag set before forward", ok, f, f"flag stores={len(sets)} sends={len(sends)}" + (f"; sets {foreign}, which does not guard the results" if foreign and not sets else ""))
        fc = model.table.method(root, "receiveMsg_BenchmarkCancelled")
        if fc is None:
            chk.ob("O9.3", "BenchmarkActor.receiveMsg_BenchmarkCancelled", False, root.node, "no cancel handler")
        else:
            gc = cfg_of(fc)
            sets, foreign = _flag_stores(model, root, fc, guard_flags, attr_cls)
            if not sets and not foreign and _opaque_calls(fc, source.calls_in(fc, attr="send")):
                chk.unknown("O9.3", f"BenchmarkActor.receiveMsg_BenchmarkCancelled: no store to one of the result-guarding flags {sorted(guard_flags)} was located", fc)
            else:
                ok = bool(sets) and gc.must_pass(gc.entry, [gc.node_of(s) for s in sets])
                chk.ob("O9.3", "BenchmarkActor: cancelled flag set on cancel", ok, fc, f"flag stores={len(sets)}" + (f"; sets {foreign}, which does not guard the results" if foreign and not sets else ""))
    # parent chain: attr assigned from sender of bootstrap message M; who sends M?
    senders_of: dict[str, set] = {}
    for a in model.actors:
        for m in a.methods.values():
            for c in source.calls_in(m, attr="send"):
                pt = payload_type(model, c, handler_msg)
                if pt:
                    senders_of.setdefault(pt, set()).add(a.name)
            # message handed to a helper method of the class that sends its parameter (send_to_children_and_transition)
            for c in source.calls_in(m):
                if isinstance(c.func, ast.Attribute) and isinstance(c.func.value, ast.Name) and c.func.value.id == "self":
                    callee = model.table.method(a, c.func.attr)
                    if callee is None or callee is m:
                        continue
                    bound = source.bind_args(c, callee)
                    for pname, argv in bound.items():
                        if isinstance(argv, ast.Call) and model.is_package_message(last_attr(argv.func) or ""):
                            for s in source.calls_in(callee, attr="send"):
                                if len(s.args) >= 2 and isinstance(s.args[1], ast.Name) and s.args[1].id == pname:
                                    senders_of.setdefault(last_attr(argv.func), set()).add(a.name)
    race_fn = rc.func("race")
    for c in source.calls_in(race_fn, attr="ask"):
        if len(c.args) >= 2 and isinstance(c.args[1], ast.Call):
            senders_of.setdefault(last_attr(c.args[1].func), set()).add("<race()>")
    parents: dict[str, set] = {}
    for a in model.actors:
        pa = parent_attr.get(a.name)
        if pa is None:
            continue
        if pa == "reply_to|sender":
            # reply_to is stamped by the Dispatcher from the sender of StartEngine; accept and link to senders of the start message
            ps = set()
            for hname in a.methods:
                if hname.startswith("receiveMsg_Start"):
                    ps |= {"Dispatcher"}
            parents[a.name] = ps or {"?"}
            continue
        ps = set()
        for hname, kind, node in addr[a.name].get(pa, []):
            if kind == "sender" and hname.startswith("receiveMsg_"):
                mt = hname[len("receiveMsg_"):]
                found = senders_of.get(mt, set())
                if not found:
                    # the message is constructed, parked and sent later through a splat (`self.send(*each)`): the constructing actor class is the sender
                    found = {b.name for b in model.actors for m_ in b.methods.values() for c_ in walk_body(m_) if isinstance(c_, ast.Call) and last_attr(c_.func) == mt}
                if not found:
                    # ... or built by a factory method of another message; the actor that CREATES this actor class is the one that bootstraps it
                    found = {b.name for b in model.actors for m_ in b.methods.values() for c_ in walk_body(m_) if isinstance(c_, ast.Call) and last_attr(c_.func) == "createActor"
                             and c_.args and last_attr(c_.args[0]) == a.name}
                ps |= found
        ps.discard(a.name)
        parents[a.name] = ps
    for a in model.actors:
        seen, work, reach = set(), [a.name], False
        while work:
            x = work.pop()
            if x in seen:
                continue
            seen.add(x)
            if x == "<race()>":
                reach = True
                break
            work.extend(parents.get(x, ()))
        if not reach and fwd_state.get(a.name) != "ok":
            continue  # the forwarding send itself was reported above (missing / not recognised): there is no parent attribute to follow
        if not reach and (not parents.get(a.name) or "?" in parents.get(a.name, ())):
            chk.unknown("O9.3", f"{a.name}: who sets the parent address `{parent_attr.get(a.name)}` (the sender of which bootstrap message) could not be derived", a.node)
            continue
        chk.ob("O9.3", f"{a.name}: parent chain reaches race()", reach, a.node, f"parent attr={parent_attr.get(a.name)} parents={sorted(parents.get(a.name, []))}")

    # cleanup that runs BEFORE the forwarding send must not be able to block it for good: the driver actor closes the driver (metrics store) first; a failing close
    # raises out of the handler, the actor framework re-delivers the message, and the second delivery must get past the cleanup
    met_m = repo.module("esrally/metrics.py")
    chk.use(met_m)
    DA = model.actor("DriverActor")
    da_objs = _attr_classes(model, DA)  # the plain objects the driver actor delegates to (self.driver = Driver(...)), found by construction
    closers = []  # methods of those objects that run before a failure / cancellation is forwarded

    def pre_ok(c, depth=0):
        """the call is a method of a delegate object (checked for re-entrancy below), or a helper method of the actor that does nothing else"""
        if isinstance(c.func, ast.Attribute) and is_self_attr(c.func.value) and c.func.value.attr in da_objs:
            m_ = model.table.method(da_objs[c.func.value.attr], c.func.attr)
            if m_ is not None:
                if not any(m_ is x for x in closers):
                    closers.append(m_)
                return True
        if is_self_attr(c.func) and depth < 2:
            h_ = model.table.method(DA, c.func.attr)
            if h_ is not None:
                return all(pre_ok(x, depth + 1) for x in walk_body(h_) if isinstance(x, ast.Call) and not _log_noise(x))
        return False

    for hn in ("receiveMsg_BenchmarkFailure", "receiveMsg_BenchmarkCancelled", "receiveMsg_PoisonMessage"):
        f = DA.methods.get(hn)
        if f is None:
            continue
        g = cfg_of(f)
        rec_, _ = _report_sites(model, DA, f, {params_of(f)[1]} if len(params_of(f)) > 1 else set(), set(addr[DA.name]), accept_failure=True)
        fwd = [c for c in source.calls_in(f, attr="send")] + [c for c, _ in rec_ if last_attr(c.func) != "send"]
        inside = {id(x) for s_ in fwd for x in ast.walk(s_)}
        pre = [c for c in walk_body(f) if isinstance(c, ast.Call) and id(c) not in inside and not _log_noise(c) and last_attr(c.func) not in ("send", "format", "str", "BenchmarkFailure", "BenchmarkCancelled")
               and not _harmless(c)
               and any(g.path_exists(g.node_of(c), g.node_of(s_)) and g.node_of(c) is not g.node_of(s_) for s_ in fwd)]
        for c in pre:
            chk.ob("O9.3", f"DriverActor.{hn}: the only work before forwarding is the re-entrant driver close", pre_ok(c), c, short(c, 60), key=f"esrally/driver/driver.py:DriverActor.{hn}:pre-forward:{short(c, 40)}")
    mcl = met_m.methods(met_m.cls("MetricsStore")).get("close")
    if not closers:
        dcl = drv.methods(drv.cls("Driver")).get("close")  # no clean-up precedes the forwarding sends (any more): the driver's close is still looked at
        closers = [dcl] if dcl is not None else []
    if not closers or mcl is None:
        raise AnchorMissing("Driver.close / MetricsStore.close")
    # the store's "open" mark, by role: the attribute(s) MetricsStore.close sets to False
    marks = {t.attr for n in walk_body(mcl) if isinstance(n, ast.Assign) and source.is_const(n.value, False) for t in n.targets if is_self_attr(t)}
    for dcl in closers:
        # the call that closes the store: <receiver>.<MetricsStore.close's name>() - guarded by <receiver>.<mark>
        sc = [c for c in source.calls_in(dcl, attr=mcl.name) if isinstance(c.func, ast.Attribute)]
        if not sc:
            chk.unknown("O9.3", f"{source.qualname(dcl)} (runs before a failure is forwarded): the call that closes the metrics store was not located", dcl)
            continue
        ok = bool(marks) and all(any(pat.guarded(c, f"E_r.{mk}", binds={"r": u(c.func.value)}) is not None for mk in marks) for c in sc)
        chk.ob("O9.3", "Driver.close closes the metrics store only while it is marked open", ok, sc[0], "" if ok else f"marks cleared by MetricsStore.{mcl.name}: {sorted(marks)}")
    gm_ = cfg_of(mcl)
    clr = [n for n in walk_body(mcl) if isinstance(n, ast.Assign) and any(is_self_attr(t) and t.attr in marks for t in n.targets) and source.is_const(n.value, False)]
    fall = [c for c in walk_body(mcl) if isinstance(c, ast.Call) and not _harmless(c)]
    ok = len(clr) >= 1 and all(gm_.dominated_by_nodes(gm_.node_of(c), [gm_.node_of(x) for x in clr]) for c in fall)
    late = [c for c in fall if not (clr and gm_.dominated_by_nodes(gm_.node_of(c), [gm_.node_of(x) for x in clr]))]
    chk.ob("O9.3", "MetricsStore.close marks the store closed before anything in it can fail", ok, late[0] if late else mcl,
           "" if ok else (f"`{short(late[0], 40)}` runs while the store is still marked open: if it keeps failing, every re-delivery of BenchmarkFailure fails in close() again and the failure is never forwarded"
                          if late else "the store is never marked closed"),
           key="esrally/metrics.py:MetricsStore.close:closed-before-fallible")

    # a failing parameter source / scheduler must not be mistaken for the normal end of the task
    chk.rule("O9.5c", "in the schedule generator the only exception that ends the schedule normally is StopIteration (exhaustion); every other exception of a parameter source or "
             "scheduler propagates to the executor, which turns it into a failure", 2,
             "a parameter source that raises mid-task: the task is treated as finished, the worker reports JoinPointReached and the race ends as success")
    SH = drv.cls("ScheduleHandle")
    shc = drv.methods(SH).get("__call__")
    if shc is None:
        raise AnchorMissing("ScheduleHandle.__call__")
    n_h = 0
    for t_ in [n for n in walk_body(shc) if isinstance(n, ast.Try)]:
        for h in t_.handlers:
            reraises = any(isinstance(x, ast.Raise) for x in ast.walk(h))
            if reraises:
                continue
            n_h += 1
            names = [dotted(e_) or u(e_) for e_ in (h.type.elts if isinstance(h.type, ast.Tuple) else ([h.type] if h.type is not None else []))]
            ok = names == ["StopIteration"]
            chk.ob("O9.5c", "schedule generator ends normally only on StopIteration", ok, h, f"except {', '.join(names) or '(bare)'} -> ends the schedule without error",
                   key=f"esrally/driver/driver.py:ScheduleHandle.__call__:swallow:{len([x for x in walk_body(shc) if isinstance(x, ast.ExceptHandler) and x.lineno < h.lineno])}")
    # located by role: every `yield` of the generator (one parameter-source pull per yield) lies in a try one of whose handlers ends the schedule; how many loops / try
    # statements that takes does not matter (two copies of the loop with a try inside each, or one loop inside one try)
    yields_ = [n for n in walk_body(shc) if isinstance(n, (ast.Yield, ast.YieldFrom))]
    uncovered = [y for y in yields_ if not any(isinstance(t_, ast.Try) and any(y in list(ast.walk(b_)) for b_ in t_.body) and any(not any(isinstance(x, ast.Raise) for x in ast.walk(h)) for h in t_.handlers)
                                               for t_ in source.ancestors(y))]
    if n_h < 1 or not yields_ or uncovered:
        chk.unknown("O9.5c", f"ScheduleHandle.__call__: the handler that ends the schedule on exhaustion was not located for every yield ({n_h} handler(s), {len(yields_)} yield(s), "
                    f"{len(uncovered)} outside any such try)", shc)
    else:
        chk.ob("O9.5c", "exhaustion handlers located", True, shc, f"{n_h} handler(s) cover {len(yields_)} yield(s)")

    # no_retry reports a handler's failure to the SENDER of the message; once the handler has asked an actor to exit, nothing that can fail may follow in that handler
    # (the report would go to an actor that is already gone and the race would hang)
    chk.rule("O9.2x", "in a handler guarded by no_retry no fallible work follows a send of ActorExitRequest: only sends, logging and plain stores may come after it", 1,
             "a failure at the very end (final flush, results calculation, race store) is reported to an exited actor: race() gets neither a failure nor Success")
    n_x = 0

    def exit_sites(a, fn, depth=0):
        """[(node in fn after which the addressee has been told to exit, the exit-request send itself)]: self.send(<x>, ActorExitRequest()) - the payload built in place or via a
        local -, or a call of a helper method of the class that contains such a send (the helper's own tail is checked as well)."""
        out = [(c, c) for c in source.calls_in(fn, attr="send") if _sends(c, fn, "ActorExitRequest")]
        if depth < 2:
            for c in walk_body(fn):
                if isinstance(c, ast.Call) and is_self_attr(c.func) and c.func.attr != "send":
                    h_ = model.table.method(a, c.func.attr)
                    if h_ is not None and h_ is not fn:
                        out += [(c, leaf) for _, leaf in exit_sites(a, h_, depth + 1)]
        return out

    def fallible_after(fn, x):
        g_ = cfg_of(fn)
        in_sends = {id(n_) for s_ in source.calls_in(fn, attr="send") for n_ in ast.walk(s_)}
        return [c for c in walk_body(fn) if isinstance(c, ast.Call) and c is not x and not _harmless(c) and last_attr(c.func) not in ("send", "ActorExitRequest") and id(c) not in in_sends
                and not any(c is n_ for n_ in ast.walk(x)) and g_.node_of(c) is not g_.node_of(x) and g_.path_exists(g_.node_of(x), g_.node_of(c), edge_ok=g_.normal_edge)]

    for a in model.actors:
        for hn, f in model.handlers(a).items():
            if _handler_guard(f) != "no_retry":
                continue
            for x, leaf in exit_sites(a, f):
                n_x += 1
                after = fallible_after(f, x)
                if leaf is not x:  # the send sits in a helper: what follows it inside the helper counts, too
                    after += [c for fn_ in {id(source.enclosing_func(leaf)): source.enclosing_func(leaf)}.values() for c in fallible_after(fn_, leaf)]
                tgt = u(leaf.args[0])
                chk.ob("O9.2x", f"{a.name}.{hn}: nothing fallible after the exit request to {tgt}", not after, after[0] if after else x,
                       "" if not after else f"`{short(after[0], 60)}` can fail after {tgt} was told to exit; no_retry then reports the failure to the sender, which no longer exists",
                       key=f"{a.module.relpath}:{a.name}.{hn}:after-exit-request")
    if n_x >= 1:
        chk.ob("O9.2x", "exit requests in guarded handlers located", True, model.actor("BenchmarkActor").node, f"{n_x} site(s)")
    else:
        chk.unknown("O9.2x", "no send of ActorExitRequest was located in a handler guarded by no_retry (the rule has nothing to look at)", model.actor("BenchmarkActor").node)

    # a worker process that dies is reported whichever worker it is: the failure for an exited child is sent under exactly {the child is one of the workers, we are not exiting}
    chk.rule("O9.3w", "child processes that die are reported: DriverActor.receiveMsg_ChildActorExited sends BenchmarkFailure to race control for every exited child that is a worker "
             "(also the one with index 0) or a track preparator that has not been asked to exit yet, unless the driver is exiting; the track preparator reports the death of one of "
             "its preparation workers to the driver unless it has been asked to exit itself (decided on values: the conditions around each failure send are evaluated per scenario)", 5,
             "the process of one particular worker / of a track preparation worker dies (OOM killer while a corpus is decompressed): nothing reaches race control and the race hangs")
    cae = DA.methods.get("receiveMsg_ChildActorExited")
    if cae is None:
        raise AnchorMissing("DriverActor.receiveMsg_ChildActorExited")

    def _fires(call, fn, env):
        """do all conditions that control `call` (guard facts, locals inlined) hold in the scenario? True / False / None (not evaluable)"""
        ldefs = source.local_defs(fn)
        for f_ in pat.fact_nodes(call):
            e_ = source.inline_node(f_, ldefs)

            class _Idx(ast.NodeTransformer):  # <list>.index(<x>) on scenario values
                def visit_Call(self, n):
                    self.generic_visit(n)
                    if isinstance(n.func, ast.Attribute) and n.func.attr == "index" and len(n.args) == 1:
                        try:
                            return ast.copy_location(ast.Constant(value=list(_ev(n.func.value, env)).index(_ev(n.args[0], env))), n)
                        except (CannotEval, ValueError):
                            return n
                    return n
            e_ = ast.fix_missing_locations(_Idx().visit(ast.parse(u(e_), mode="eval").body))  # a fresh copy (analysed nodes carry parent links: never deep-copy them)
            try:
                if not _ev(e_, env):
                    return False
            except CannotEval:
                return None
        return True

    mp_ = params_of(cae)[1]
    # sites that report the exit: a BenchmarkFailure sent in the handler (built in place or via a local), or a helper method of the class that sends one on every path;
    # whether the target is an address is O9.4's business, here only WHEN the report fires matters
    rec_, unrec_ = _report_sites(model, DA, cae, set(), set(addr[DA.name]), accept_failure=True)
    fs_ = [c for c, _ in rec_] + unrec_

    def _delegates(fn, msgp):
        """method calls on the actor / on an object it holds that are handed the message (or a field of it): the decision may have moved there"""
        return [c for c in walk_body(fn) if isinstance(c, ast.Call) and isinstance(c.func, ast.Attribute) and (is_self_attr(c.func) or is_self_attr(c.func.value)) and not _log_noise(c)
                and last_attr(c.func) != "send" and any(isinstance(x, ast.Name) and x.id == msgp for a_ in list(c.args) + [k.value for k in c.keywords] for x in ast.walk(a_))]

    if not fs_ and _delegates(cae, mp_):
        chk.unknown("O9.3w", f"DriverActor.receiveMsg_ChildActorExited: no failure send located; the message is handed to `{short(_delegates(cae, mp_)[0], 60)}`, which the rule does not follow", cae)
    else:
        chk.ob("O9.3w", "a failure is sent for an exited worker", len(fs_) >= 1, fs_[0] if fs_ else cae, f"{len(fs_)} failure send(s)")
    # the attribute(s) that say "asked to exit", by role: what the driver actor's handler of ActorExitRequest stores
    exr_ = DA.methods.get("receiveMsg_ActorExitRequest")
    exit_marks = {t.attr: n.value.value for n in (walk_body(exr_) if exr_ is not None else []) if isinstance(n, ast.Assign) and isinstance(n.value, ast.Constant) for t in n.targets if is_self_attr(t)}
    SCEN = [("worker 0 dies while the benchmark runs", "W0", "running", "every-worker"), ("worker 1 dies while the benchmark runs", "W1", "running", "every-worker:1"),
            ("a track preparator dies while the track is being prepared", "P0", "preparing", "preparator")]
    for what, child, status, kk in SCEN if (fs_ or not _delegates(cae, mp_)) else []:
        not_exiting = {k_: ((not v_) if isinstance(v_, bool) else status) for k_, v_ in exit_marks.items()}
        env = {mp_: Record(childAddress=child), "self": Record(**{"driver": Record(workers=["W0", "W1"]), "children": ["P0"], "status": status, **not_exiting})}
        res = [_fires(c, cae, env) for c in fs_]
        if any(r is None for r in res) and not any(r is True for r in res):
            chk.unknown("O9.3w", f"DriverActor.receiveMsg_ChildActorExited: the conditions of a failure send cannot be evaluated for `{what}`", cae)
            continue
        ok = any(r is True for r in res)
        chk.ob("O9.3w", f"driver: {what} -> BenchmarkFailure to race control", ok, fs_[0] if fs_ else cae,
               f"failure sends firing: {sum(1 for r in res if r is True)} of {len(res)}" + ("" if ok else " — the exit is only logged: race control waits forever"
               + (" (e.g. a truthiness test of the worker's list index excludes worker 0)" if child == "W0" else "")),
               key=f"esrally/driver/driver.py:DriverActor.receiveMsg_ChildActorExited:{kk}")
    TPA = model.actor("TrackPreparationActor")
    tcae = TPA.methods.get("receiveMsg_ChildActorExited") if TPA is not None else None
    creates = TPA is not None and any(isinstance(n, ast.Call) and last_attr(n.func) == "createActor" for m_ in TPA.methods.values() for n in walk_body(m_))
    if TPA is None or not creates:
        raise AnchorMissing("TrackPreparationActor (creator of the track preparation workers)")
    if tcae is None:
        chk.ob("O9.3w", "track preparator: a preparation worker dies while it works -> BenchmarkFailure to the driver", False, TPA.node,
               "TrackPreparationActor creates worker actors but has no receiveMsg_ChildActorExited: their death is dropped, the preparator waits for WorkerIdle forever",
               key="esrally/driver/driver.py:TrackPreparationActor.receiveMsg_ChildActorExited:reports")
    else:
        exr = TPA.methods.get("receiveMsg_ActorExitRequest")
        flags = {t.attr for n in (walk_body(exr) if exr is not None else []) if isinstance(n, ast.Assign) and source.is_const(n.value, True) for t in n.targets if is_self_attr(t)}
        trec_, tunrec_ = _report_sites(model, TPA, tcae, set(), set(addr[TPA.name]), accept_failure=True)
        tf_ = [c for c, _ in trec_]
        env = {params_of(tcae)[1]: Record(childAddress="T0"), "self": Record(children=["T0", "T1"], **{f_: False for f_ in flags})}
        res = [_fires(c, tcae, env) for c in tf_]
        if not tf_ and (tunrec_ or _delegates(tcae, params_of(tcae)[1])):
            chk.unknown("O9.3w", "TrackPreparationActor.receiveMsg_ChildActorExited: the failure send to the driver was not located (target not recognised as an address, or the message is handed on)", tcae)
        elif any(r is None for r in res) and not any(r is True for r in res):
            chk.unknown("O9.3w", "TrackPreparationActor.receiveMsg_ChildActorExited: the conditions of the failure send cannot be evaluated", tcae)
        else:
            ok = any(r is True for r in res)
            chk.ob("O9.3w", "track preparator: a preparation worker dies while it works -> BenchmarkFailure to the driver", ok, tf_[0] if tf_ else tcae,
                   f"{len(tf_)} failure send(s) to the driver, firing: {sum(1 for r in res if r is True)} (not asked to exit: {sorted(flags)} = False)", key="esrally/driver/driver.py:TrackPreparationActor.receiveMsg_ChildActorExited:reports")

    # completion is announced LAST: once BenchmarkComplete is on its way race control computes, stores and prints the results; anything that can still fail at the final join point
    # (closing the driver's metrics store = its last flush, deleting API keys) therefore runs before it
    chk.rule("O9.6b", "at the final join point nothing fallible follows the call that announces completion (the driver-actor method that sends BenchmarkComplete, today "
             "on_benchmark_complete; also looked for in helper methods of Driver and followed into their callers): only logging may come after it", 1,
             "the last flush of the metrics store fails after completion was announced: results are stored and printed, race() reports success")
    DRV = drv.cls("Driver")
    # by role: the announcing call is a call of a driver-actor method that sends BenchmarkComplete (whatever it is called), made from a method of Driver; what may follow it
    # is looked at in that method and in the Driver methods that call it (the final join point may have been split into helpers)
    announcers = {m_.name for m_ in DA.methods.values() if any(_sends(c, m_, "BenchmarkComplete") for c in source.calls_in(m_, attr="send"))}
    if not announcers:
        raise AnchorMissing("no method of DriverActor sends BenchmarkComplete")
    dmeths = drv.methods(DRV)

    def fallible_after_call(fn, x):
        g_ = cfg_of(fn)
        return [c for c in walk_body(fn) if isinstance(c, ast.Call) and c is not x and not _harmless(c) and not any(c is n_ for a_ in list(x.args) + [k.value for k in x.keywords] for n_ in ast.walk(a_))
                and g_.node_of(c) is not g_.node_of(x) and g_.path_exists(g_.node_of(x), g_.node_of(c), edge_ok=g_.normal_edge)]

    def after_upwards(fn, x, depth=0):
        out = fallible_after_call(fn, x)
        if depth < 2:
            for m_ in dmeths.values():
                if m_ is not fn:
                    for c in walk_body(m_):
                        if isinstance(c, ast.Call) and is_self_attr(c.func) and c.func.attr == fn.name:
                            out += after_upwards(m_, c, depth + 1)
        return out

    obc = [(m_, c) for m_ in dmeths.values() for c in walk_body(m_) if isinstance(c, ast.Call) and isinstance(c.func, ast.Attribute) and c.func.attr in announcers and not is_self_attr(c.func)]
    if not obc:
        raise AnchorMissing(f"no call of {sorted(announcers)} (the driver actor's announcement of BenchmarkComplete) in a method of Driver")
    for m_, x in obc:
        after = after_upwards(m_, x)
        chk.ob("O9.6b", "completion announced after the last fallible step of the final join point", not after, after[0] if after else x,
               "" if not after else f"`{short(after[0], 60)}` can still fail after BenchmarkComplete was sent", key="esrally/driver/driver.py:Driver.joinpoint_reached:complete-last")

    # PoisonMessage in classes that create children
    chk.rule("O9.3p", "every actor class that creates child actors has a receiveMsg_PoisonMessage that sends a BenchmarkFailure (or forwards) to its parent on every path", 5,
             "an undeliverable message to a dead child is never reported")
    for a in model.actors:
        creates = any(source.calls_in(m, attr="createActor") for m in a.methods.values())
        if not creates:
            continue
        f = model.table.method(a, "receiveMsg_PoisonMessage")
        if f is None:
            chk.ob("O9.3p", f"{a.name}.receiveMsg_PoisonMessage", False, a.node, "creates child actors but has no PoisonMessage handler")
            continue
        g = cfg_of(f)
        ps = params_of(f)
        # reporting sites: a BenchmarkFailure (built in place or via a local) or the poison message itself sent to an address, in the handler or in a helper method of the
        # class that does so on every path; a report whose target is not recognised as an address is "not recognised"
        rec_, unrec_ = _report_sites(model, a, f, {ps[1]} if len(ps) > 1 else set(), set(addr[a.name]), accept_failure=True)
        sends = [c for c, _ in rec_]
        nodes = [g.node_of(c) for c in sends]
        ok = bool(nodes) and g.must_pass(g.entry, nodes)
        if not ok and unrec_:
            chk.unknown("O9.3p", f"{a.name}.receiveMsg_PoisonMessage: the report `{short(unrec_[0], 60)}` goes to a target that is not recognised as an actor address", unrec_[0])
            continue
        chk.ob("O9.3p", f"{a.name}.receiveMsg_PoisonMessage", ok, f, f"sends={[short(c, 70) for c in sends]}")

    # ---- O9.4 every failure message is sent -------------------------------------------------------
    chk.rule("O9.4", "every construction of BenchmarkFailure/BenchmarkCancelled in the package is the payload of send/ask/tell to an address "
             "(address attribute, sender, getattr(msg,'reply_to',sender); directly, via a single-assignment local, a factory method or a helper method that sends its parameter; "
             "a reporting helper that builds the message from its own parameters counts once per call site, as if inlined; a target the rule cannot classify is 'not recognised', never a violation); address attributes are never called", 15,
             "the failure object is built and dropped (or an ActorAddress is 'called', raising TypeError): race control is never told")
    all_addr = set()
    for a in model.actors:
        all_addr |= set(addr[a.name])
    for m in repo.all_modules():
        for n in ast.walk(m.tree):
            if isinstance(n, ast.Call) and last_attr(n.func) in FAILURE_MESSAGES:
                cls = source.enclosing_class(n)
                if cls is not None and cls.name in FAILURE_MESSAGES:
                    continue
                chk.use(m)
                e_ = n
                while isinstance(source.parent(e_), ast.IfExp) and e_ is not source.parent(e_).test:
                    e_ = source.parent(e_)  # `<failure> if c else <other message>`: what matters is where the conditional expression goes
                p = source.parent(e_)
                f = source.enclosing_func(n)
                cname = cls.name if cls is not None else None
                attrs = set(addr.get(cname, {})) if cname else set()
                aci = next((a_ for a_ in model.actors if a_.node is cls), None)
                ok = False  # True: sent to an address; False: located and wrong; None: not recognised
                detail = ""

                def as_payload(sinks, what):
                    """verdict for the message being the payload of the given send sinks: every target must be an address"""
                    vs = [send_target_verdict(s_, attrs, source.enclosing_func(s_)) for s_ in sinks]
                    d_ = f"{what} {short(sinks[0].func, 40)}(target={short(sinks[0].args[0], 50)})"
                    if all(v is True for v in vs):
                        return True, d_
                    if any(v is False for v in vs):
                        return False, d_ + " — target is not an address attribute / sender / reply_to"
                    return None, d_ + " — target not recognised as an actor address"

                def sent_by_helper(call_, argnode):
                    """the message is handed to a helper method of the class: the helper sends that parameter (verdict of the targets), never sends it (False), or is unknown (None)"""
                    callee = model.table.method(aci, call_.func.attr) if aci is not None and is_self_attr(call_.func) else None
                    if callee is None:
                        return None, f"passed to {short(call_.func, 60)}(...), which the rule does not follow"
                    pn = next((k for k, v in source.bind_args(call_, callee).items() if v is argnode), None)
                    sinks = [c for c in ast.walk(callee) if isinstance(c, ast.Call) and last_attr(c.func) in ("send", "ask", "tell") and len(c.args) >= 2
                             and isinstance(_through_locals(c.args[1], callee), ast.Name) and _through_locals(c.args[1], callee).id == pn]
                    if pn is None or not sinks:
                        return False, f"passed to {short(call_.func, 60)}(...), which never sends it"
                    return as_payload(sinks, f"handed to {callee.name}(), there payload of")

                if isinstance(p, ast.Call) and last_attr(p.func) in ("send", "ask", "tell") and len(p.args) >= 2 and p.args[1] is e_:
                    ok, detail = as_payload([p], "payload of")
                elif isinstance(p, ast.Call) and p.func is not e_ and (any(a_ is e_ for a_ in p.args) or any(k.value is e_ for k in p.keywords)):
                    if is_self_attr(p.func) and p.func.attr in all_addr:
                        detail = f"address attribute self.{p.func.attr} is CALLED with the failure message instead of self.send(self.{p.func.attr}, ...)"
                    elif _log_noise(p) or dotted(p.func) in ("str", "repr", "print"):
                        detail = f"passed to {short(p.func, 60)}(...) which is not a send sink"
                    else:
                        ok, detail = sent_by_helper(p, e_)
                elif isinstance(p, ast.Assign) and len(p.targets) == 1 and isinstance(p.targets[0], ast.Name) and f is not None and _ldefs(f).get(p.targets[0].id) is e_:
                    # bound to a single-assignment local: the local must be the payload of a send (or be handed to a helper that sends it); merely logged / unused = dropped
                    nm = p.targets[0].id
                    sinks = [c for c in ast.walk(f) if isinstance(c, ast.Call) and last_attr(c.func) in ("send", "ask", "tell") and len(c.args) >= 2 and _through_locals(c.args[1], f) is e_]
                    handed = [(c, a_) for c in ast.walk(f) if isinstance(c, ast.Call) and not _log_noise(c) and last_attr(c.func) not in ("send", "ask", "tell", "str", "repr")
                              for a_ in list(c.args) + [k.value for k in c.keywords] if isinstance(a_, ast.Name) and a_.id == nm]
                    returned = [r_ for r_ in ast.walk(f) if isinstance(r_, ast.Return) and isinstance(r_.value, ast.Name) and r_.value.id == nm]
                    if sinks:
                        ok, detail = as_payload(sinks, f"bound to `{nm}`, payload of")
                    elif handed:
                        ok, detail = sent_by_helper(*handed[0])
                    elif returned:
                        ok, detail = None, f"bound to `{nm}` and returned to the caller, which the rule does not follow"
                    else:
                        detail = f"constructed but not sent: {short(source.enclosing_stmt(n), 80)}"
                elif isinstance(p, ast.Return) and aci is not None and f is not None and any(m_ is f for m_ in aci.node.body):
                    # a factory method of the actor class: every call of it must be the payload of a send
                    sites = [c for m_ in aci.methods.values() for c in ast.walk(m_) if isinstance(c, ast.Call) and is_self_attr(c.func) and c.func.attr == f.name]
                    sinks = [source.parent(c) for c in sites if isinstance(source.parent(c), ast.Call) and last_attr(source.parent(c).func) in ("send", "ask", "tell")
                             and len(source.parent(c).args) >= 2 and source.parent(c).args[1] is c]
                    if sites and len(sinks) == len(sites):
                        ok, detail = as_payload(sinks, f"returned by {f.name}(), whose result is the payload of")
                    else:
                        ok, detail = None, f"returned by {f.name}(); not every use of the result is recognised as the payload of a send"
                elif isinstance(p, ast.Return):
                    ok, detail = None, "returned to the caller, which the rule does not follow"
                else:
                    detail = f"constructed but not sent: {short(source.enclosing_stmt(n), 80)}"
                if ok is None:
                    chk.unknown("O9.4", f"{source.qualname(n)}: {last_attr(n.func)} {detail}", n)
                    continue
                # a reporting helper (`def _report_failure(self, message, cause=None): self.send(<parent>, BenchmarkFailure(message, cause))`) builds the
                # message from its own parameters: the failure reports are then its call sites (the construction seen with the helper inlined), one instance
                # each with the verdict of the construction they all share. Without a call site the construction itself is the instance, as before.
                reports = _report_call_sites(n, f, cls, m)
                if not reports:
                    chk.ob("O9.4", f"{source.qualname(n)}: {last_attr(n.func)}", ok, n, detail,
                           key=f"{m.relpath}:{source.qualname(n)}:{last_attr(n.func)}({short(n.args[0], 50) if n.args else ''})")
                for site, chain in reports:
                    via = " -> ".join(chain)
                    first = next((a_ for a_ in site.args if not isinstance(a_, ast.Starred)), None)
                    chk.ob("O9.4", f"{source.qualname(site)}: {last_attr(n.func)} built by {via}()", ok, site, f"in {via}(): {detail}",
                           key=f"{m.relpath}:{source.qualname(site)}:{last_attr(n.func)}:{via}({short(first, 50) if first is not None else ''})")
    # address attributes never called
    for a in model.actors:
        for m in a.methods.values():
            for n in walk_body(m):
                if isinstance(n, ast.Call) and is_self_attr(n.func) and n.func.attr in addr[a.name]:
                    chk.ob("O9.4", f"{a.name}.{m.name}: call of address attribute self.{n.func.attr}", False, n,
                           "an ActorAddress is not callable; the message is never sent",
                           key=f"{a.module.relpath}:{a.name}.{m.name}:call-address:{n.func.attr}")

    # ---- O9.5 executor failures surface ----------------------------------------------------------
    chk.rule("O9.5", "each actor that submits work to an executor pool polls the future in its WakeupMessage handler: .exception() is read and, "
             "when truthy, a BenchmarkFailure is sent to the parent on every path; the executor's broad handler re-raises", 3,
             "a runner / param source / on-error=abort failure inside the executor thread is never reported")
    for a in model.actors:
        fut_attrs = set()
        for m in a.methods.values():
            for n in walk_body(m):
                if isinstance(n, ast.Assign) and len(n.targets) == 1 and is_self_attr(n.targets[0]):
                    v_ = _through_locals(n.value, m)
                    if isinstance(v_, ast.Call) and last_attr(v_.func) == "submit":
                        fut_attrs.add(n.targets[0].attr)
        if not fut_attrs:
            continue
        f = model.table.method(a, "receiveMsg_WakeupMessage")
        inst = f"{a.name}.receiveMsg_WakeupMessage polls {sorted(fut_attrs)}"
        if f is None:
            chk.ob("O9.5", inst, False, a.node, "no WakeupMessage handler")
            continue
        found = False
        handed_on = None
        # the poll is looked for in the handler and in the helper methods of the class it reaches; the future may be read through a local alias
        for ci_, fn in model.method_closure(a, f):
            if ci_ is not a and ci_ not in model.table.mro(a):
                continue
            g = cfg_of(fn)
            for n in walk_body(fn):
                if isinstance(n, ast.Assign) and isinstance(n.value, ast.Call) and last_attr(n.value.func) == "exception" and isinstance(n.value.func, ast.Attribute) \
                        and is_self_attr(_through_locals(n.value.func.value, fn)) and _through_locals(n.value.func.value, fn).attr in fut_attrs \
                        and len(n.targets) == 1 and isinstance(n.targets[0], ast.Name):
                    var = n.targets[0].id
                    # the test on the variable: any `if` that decides on it alone (evaluated for an exception object and for None, so `if e`, `if e is not None`,
                    # `if not e` / `if e is None` with swapped arms are the same decision); the branch taken for an exception must report (a failure send to an address,
                    # or a helper method that sends one on every path)
                    rec_, unrec_ = _report_sites(model, a, fn, set(), set(addr[a.name]), accept_failure=True)
                    for t in walk_body(fn):
                        lab = _truthy_edge(t.test, var) if isinstance(t, ast.If) else None
                        if lab is not None:
                            found = True
                            tn = g.node_of(t)
                            sends = [g.node_of(c) for c, _ in rec_]
                            starts = g.edge_targets(tn, lab)
                            ok = bool(sends) and bool(starts) and all(s in sends or g.must_pass(s, sends) for s in starts)
                            if not ok and unrec_:
                                chk.unknown("O9.5", f"{inst}: the failure report `{short(unrec_[0], 60)}` goes to a target that is not recognised as an actor address", unrec_[0])
                                continue
                            chk.ob("O9.5", inst, ok, t, "on a truthy future exception every normal path sends BenchmarkFailure" if ok else
                                   "a path from the truthy-exception branch reaches the handler's end without sending BenchmarkFailure")
                    if not found:
                        handed_on = handed_on or next((c for c in walk_body(fn) if isinstance(c, ast.Call) and not _log_noise(c) and last_attr(c.func) not in ("str", "repr")
                                                       and any(isinstance(x, ast.Name) and x.id == var for a_ in list(c.args) + [k.value for k in c.keywords] for x in ast.walk(a_))), None)
        if not found and handed_on is not None:
            chk.unknown("O9.5", f"{inst}: the future's exception is read but handed to `{short(handed_on, 60)}`, which the rule does not follow", handed_on)
        elif not found:
            chk.ob("O9.5", inst, False, f, "the handler never reads <future>.exception() into a tested variable")
    # ---- O9.5p the polled exception crosses the process boundary as text ------------------------------
    chk.rule("O9.5p", "the exception an actor polls from its executor future comes out of code only this process has loaded (runners, parameter sources and preparation tasks of "
             "track plugins), while the failure notification is unpickled in the processes of the parent actors up to race control: wherever that exception object flows into the "
             "payload of a send (in the wake-up handler or in a helper method it is handed to, through locals, containers and conditional expressions) it is converted to text "
             "first (str / repr / formatting); the object itself never is an argument of the message", 2,
             "a failure whose exception class is defined in a track plugin cannot be unpickled by the driver / race control process: the actor system drops the message, race control is never told and the race hangs")
    _TEXT_CALLS = {"str", "repr", "format", "type", "format_exc", "format_exception", "format_exception_only", "join"}

    def _is_poll(e_):
        return isinstance(e_, ast.Call) and isinstance(e_.func, ast.Attribute) and e_.func.attr == "exception"

    def _raw_flow(e_, names):
        """does the exception object (a name in `names` or the poll itself) reach the value of e_ as an object? True: yes; False: no (not used, or only as text); None: not recognised"""
        if isinstance(e_, ast.Name):
            return e_.id in names
        if _is_poll(e_):
            return True
        if not any((isinstance(x, ast.Name) and x.id in names) or _is_poll(x) for x in ast.walk(e_)):
            return False
        if isinstance(e_, ast.JoinedStr) or (isinstance(e_, ast.BinOp) and isinstance(e_.op, ast.Mod)):
            return False
        if isinstance(e_, ast.Call):
            return False if last_attr(e_.func) in _TEXT_CALLS else None
        if isinstance(e_, (ast.Tuple, ast.List, ast.Set)):
            parts = list(e_.elts)
        elif isinstance(e_, ast.Dict):
            parts = [k_ for k_ in e_.keys if k_ is not None] + list(e_.values)
        elif isinstance(e_, ast.IfExp):
            parts = [e_.body, e_.orelse]
        elif isinstance(e_, ast.BoolOp):
            parts = list(e_.values)
        elif isinstance(e_, ast.Starred):
            parts = [e_.value]
        else:
            return None
        vs = [_raw_flow(x, names) for x in parts]
        return True if True in vs else (None if None in vs else False)

    for a in model.actors:
        futs = {n.targets[0].attr for m in a.methods.values() for n in walk_body(m) if isinstance(n, ast.Assign) and len(n.targets) == 1 and is_self_attr(n.targets[0])
                and isinstance(_through_locals(n.value, m), ast.Call) and last_attr(_through_locals(n.value, m).func) == "submit"}
        f = model.table.method(a, "receiveMsg_WakeupMessage") if futs else None
        if f is None:
            continue
        work, polled = [], False
        for ci_, fn in model.method_closure(a, f):
            if ci_ is not a and ci_ not in model.table.mro(a):
                continue
            names = {n.targets[0].id for n in walk_body(fn) if isinstance(n, ast.Assign) and len(n.targets) == 1 and isinstance(n.targets[0], ast.Name) and _is_poll(n.value)
                     and is_self_attr(_through_locals(n.value.func.value, fn)) and _through_locals(n.value.func.value, fn).attr in futs}
            # `try: <future>.result() except ... as e`: the same exception, re-raised by the future
            names |= {h_.name for t in walk_body(fn) if isinstance(t, ast.Try) for h_ in t.handlers if h_.name
                      and any(isinstance(c, ast.Call) and isinstance(c.func, ast.Attribute) and c.func.attr == "result" and is_self_attr(_through_locals(c.func.value, fn))
                              and _through_locals(c.func.value, fn).attr in futs for s_ in t.body for c in ast.walk(s_))}
            if names:
                polled = True
                work.append((fn, frozenset(names), 0))
        if not polled:
            continue  # O9.5 reports a handler that never reads the future's exception
        raw, text, unrec, done = [], [], [], set()
        while work:
            fn, names, depth = work.pop()
            if (id(fn), names) in done:
                continue
            done.add((id(fn), names))
            defs = {k_: v_ for k_, v_ in _ldefs(fn).items() if k_ not in names}
            for c in walk_body(fn):
                if not isinstance(c, ast.Call):
                    continue
                if last_attr(c.func) in ("send", "ask", "tell") and len(c.args) >= 2:
                    pl = source.inline_node(c.args[1], defs)
                    built = isinstance(pl, ast.Call) and last_attr(pl.func) not in _TEXT_CALLS and not _is_poll(pl)
                    vs = [_raw_flow(x, names) for x in (list(pl.args) + [k.value for k in pl.keywords] if built else [pl])]
                    if True in vs:
                        raw.append(c)
                    elif None in vs:
                        unrec.append(c)
                    elif any((isinstance(x, ast.Name) and x.id in names) or _is_poll(x) for x in ast.walk(pl)):
                        text.append(c)
                elif is_self_attr(c.func) and depth < 2 and model.table.method(a, c.func.attr) is not None:
                    h_ = model.table.method(a, c.func.attr)
                    got = {p_ for p_, v_ in source.bind_args(c, h_).items() if _raw_flow(source.inline_node(v_, defs), names) is True}
                    if got:
                        work.append((h_, frozenset(got), depth + 1))
        inst = f"{a.name}: the exception polled from {sorted(futs)} reaches message payloads only as text"
        if unrec and not raw:
            chk.unknown("O9.5p", f"{inst}: the use of the exception in `{short(unrec[0], 70)}` is not one of the recognised forms (object / text conversion / container)", unrec[0])
            continue
        chk.ob("O9.5p", inst, not raw, raw[0] if raw else (text[0] if text else f),
               (f"the exception object itself is an argument of the message: {short(raw[0], 90)}" if raw else f"as text in {[short(c, 60) for c in text]}"),
               key=f"{a.module.relpath}:{a.name}:polled-exception-as-text")

    # broad handler in the request loop re-raises
    ex = drv.cls("AsyncExecutor")
    call = drv.methods(ex).get("__call__")
    if call is None:
        raise AnchorMissing("AsyncExecutor.__call__")
    # by role: the REQUEST is the call of execute_single, wherever it sits - in __call__ itself or in a helper method of the executor that __call__ reaches through self.<m>() calls
    # (an extracted `_execute_request`, an extracted loop body, the whole loop moved into a helper). A chain is the list of (function, node) links from __call__ down to the
    # request: every link but the last is a self.<helper>(...) call, the last is the execute_single call. The request LOOP is the innermost `async for` around a link.
    ex_ci = next((c for c in model.table.classes if c.node is ex), None) or model.table.get("AsyncExecutor", drv.relpath)

    def _anc_in(n, fn):
        """ancestors of n inside fn (innermost first)"""
        out = []
        for a_ in source.ancestors(n):
            if a_ is fn:
                break
            out.append(a_)
        return out

    def _chains_to(pred, fn, depth=0, seen=()):
        out = [[(fn, n)] for n in walk_body(fn) if pred(n)]
        if depth < 4:
            for c in walk_body(fn):
                if isinstance(c, ast.Call) and is_self_attr(c.func):
                    h_ = model.table.method(ex_ci, c.func.attr)
                    if h_ is not None and h_ is not fn and id(h_) not in seen:
                        out += [[(fn, c)] + ch for ch in _chains_to(pred, h_, depth + 1, seen + (id(fn),))]
        return out

    req_chains = _chains_to(lambda n: isinstance(n, ast.Call) and last_attr(n.func) == "execute_single", call)
    if not req_chains:
        raise AnchorMissing("AsyncExecutor.__call__: no call of execute_single in it or in the executor methods it calls")

    def _loop_of(chain):
        """(index of the link, the loop): the innermost `async for` around a link of the chain (searched from the request upwards), or None"""
        for i in range(len(chain) - 1, -1, -1):
            for a_ in _anc_in(chain[i][1], chain[i][0]):
                if isinstance(a_, ast.AsyncFor):
                    return i, a_
        return None

    req_loops = [(_loop_of(ch), ch) for ch in req_chains]
    if not any(lp for lp, _ in req_loops):
        raise AnchorMissing("AsyncExecutor.__call__: request loop (async for) around the execute_single call not found")
    # every handler that can catch what the request raises (a try whose BODY holds a link of the chain, in whichever function of the chain) must not complete normally
    seen_h = set()
    for ch in req_chains:
        for fn_i, n_i in ch:
            g = cfg_of(fn_i)
            for t in _anc_in(n_i, fn_i):
                if not (isinstance(t, ast.Try) and any(n_i is x for s_ in t.body for x in ast.walk(s_))):
                    continue
                for h in t.handlers:
                    if id(h) in seen_h:
                        continue
                    seen_h.add(id(h))
                    hn = [x for x in g.by_ast.get(id(h), [])]
                    if not hn:
                        chk.unknown("O9.5", f"AsyncExecutor.{fn_i.name}: handler `except {u(h.type) if h.type else ''}` has no node in the control-flow graph", h)
                        continue
                    ok = all(g.exit.id not in g.reachable([x]) for x in hn)
                    chk.ob("O9.5", f"AsyncExecutor.{fn_i.name}: handler `except {u(h.type) if h.type else ''}` never completes normally", ok, h,
                           "every path from this handler ends in raise" if ok else "the handler can fall through / return: the executor future completes without exception")
    # AsyncIoAdapter / gather: exceptions must propagate (no return_exceptions=True)
    for c in source.calls_in(drv.tree, name="asyncio.gather", local=False):
        re_kw = source.arg_of(c, None, "return_exceptions")
        ok = re_kw is None or source.is_const(re_kw, False)
        chk.ob("O9.5", "asyncio.gather propagates client exceptions", ok, c, "return_exceptions is not enabled" if ok else "return_exceptions=True swallows client failures")

    # abort policy per request (shared with C04/O4.6)
    from rules.C04 import check_execute_single

    check_execute_single(chk, drv, "O9.5b")

    # ---- O9.5f a refused connection is fatal whatever else the exception carries, and abort aborts -----------------------------------------------------------------
    # decided on VALUES: the request function is interpreted (see _Sim) for a request that raises a library exception object; where the classification stands in the handler, how it
    # is spelled and whether helpers of the module do part of it plays no role. The error policy is the parameter (by role: a parameter the function compares with a string).
    chk.rule("O9.5f", "execute_single, interpreted for a request that raises the exact elasticsearch.ConnectionError (connection refused: a node died) under on-error=continue, ends "
             "in a raise whatever else the exception carries (no earlier attempt in e.errors, an earlier attempt without / with an HTTP status, no message); under on-error=abort it "
             "ends in a raise for every transport error", 7,
             "a dead node (the transport attaches the errors of its earlier attempts to the final ConnectionError) is recorded as a failed sample under on-error=continue, "
             "the race completes and is reported as a success")
    from sa.exc import Hierarchy

    hier = getattr(chk.repo, "_c04_hier", None)
    if hier is None:
        hier = chk.repo._c04_hier = Hierarchy()
    es_fn = drv.func("execute_single")
    policy = [p_ for p_ in params_of(es_fn) + [k_.arg for k_ in es_fn.args.kwonlyargs]
              if any(isinstance(c, ast.Compare) and any(isinstance(x, ast.Name) and x.id == p_ for x in ast.walk(c)) and any(isinstance(x, ast.Constant) and isinstance(x.value, str) for x in ast.walk(c))
                     for c in ast.walk(es_fn))]
    CE, CT, TE = "elasticsearch.ConnectionError", "elasticsearch.ConnectionTimeout", "elasticsearch.TransportError"
    if not all(hier.known(c) for c in (CE, CT, TE)):
        raise AnchorMissing("library exception classes elasticsearch.ConnectionError / ConnectionTimeout / TransportError")

    def _earlier(**kw):
        return _Exc(CE, message="Connection refused", errors=(), **kw)

    scenarios = [(CE, "continue", "no earlier attempt", dict(message="Connection refused", errors=())),
                 (CE, "continue", "one earlier attempt (retried once)", dict(message="Connection refused", errors=(_earlier(),))),
                 (CE, "continue", "earlier attempts, the first one carries an HTTP status", dict(message="Connection refused", errors=(_earlier(status=502), _earlier()))),
                 (CE, "continue", "an empty message", dict(message="", errors=(_earlier(),))),
                 (CE, "abort", "one earlier attempt", dict(message="Connection refused", errors=(_earlier(),))),
                 (CT, "abort", "timed out", dict(message="Connection timed out", errors=())),
                 (TE, "abort", "some transport error", dict(message="transport error", errors=()))]
    for cls_, pol_, what, fields in scenarios:
        inst = f"request raises {cls_.rsplit('.', 1)[-1]} ({what}), on-error={pol_}"
        if not policy and pol_ == "abort":
            chk.unknown("O9.5f", "execute_single: no parameter is compared with a string (the error policy was not located)", es_fn)
            break
        try:
            kind, val = _request_outcome(drv, hier, es_fn, _Exc(cls_, **fields), {p_: pol_ for p_ in policy})
        except _SimUnsupported as e:
            chk.unknown("O9.5f", f"execute_single, {inst}: {e} - not recognised in this shape of execute_single", es_fn)
            continue
        chk.ob("O9.5f", inst, kind == "raise", val if isinstance(val, ast.AST) else es_fn,
               "ends in a raise" if kind == "raise" else "execute_single returns a (failed) sample instead of raising: the task goes on and the race can end as a success",
               key=f"{drv.relpath}:execute_single:fatal:{cls_}|{pol_}|{what}")

    # ---- O9.9 cancellation chain and abort policy per task -------------------------------------------------------------------------------------------------------
    chk.rule("O9.9", "user cancellation: race() tells race control BenchmarkCancelled (blocking) and raises; an exit request sets the worker's cancel event while its executor runs; the worker's "
             "wake-up reports BenchmarkCancelled before looking at the future; the request loop stops at the next request; the task's error behaviour is 'abort' iff the benchmark's is "
             "'abort' and the task does not ignore non-fatal errors", 7,
             "Ctrl+C ends the race as success / stores results; on-error=abort continues after a failed request of some task")
    gr_ = cfg_of(race_fn)
    kh = [h for t in ast.walk(race_fn) if isinstance(t, ast.Try) for h in t.handlers
          if h.type is not None and "KeyboardInterrupt" in [last_attr(e_) for e_ in (h.type.elts if isinstance(h.type, ast.Tuple) else [h.type])]]
    if not kh:
        chk.unknown("O9.9", "race(): no handler of KeyboardInterrupt was located (is Ctrl+C handled by the caller?)", race_fn)
    else:
        # blocking notification (ask; the payload built in place or via a local) on every path through the handler, and the handler never completes normally
        asks = [n for n in ast.walk(kh[0]) if isinstance(n, ast.Call) and last_attr(n.func) == "ask" and _sends(n, race_fn, "BenchmarkCancelled")]
        # ... or a call of a module-level helper that does the blocking notification on every normal path (the handler's body, or the notification alone, extracted)
        for c in ast.walk(kh[0]):
            h_ = rc.get(c.func.id, required=False) if isinstance(c, ast.Call) and isinstance(c.func, ast.Name) else None
            if isinstance(h_, (ast.FunctionDef, ast.AsyncFunctionDef)) and h_ is not race_fn:
                inner = [n for n in walk_body(h_) if isinstance(n, ast.Call) and last_attr(n.func) == "ask" and _sends(n, h_, "BenchmarkCancelled")]
                gh_ = cfg_of(h_)
                if inner and gh_.must_pass(gh_.entry, [gh_.node_of(n) for n in inner], normal_only=True):
                    asks.append(c)
        hn_ = gr_.by_ast.get(id(kh[0]), [])
        raises_ = [gr_.node_of(r_) for r_ in ast.walk(kh[0]) if isinstance(r_, ast.Raise)]
        # calls of the handler the rule has not looked into (the exception that is raised at the end is constructed, not called for an effect)
        opaque_ = _opaque_calls(kh[0], known=[r_.exc for r_ in ast.walk(kh[0]) if isinstance(r_, ast.Raise) and r_.exc is not None])
        opaque_ = [c for c in opaque_ if not (isinstance(c.func, ast.Name) and isinstance(rc.get(c.func.id, required=False), (ast.FunctionDef, ast.AsyncFunctionDef)))]  # looked into above
        # a notification that does not block (tell / send of BenchmarkCancelled) is located and wrong, not an unknown shape
        nonblocking_ = [n for n in ast.walk(kh[0]) if isinstance(n, ast.Call) and last_attr(n.func) != "ask" and _sends(n, race_fn, "BenchmarkCancelled")]
        if not asks and opaque_ and not nonblocking_:
            # nothing in the handler is recognised as the notification, but it calls something the rule has not looked into: shape not recognised, not a verdict
            chk.unknown("O9.9", f"race(): the KeyboardInterrupt handler does not ask race control with BenchmarkCancelled itself and calls `{short(opaque_[0], 50)}`, which is not followed", kh[0])
        else:
            ok = bool(asks) and bool(hn_) and bool(raises_) and all(gr_.exit.id not in gr_.reachable([x]) for x in hn_) \
                and all(gr_.must_pass(x, [gr_.node_of(c) for c in asks], exits=raises_, normal_only=True) for x in hn_)
            chk.ob("O9.9", "race(): KeyboardInterrupt -> ask(BenchmarkCancelled) then raise", ok, kh[0],
                   f"race control is notified without waiting for its answer: {short(nonblocking_[0], 60)}" if nonblocking_ and not asks else "")
    exit_tells = [n for n in ast.walk(race_fn) if isinstance(n, ast.Call) and _sends(n, race_fn, "ActorExitRequest")]
    fin = [t for t in ast.walk(race_fn) if isinstance(t, ast.Try) and t.finalbody]
    if not exit_tells:
        chk.unknown("O9.9", "race(): the ActorExitRequest for race control was not located", race_fn)
    else:
        ok = any(any(n is x for s_ in t.finalbody for x in ast.walk(s_)) and not guards(n, stop=t) for t in fin for n in exit_tells)
        chk.ob("O9.9", "race(): race control is always told to exit (finally)", ok, fin[0] if fin else exit_tells[0], "")
    Wk = model.actor("Worker")
    # the cancel event, by role: the Worker attribute whose .set() the exit request calls and which is handed to the load generator: Worker -> AsyncIoAdapter(...) ->
    # AsyncExecutor(...), followed through constructor arguments and the attributes the constructors store them in (names are irrelevant)
    ADP = drv.cls("AsyncIoAdapter")
    adp_init, exi = drv.methods(ADP).get("__init__"), drv.methods(ex).get("__init__")
    if adp_init is None or exi is None:
        raise AnchorMissing("AsyncIoAdapter.__init__ / AsyncExecutor.__init__")

    def ctor_flow(src_funcs, src_attr, ctor_name, target_init):
        """attribute of the constructed object that receives self.<src_attr> of the constructing one (argument -> parameter -> `self.<y> = <parameter>`), or None"""
        for fn in src_funcs:
            for c in ast.walk(fn):
                if isinstance(c, ast.Call) and last_attr(c.func) == ctor_name:
                    for p_, v_ in source.bind_args(c, target_init).items():
                        if is_self_attr(v_, src_attr):
                            for n in walk_body(target_init):
                                if isinstance(n, ast.Assign) and len(n.targets) == 1 and is_self_attr(n.targets[0]) and isinstance(n.value, ast.Name) and n.value.id == p_:
                                    return n.targets[0].attr
        return None

    def ctor_source(src_funcs, ctor_name, target_init, target_attr):
        """the reverse: the expression the constructing object passes for the parameter that target_init stores in self.<target_attr>, or None"""
        pn = next((n.value.id for n in walk_body(target_init) if isinstance(n, ast.Assign) and len(n.targets) == 1 and is_self_attr(n.targets[0], target_attr) and isinstance(n.value, ast.Name)), None)
        for fn in src_funcs:
            for c in ast.walk(fn):
                if isinstance(c, ast.Call) and last_attr(c.func) == ctor_name and pn in source.bind_args(c, target_init):
                    return source.bind_args(c, target_init)[pn]
        return None

    exr = model.table.method(Wk, "receiveMsg_ActorExitRequest")
    wk_funcs = list(Wk.methods.values())
    adp_funcs = list(drv.methods(ADP).values())
    set_sites = []  # (node in the exit handler, the .set() call, Worker attribute)
    if exr is not None:
        for ci_, fn in model.method_closure(Wk, exr, depth=2):
            for n in walk_body(fn):
                if isinstance(n, ast.Call) and isinstance(n.func, ast.Attribute) and n.func.attr == "set" and not n.args and is_self_attr(_through_locals(n.func.value, fn)):
                    top = n if fn is exr else next((c for c in walk_body(exr) if isinstance(c, ast.Call) and is_self_attr(c.func) and c.func.attr == fn.name), None)
                    if top is not None:
                        set_sites.append((top, n, _through_locals(n.func.value, fn).attr))
    ev_w = ev_a = ev_x = None
    for _, _, attr_ in set_sites:
        a_ = ctor_flow(wk_funcs, attr_, "AsyncIoAdapter", adp_init)
        x_ = ctor_flow(adp_funcs, a_, "AsyncExecutor", exi) if a_ else None
        if x_:
            ev_w, ev_a, ev_x = attr_, a_, x_
    futs_w = {n.targets[0].attr for m_ in wk_funcs for n in walk_body(m_) if isinstance(n, ast.Assign) and len(n.targets) == 1 and is_self_attr(n.targets[0])
              and isinstance(_through_locals(n.value, m_), ast.Call) and last_attr(_through_locals(n.value, m_).func) == "submit"}

    def facts_text(node, fn, stop=None):
        """guard facts of node as text, single-assignment locals of fn looked through (`cancelled = self.cancel.is_set` ... `if cancelled():` is the same test)"""
        return [source.inline(f_, _ldefs(fn)) for f_ in pat.fact_nodes(node, stop=stop)]

    if exr is None:
        chk.ob("O9.9", "exit request sets the cancel event while the executor runs", False, Wk.node, "Worker has no receiveMsg_ActorExitRequest")
    elif ev_w is None:
        if set_sites or _opaque_calls(exr):
            chk.unknown("O9.9", "Worker.receiveMsg_ActorExitRequest: no event that is set there could be followed into the load generator (Worker -> AsyncIoAdapter -> AsyncExecutor)", exr)
        else:
            chk.ob("O9.9", "exit request sets the cancel event while the executor runs", False, exr, "the handler sets no event")
    else:
        # ... while the executor runs: among the conditions of the .set() (in the handler, and in the helper if it sits in one) is <future>.running()
        ok = False
        for top, n, attr_ in set_sites:
            if attr_ == ev_w:
                fts = facts_text(top, exr) + (facts_text(n, source.enclosing_func(n)) if top is not n else [])
                ok = ok or any(ft == f"self.{fu}.running()" for ft in fts for fu in futs_w)
        chk.ob("O9.9", "exit request sets the cancel event while the executor runs", ok, exr, f"cancel event: Worker.{ev_w} -> AsyncIoAdapter.{ev_a} -> AsyncExecutor.{ev_x}")
    wkh = model.table.method(Wk, "receiveMsg_WakeupMessage")
    if wkh is None:
        raise AnchorMissing("Worker.receiveMsg_WakeupMessage")
    gk = cfg_of(wkh)

    def closure_sites(fn0, pred):
        """[(node in fn0, matching node, function holding it)] for nodes satisfying pred in fn0 or in a helper method of Worker that fn0 calls directly"""
        out = [(n, n, fn0) for n in walk_body(fn0) if pred(n, fn0)]
        for c in walk_body(fn0):
            if isinstance(c, ast.Call) and is_self_attr(c.func) and c.func.attr != "send":
                h_ = model.table.method(Wk, c.func.attr)
                if h_ is not None and h_ is not fn0:
                    out += [(c, n, h_) for n in walk_body(h_) if pred(n, h_)]
        return out

    cs_ = closure_sites(wkh, lambda n, fn: isinstance(n, ast.Call) and last_attr(n.func) == "send" and _sends(n, fn, "BenchmarkCancelled"))
    ex_ = closure_sites(wkh, lambda n, fn: isinstance(n, ast.Call) and isinstance(n.func, ast.Attribute) and n.func.attr == "exception" and is_self_attr(_through_locals(n.func.value, fn))
                        and _through_locals(n.func.value, fn).attr in futs_w)
    if ev_w is None:
        chk.unknown("O9.9", "Worker.receiveMsg_WakeupMessage: the cancel event was not identified (see above)", wkh)
    else:
        is_set, not_set = f"self.{ev_w}.is_set()", f"not self.{ev_w}.is_set()"

        def under(site, fact):
            top, n, fn = site
            return fact in facts_text(top, wkh) or (top is not n and fact in facts_text(n, fn))

        # cancellation is reported under "the event is set"; the future is only looked at under "the event is not set", and never after the report
        def poll_after(c, e_):
            """can the poll e_ run after the report c? (both in the same function: in that function's graph; otherwise by the places they are reached from in the handler)"""
            if c[2] is e_[2]:
                gx = cfg_of(c[2])
                return gx.path_exists(gx.node_of(c[1]), gx.node_of(e_[1]))
            return gk.path_exists(gk.node_of(c[0]), gk.node_of(e_[0]))

        ok = bool(cs_) and all(under(c, is_set) for c in cs_) and all(under(e_, not_set) and not any(poll_after(c, e_) for c in cs_) for e_ in ex_)
        chk.ob("O9.9", "worker wake-up reports cancellation before polling the future", ok, cs_[0][0] if cs_ else wkh,
               "" if ok else ("no BenchmarkCancelled is sent" if not cs_ else f"expected the report under `{is_set}` and the poll under `{not_set}`"))
    # ---- O9.9s the cancel event stands for a cancellation by the user only -------------------------------------------------------------------------------------------
    # by data flow: the event is the Worker attribute found above; it reaches the load generator through constructor arguments (Worker -> AsyncIoAdapter -> AsyncExecutor, every
    # attribute a constructor stores it in). In each of the three classes every use of the event is classified (through single-assignment aliases and into helper methods /
    # module functions it is handed to): a `.set` is legitimate only in a method of the Worker that runs on behalf of the exit request alone.
    chk.rule("O9.9s", "the worker's cancel event - the one its exit request sets and its wake-up answers with BenchmarkCancelled, followed by data flow Worker -> AsyncIoAdapter -> "
             "AsyncExecutor through constructor arguments, attributes, local aliases and helper parameters - is set nowhere but on behalf of the exit request: no method of the load "
             "generator and no other handler of the worker sets it (a failure must never look like a cancellation)", 3,
             "a failing client / handler sets the shared cancel event: the worker's wake-up answers BenchmarkCancelled instead of BenchmarkFailure, race control takes it for a "
             "cancellation by the user and race() returns normally")

    def all_ctor_flows(src_funcs, src_attr, ctor_name, target_init):
        """every attribute of the constructed object that receives self.<src_attr> of the constructing one (argument, directly or via a local -> parameter -> `self.<y> = <parameter>`)"""
        out = []
        for fn in src_funcs:
            for c in ast.walk(fn):
                if isinstance(c, ast.Call) and last_attr(c.func) == ctor_name:
                    for p_, v_ in source.bind_args(c, target_init).items():
                        if is_self_attr(_through_locals(v_, source.enclosing_func(c) or fn), src_attr):
                            out += [n.targets[0].attr for n in walk_body(target_init) if isinstance(n, ast.Assign) and len(n.targets) == 1 and is_self_attr(n.targets[0])
                                    and isinstance(_through_locals(n.value, target_init), ast.Name) and _through_locals(n.value, target_init).id == p_]
        return sorted(set(out))

    _EVENT_READS = ("is_set", "isSet", "clear", "wait")

    def event_uses(fn, attrs, names, cls_node, next_ctor, depth=0, seen=()):
        """(set sites, uses that are not followed) of the event in fn, where the event is self.<a> for a in attrs or one of the local names (a parameter it arrives in);
        single-assignment aliases are looked through, helper methods of the class and functions of the module that are handed the event are entered"""
        sets, lost = [], []
        names = set(names)
        changed = True
        while changed:  # aliases: `ev = self.cancel` (bound once)
            changed = False
            for k_, v_ in _ldefs(fn).items():
                if k_ not in names and ((is_self_attr(v_) and v_.attr in attrs) or (isinstance(v_, ast.Name) and v_.id in names)):
                    names.add(k_)
                    changed = True
        for x in ast.walk(fn):
            if not ((is_self_attr(x) and x.attr in attrs and isinstance(x.ctx, ast.Load)) or (isinstance(x, ast.Name) and x.id in names and isinstance(x.ctx, ast.Load))):
                continue
            p = source.parent(x)
            if isinstance(p, ast.Attribute) and p.value is x:
                if p.attr == "set":
                    sets.append((p, fn))
                elif p.attr not in _EVENT_READS:
                    lost.append(p)
            elif isinstance(p, ast.Assign) and p.value is x:
                if not all((isinstance(t, ast.Name) and t.id in names) or (is_self_attr(t) and t.attr in attrs) for t in p.targets):
                    lost.append(p)
            elif isinstance(p, (ast.Call, ast.keyword)):
                c = p if isinstance(p, ast.Call) else source.parent(p)
                if not isinstance(c, ast.Call) or c.func is x:
                    lost.append(p)
                elif last_attr(c.func) == next_ctor or _log_noise(c):
                    pass  # the flow itself (followed by all_ctor_flows) / a logging argument
                else:
                    callee = _class_method(cls_node, c.func.attr) if is_self_attr(c.func) else (drv.get(c.func.id, required=False) if isinstance(c.func, ast.Name) else None)
                    if not isinstance(callee, source.FUNC_TYPES) or depth > 3 or id(callee) in seen:
                        lost.append(c)
                    else:
                        inner = [p_ for p_, a_ in source.bind_args(c, callee, skip_self=is_self_attr(c.func)).items() if a_ is x]
                        if not inner:
                            lost.append(c)
                        else:
                            s2, l2 = event_uses(callee, attrs if is_self_attr(c.func) else (), inner, cls_node if is_self_attr(c.func) else None, next_ctor, depth + 1, seen + (id(fn),))
                            # uses of self.<attr> inside the helper method are seen when the class's methods are scanned; here only what happens to the parameter counts
                            sets += [(n_, f_) for n_, f_ in s2 if not is_self_attr(n_.value)]
                            lost += [n_ for n_ in l2 if not any(is_self_attr(y) for y in ast.walk(n_))]
            elif isinstance(p, (ast.Compare, ast.BoolOp, ast.UnaryOp, ast.If, ast.IfExp, ast.While, ast.Assert, ast.Expr, ast.JoinedStr, ast.FormattedValue)):
                pass  # identity / truthiness / formatting of the event object: no effect on it
            else:
                lost.append(p)
        return sets, lost

    if ev_w is None:
        chk.unknown("O9.9s", "the worker's cancel event was not identified (see O9.9)", Wk.node)
    else:
        adp_attrs = all_ctor_flows(wk_funcs, ev_w, "AsyncIoAdapter", adp_init)
        ex_attrs = sorted({x_ for a_ in adp_attrs for x_ in all_ctor_flows(adp_funcs, a_, "AsyncExecutor", exi)})
        holders = [("Worker", Wk.node, wk_funcs, [ev_w], "AsyncIoAdapter"), ("AsyncIoAdapter", ADP, adp_funcs, adp_attrs, "AsyncExecutor"),
                   ("AsyncExecutor", ex, list(drv.methods(ex).values()), ex_attrs, None)]
        for cname, cnode, funcs, attrs_, nxt in holders:
            if not attrs_:
                chk.unknown("O9.9s", f"{cname}: the attribute the cancel event arrives in was not located", cnode)
                continue
            sets, lost = [], []
            for fn in funcs:
                s_, l_ = event_uses(fn, attrs_, (), cnode, nxt)
                sets, lost = sets + s_, lost + l_
            foreign = []
            for n_, fn in sets:
                origins = _origin_handlers(fn, cnode) if cname == "Worker" else []
                if cname != "Worker":
                    foreign.append((n_, f"{cname}.{fn.name} (a method of the load generator)"))
                elif exr is None or any(o_ != exr.name for o_ in origins):
                    # in the worker itself the failure may be reported on the spot: a set that lies behind a BenchmarkFailure send on every path, or is followed by one on every
                    # normal path, cannot turn that failure into a cancellation (nothing wakes the worker up again in between)
                    gs_ = cfg_of(fn)
                    fwd_ = set(params_of(fn)[1:2]) if fn.name == "receiveMsg_BenchmarkFailure" else set()  # the failure this handler passes on
                    rep_ = [gs_.node_of(c) for c, _ in _report_sites(model, Wk, fn, fwd_, set(addr[Wk.name]), accept_failure=True)[0]]
                    sn_ = gs_.node_of(n_)
                    if rep_ and (gs_.must_pass(sn_, rep_, normal_only=True) or sn_.id not in gs_.reachable([gs_.entry], avoid=rep_)):
                        continue
                    foreign.append((n_, f"Worker.{fn.name}, which runs for {sorted(set(o_ for o_ in origins if exr is None or o_ != exr.name))}"))
                elif not origins:
                    lost.append(n_)
            inst = f"{cname}: the cancel event (self.{' / self.'.join(attrs_)}) is set on behalf of the exit request only"
            if foreign:
                chk.ob("O9.9s", inst, False, foreign[0][0], f"`{short(source.enclosing_stmt(foreign[0][0]), 60)}` in {foreign[0][1]}: the worker's next wake-up reports BenchmarkCancelled, "
                       "which race control takes for a cancellation by the user", key=f"{drv.relpath}:{cname}:cancel-event-set")
            elif lost:
                chk.unknown("O9.9s", f"{cname}: the cancel event is used in `{short(source.enclosing_stmt(lost[0]) or lost[0], 60)}`, a use the rule does not follow", lost[0])
            else:
                chk.ob("O9.9s", inst, True, cnode, f"{len(sets)} set site(s), all reached from {exr.name if exr is not None else '-'} only", key=f"{drv.relpath}:{cname}:cancel-event-set")

    # the request loop: within an iteration the request (the execute_single call, or the helper call that leads to it) is only reached while the cancel event is NOT set, and the
    # arm taken when it IS set leaves the loop. Decided on VALUES: every guard fact of the request inside the loop (single-assignment locals and predicate helpers of the executor -
    # `def _cancelled(self): return self.cancel.is_set()` - looked through) is evaluated with the event's is_set() fixed to True / False; where the test stands in the iteration,
    # how it is spelled and which function holds the loop do not matter. The event is the executor attribute the Worker's event arrives in (by data flow, see above).
    def _subst_names(e_, mapping):
        """e_ (a fresh copy) with the names of the mapping (parameters) replaced by copies of the mapped expressions (arguments)"""
        class T(ast.NodeTransformer):
            def visit_Name(self, n):
                return source.clone(mapping[n.id]) if isinstance(n.ctx, ast.Load) and n.id in mapping else n
        return T().visit(e_)

    def _pred_body(m_):
        """the expression a predicate-like helper returns (its body, docstring aside, is a single `return <expr>`), or None"""
        body = [s_ for s_ in m_.body if not (isinstance(s_, ast.Expr) and isinstance(s_.value, ast.Constant))]
        return body[0].value if len(body) == 1 and isinstance(body[0], ast.Return) and body[0].value is not None else None

    def _expand_preds(e_, depth=0):
        """e_ (a fresh copy) with argument-less self.<m>() calls and reads of self.<property> replaced by the expression that executor method returns"""
        class T(ast.NodeTransformer):
            def _body_of(self, name, want_property):
                m_ = model.table.method(ex_ci, name) if depth < 3 else None
                if m_ is None or want_property != any(last_attr(d_) == "property" for d_ in m_.decorator_list):
                    return None
                r_ = _pred_body(m_)
                return None if r_ is None else _expand_preds(source.inline_node(r_, _ldefs(m_)), depth + 1)

            def visit_Call(self, n):
                r_ = self._body_of(n.func.attr, False) if is_self_attr(n.func) and not n.args and not n.keywords else None
                return r_ if r_ is not None else self.generic_visit(n)

            def visit_Attribute(self, n):
                r_ = self._body_of(n.attr, True) if is_self_attr(n) and isinstance(n.ctx, ast.Load) else None
                return r_ if r_ is not None else self.generic_visit(n)

        return T().visit(e_)

    def _event_decision(f_, fn):
        """how a test depends on the cancel event: None - it does not read the event attribute; else (value when the event is set, value when it is not set), evaluated with
        is_set() fixed - either may be None when the rest of the test (other atoms) leaves it open, e.g. `cancel.is_set() or complete.is_set()` is (True, None)"""
        e_ = _expand_preds(source.inline_node(f_, _ldefs(fn)))
        if not any(is_self_attr(x, ev_x) for x in ast.walk(e_)):
            return None

        def val(b):
            class T(ast.NodeTransformer):
                def visit_Call(self, n):
                    return ast.Constant(value=b) if u(n) == f"self.{ev_x}.is_set()" else self.generic_visit(n)
            try:
                return bool(_ev(T().visit(source.clone(e_)), {}))
            except (CannotEval, TypeError, ValueError):
                return None
        return val(True), val(False)

    lab_ = "request loop stops at the next request once cancelled"
    if ev_x is None:
        chk.unknown("O9.9", "AsyncExecutor.__call__: the cancel event was not identified (see above)", next(lp[1] for lp, _ in req_loops if lp))
    for lp, ch in (req_loops if ev_x is not None else []):
        if lp is None:
            chk.unknown("O9.9", f"AsyncExecutor: a request ({short(ch[-1][1], 50)}) is reached outside of the schedule loop", ch[-1][1])
            continue
        i_loop, L = lp
        fn_l = ch[i_loop][0]
        gl = cfg_of(fn_l)
        head, R = gl.node_of(L), gl.node_of(ch[i_loop][1])
        tests, reads = [], False  # (if statement, its graph node, edge taken when the event is set, is the test decided by the event alone?)
        for p in walk_body(fn_l):
            if isinstance(p, ast.If) and any(a_ is L for a_ in _anc_in(p, fn_l)):
                d_ = _event_decision(p.test, fn_l)
                if d_ is not None:
                    reads = True
                    if d_[0] is not None and id(p) in gl.by_ast:
                        tests.append((p, gl.node_of(p), "true" if d_[0] else "false", d_[1] is not None and d_[1] != d_[0]))

        def _set_targets(t):
            return gl.edge_targets(t[1], t[2])

        def _dominated(ts):
            """every path from the loop head to the request passes one of the tests"""
            return bool(ts) and R.id not in gl.reachable([head], avoid=[t[1] for t in ts])

        # tests whose event-is-set edge cannot reach the request within the same iteration ...
        skips = [t for t in tests if _set_targets(t) and all(R.id not in gl.reachable([s_], avoid=[head]) for s_ in _set_targets(t))]
        # ... and, of these, the ones whose event-is-set arm leaves the loop (never returns to the loop head: break / return / raise)
        good = [t for t in skips if not any(gl.path_exists(s_, head, edge_ok=gl.normal_edge) for s_ in _set_targets(t))]
        wrong = [t for t in tests if t[3] and t not in skips and gl.dominated_by_edge(R, t[1], t[2])]
        def _below_loop():
            """the extracted-loop-body shape: the cancel test sits in the helper method the loop calls for each request. In the helper the request is only reached while the event
            is not set and the arm taken when it is set is `return <constant>` (logging aside); in the loop that constant, put in the place of the helper call, decides an `if`
            (directly or through a single-assignment local) whose arm leaves the loop, and that `if` lies on every normal path from the call back to the loop head.
            True / False (located and the loop goes on) / None (not this shape)"""
            if i_loop + 1 >= len(ch):
                return None
            C, (H, n_h) = ch[i_loop][1], ch[i_loop + 1]
            gh = cfg_of(H)
            Rh, ts, consts = gh.node_of(n_h), [], []
            for p in walk_body(H):
                d_ = _event_decision(p.test, H) if isinstance(p, ast.If) and id(p) in gh.by_ast else None
                if d_ is None or d_[0] is None:
                    continue
                if d_[1] is not None and d_[1] != d_[0] and gh.dominated_by_edge(Rh, gh.node_of(p), "true" if d_[0] else "false"):
                    return False  # in the helper the request is only reached while the event IS set
                tg = gh.edge_targets(gh.node_of(p), "true" if d_[0] else "false")
                rest = [s_ for s_ in (p.body if d_[0] else p.orelse) if not is_logging_stmt(s_)]
                if tg and not any(Rh.id in gh.reachable([s_]) for s_ in tg) and len(rest) == 1 and isinstance(rest[0], ast.Return) \
                        and (rest[0].value is None or isinstance(rest[0].value, ast.Constant)):
                    ts.append(gh.node_of(p))
                    consts.append(None if rest[0].value is None else rest[0].value.value)
            if not ts or Rh.id in gh.reachable([gh.entry], avoid=ts):
                return None
            ctxt = (u(C), source.inline(C, _ldefs(fn_l)))  # the test is compared after looking through locals, which also rewrites the call's arguments
            for P in walk_body(fn_l):
                if not (isinstance(P, ast.If) and id(P) in gl.by_ast and any(a_ is L for a_ in _anc_in(P, fn_l))):
                    continue
                e_ = source.inline_node(P.test, _ldefs(fn_l))
                if not any(isinstance(x, ast.Call) and u(x) in ctxt for x in ast.walk(e_)):
                    continue
                Pn = gl.node_of(P)
                if Pn.id != R.id and head.id in gl.reachable([R], avoid=[Pn], edge_ok=gl.normal_edge):
                    return None
                outcomes = []
                for cst in consts:
                    class T(ast.NodeTransformer):
                        def visit_Call(self, n):
                            return ast.Constant(value=cst) if u(n) in ctxt else self.generic_visit(n)

                        def visit_Await(self, n):
                            self.generic_visit(n)
                            return n.value if isinstance(n.value, ast.Constant) else n
                    try:
                        v_ = bool(_ev(T().visit(source.clone(e_)), {}))
                    except (CannotEval, TypeError, ValueError):
                        return None
                    tg = gl.edge_targets(Pn, "true" if v_ else "false")
                    outcomes.append(bool(tg) and not any(gl.path_exists(s_, head, edge_ok=gl.normal_edge) for s_ in tg))
                return all(outcomes)
            return None

        below = None
        if _dominated(good):
            chk.ob("O9.9", lab_, True, good[0][0], "")
        elif _dominated(skips):
            chk.ob("O9.9", lab_, False, skips[0][0], "when the event is set the request is skipped but the iteration does not leave the loop (no break / return / raise on that arm)")
        elif wrong:
            chk.ob("O9.9", lab_, False, wrong[0][0], f"the request is only issued while the cancel event IS set (`{short(wrong[0][0].test, 60)}`)")
        elif not tests and (below := _below_loop()) is not None:
            chk.ob("O9.9", lab_, below, ch[i_loop][1], "" if below else f"AsyncExecutor.{ch[i_loop + 1][0].name} tests the cancel event, but either issues the request only while it is set or returns a value "
                   "that does not make the loop end: the next iteration issues a request")
        else:
            # neither: is every read of the event in the executor accounted for by the located tests (in the test itself, in the single-assignment local it uses, in the
            # predicate helper it calls)? Then the event is known to be tested only at places an iteration need not pass before the request (located and wrong); a read that
            # is not understood makes the shape "not recognised"
            def _explained(x, fn_x):
                for p, *_ in tests:
                    names = {n_.id for n_ in ast.walk(p.test) if isinstance(n_, ast.Name)}
                    helpers = {n_.attr for n_ in ast.walk(p.test) if is_self_attr(n_)}
                    if fn_x is fn_l and any(a_ is p.test for a_ in [x] + _anc_in(x, fn_l)):
                        return True
                    if fn_x is fn_l and any(isinstance(a_, ast.Assign) and len(a_.targets) == 1 and isinstance(a_.targets[0], ast.Name) and a_.targets[0].id in names
                                            and a_.targets[0].id in _ldefs(fn_l) for a_ in _anc_in(x, fn_l)):
                        return True
                    if fn_x is not fn_l and fn_x.name in helpers and _pred_body(fn_x) is not None:
                        return True
                return False

            all_reads = [(x, m_) for m_ in ex_ci.methods.values() for x in ast.walk(m_) if isinstance(x, ast.Attribute) and is_self_attr(x, ev_x) and isinstance(x.ctx, ast.Load)]
            if not all_reads and not reads:
                chk.ob("O9.9", lab_, False, L, f"no method of the executor ever reads the cancel event self.{ev_x}: the loop cannot stop")
            elif tests and all(_explained(x, m_) for x, m_ in all_reads):
                chk.ob("O9.9", lab_, False, tests[0][0], f"the cancel event self.{ev_x} is only tested at places an iteration does not have to pass before the request "
                       f"({', '.join(loc(t[0]).rsplit(':', 1)[-1] for t in tests)}): a request is still issued after cancellation")
            else:
                chk.unknown("O9.9", f"AsyncExecutor.{fn_l.name}: the executor reads its cancel event (self.{ev_x}) but not in a test that every iteration passes before the request - shape not recognised", L)
    trkm = repo.module("esrally/track/track.py")
    chk.use(trkm)
    eb = trkm.methods(trkm.cls("Task")).get("error_behavior")
    if eb is None:
        raise AnchorMissing("Task.error_behavior")
    if len(params_of(eb)) < 2:
        raise AnchorMissing("Task.error_behavior(self, <default>)")
    dpar = params_of(eb)[1]
    def _behaviour_table(handed, how):
        """Task.error_behavior decided for the configured on-error setting 'abort' / 'continue' x (task ignores non-fatal errors or not). The function is evaluated on the VALUE that
        reaches its parameter for that setting - handed(setting): the setting as the worker stores it, as it hands it to the load generator and as the load generator keeps it
        (the identity when every hop passes the configured string on unchanged) - so the kind of the value handed over (string / flag / respelled string) and the kind the
        function compares its parameter with are checked against each other, whichever side spells it how."""
        # the level is "ignore" only for the literal 'non-fatal'; every other value — None (unset) but also the empty string a templated track may produce — does not ignore
        for dflt, ignores, level in ((True, False, None), (True, True, "non-fatal"), (False, False, None), (False, True, "non-fatal"), (True, False, ""), (False, False, "")):
            val = handed("abort" if dflt else "continue")

            def atom(n, env, val=val, level=level):
                # atoms are evaluated on representative values (any orientation / operator: ==, !=, in (...), plain truth), not recognised by their text
                if isinstance(n, ast.BoolOp) or (isinstance(n, ast.UnaryOp) and isinstance(n.op, ast.Not)):
                    return None
                try:
                    return bool(_ev(n, {dpar: val, "self": Record(ignore_response_error_level=level)}))
                except (CannotEval, TypeError, ValueError):
                    return None

            try:
                out = _decide(eb.body, atom, {})
            except (_Uns, UnknownAtom) as e:
                chk.unknown("O9.9", f"error_behavior is not a decision over (default is abort, task ignores non-fatal): {e}", eb)
                break
            got = out.value.value if out.kind == "return" and isinstance(out.value, ast.Constant) else None
            want = "abort" if (dflt and not ignores) else "continue"
            chk.ob("O9.9", f"error behaviour when on-error={'abort' if dflt else 'continue'} and the task {'ignores' if ignores else 'does not ignore'} non-fatal errors" + (" (level = '')" if level == "" else ""),
                   got == want, eb, f"{got}; expected {want}" + (f" ({dpar} = {val!r}: {how})" if how else ""), key=f"esrally/track/track.py:Task.error_behavior:{dflt}|{ignores}" + ("|empty" if level == "" else ""))

    handed_, how_ = (lambda s_: s_), ""  # until the hops from the configuration to error_behavior are located: the configured string itself
    # by role: among the constructor arguments of the executor one is <t>.error_behavior(self.<a>) where <t> is itself handed to the executor (its task); the parameter it binds
    # is stored in the attribute the request loop hands to execute_single; self.<a> of the adapter is what the Worker passes for it, read from the 'on.error' setting
    exc_ = [n for m_ in adp_funcs for n in ast.walk(m_) if isinstance(n, ast.Call) and last_attr(n.func) == "AsyncExecutor"]
    if not exc_:
        raise AnchorMissing("AsyncExecutor(...) in a method of AsyncIoAdapter")
    f0 = source.enclosing_func(exc_[0])
    bound = source.bind_args(exc_[0], exi)
    hit = None  # (constructor parameter, the object asked for its error behaviour, adapter attribute handed to it or None)
    w_src = None  # self.<w> of the Worker: the attribute whose value the worker hands to the load generator as the on-error setting
    for p_, v_ in bound.items():
        w_ = _through_locals(v_, f0)  # `on_error = task.error_behavior(...)` bound to a local first is the same argument
        if isinstance(w_, ast.Call) and is_self_attr(w_.func) and drv.methods(ADP).get(w_.func.attr) is not None:
            # a helper method of the adapter that returns the behaviour (`self._on_error_for(task)`): its returned expression with the call's arguments substituted
            h_ = drv.methods(ADP)[w_.func.attr]
            r_ = _pred_body(h_)
            if r_ is not None:
                w_ = _subst_names(source.inline_node(r_, _ldefs(h_)), source.bind_args(w_, h_))
        if isinstance(w_, ast.Call) and isinstance(w_.func, ast.Attribute) and w_.func.attr == eb.name:
            s_ = _through_locals(source.bind_args(w_, eb).get(dpar), f0)
            hit = (p_, w_.func.value, s_.attr if is_self_attr(s_) else None)
    if hit is None:
        # located the constructor call but no argument asks a task for its error behaviour: is the behaviour computed elsewhere (inside the executor, in a helper of the adapter)?
        inner = [n for m_ in list(drv.methods(ex).values()) + adp_funcs for n in ast.walk(m_) if isinstance(n, ast.Call) and last_attr(n.func) == eb.name]
        if inner:
            chk.unknown("O9.9", f"the task's error behaviour is asked for in {source.qualname(source.enclosing_func(inner[0]))} ({short(inner[0], 60)}), a shape the rule does not follow", inner[0])
        else:
            chk.ob("O9.9", "each executor gets its task's error behaviour derived from the worker's on-error setting", False, exc_[0],
                   f"neither a constructor argument of the form <task>.{eb.name}(<setting>) nor any other call of {eb.name} in the adapter or the executor")
        w_src = None
    else:
        p_, recv_, a_attr = hit
        t_ = source.inline(recv_, _ldefs(f0))
        x_attr = next((n.targets[0].attr for n in walk_body(exi) if isinstance(n, ast.Assign) and len(n.targets) == 1 and is_self_attr(n.targets[0])
                       and isinstance(_through_locals(n.value, exi), ast.Name) and _through_locals(n.value, exi).id == p_), None)

        def _origins(e_, fn, depth=0):
            """[(expression, function)] the value of e_ (in method fn of the executor) comes from: single-assignment locals are looked through and a parameter of a helper method
            is replaced by the arguments bound to it at every self.<helper>(...) call site in the class"""
            e_ = _through_locals(e_, fn)
            if isinstance(e_, ast.Name) and depth < 4 and fn is not call and e_.id in params_of(fn) + [k_.arg for k_ in fn.args.kwonlyargs]:
                sites = [(g_, c) for g_ in ex_ci.methods.values() for c in walk_body(g_) if isinstance(c, ast.Call) and is_self_attr(c.func) and c.func.attr == fn.name]
                if sites and all(e_.id in source.bind_args(c, fn) for _, c in sites):
                    return [o_ for g_, c in sites for o_ in _origins(source.bind_args(c, fn)[e_.id], g_, depth + 1)]
            return [(e_, fn)]

        def _is_attr_value(e_, fn):
            return all(is_self_attr(o_, x_attr) for o_, _ in _origins(e_, fn))

        # every request (execute_single call reached from __call__, in it or in a helper) is handed that attribute
        not_fed = [ch[-1] for ch in req_chains if not (x_attr and any(_is_attr_value(a_, ch[-1][0]) for a_ in list(ch[-1][1].args) + [k.value for k in ch[-1][1].keywords]))]
        # the task handed to the executor is the object that is asked (compared as values: locals looked through, so `task = task_allocation.task` and the attribute chain agree)
        task_is_arg = any(source.inline(v_, _ldefs(f0)) == t_ for k_, v_ in bound.items() if k_ != p_)
        if x_attr is None or not_fed:
            # a literal policy handed to execute_single instead is located and wrong; anything else is a shape that is not followed
            pol_params = []
            try:
                es_fn = drv.func("execute_single")
                pol_params = [q for q in params_of(es_fn) if any(isinstance(c, ast.Compare) and any(isinstance(x, ast.Name) and x.id == q for x in ast.walk(c))
                                                                 and any(source.is_const(x, "abort") for x in ast.walk(c)) for c in ast.walk(es_fn))]
            except AnchorMissing:
                es_fn = None
            lit = [(c, o_) for fn_, c in not_fed for q in pol_params if es_fn is not None and q in source.bind_args(c, es_fn, skip_self=False)
                   for o_, _ in _origins(source.bind_args(c, es_fn, skip_self=False)[q], fn_) if isinstance(o_, ast.Constant)]
            if lit:
                chk.ob("O9.9", "each executor gets its task's error behaviour derived from the worker's on-error setting", False, lit[0][0],
                       f"execute_single is handed the constant {short(lit[0][1], 30)} instead of the executor's error behaviour")
            else:
                chk.unknown("O9.9", f"AsyncExecutor: the constructor parameter `{p_}` (the task's error behaviour) could not be followed to the execute_single call of the request loop", exc_[0])
        elif a_attr is None:
            chk.unknown("O9.9", f"AsyncIoAdapter: the setting handed to {t_}.{eb.name}(...) could not be followed to an attribute of the adapter", exc_[0])
        else:
            chk.ob("O9.9", "each executor gets its task's error behaviour derived from the worker's on-error setting", task_is_arg, exc_[0],
                   f"{t_}.{eb.name}(self.{a_attr}) -> AsyncExecutor.{x_attr} -> execute_single" + ("" if task_is_arg else f"; `{t_}` is not the task handed to this executor"))
        # the hops of the setting, each one an expression over ONE source that is evaluated on the value coming in (no hop has to be a plain copy):
        #   Worker.<w> = <expression over the 'on.error' read>  ->  AsyncIoAdapter(..., <expression over self.<w>>, ...)  ->  adapter: self.<a> = <expression over that parameter>
        hops = []  # (expression, name the incoming value is bound to | None = self.<attribute>, attribute)
        a_st = [n for n in walk_body(adp_init) if isinstance(n, ast.Assign) and len(n.targets) == 1 and is_self_attr(n.targets[0], a_attr)] if a_attr else []
        if len(a_st) == 1:
            e_a = source.inline_node(a_st[0].value, _ldefs(adp_init))
            pns = {x.id for x in ast.walk(e_a) if isinstance(x, ast.Name) and x.id in params_of(adp_init) + [k_.arg for k_ in adp_init.args.kwonlyargs]}
            sites = [(fn, c) for fn in wk_funcs for c in ast.walk(fn) if isinstance(c, ast.Call) and last_attr(c.func) == "AsyncIoAdapter"] if len(pns) == 1 else []
            pn_ = next(iter(pns)) if len(pns) == 1 else None
            if len(sites) == 1 and pn_ in source.bind_args(sites[0][1], adp_init):
                e_w = source.inline_node(source.bind_args(sites[0][1], adp_init)[pn_], _ldefs(sites[0][0]))
                w_attrs = {x.attr for x in ast.walk(e_w) if is_self_attr(x)}
                fnames = {id(c.func) for c in ast.walk(e_w) if isinstance(c, ast.Call)}
                if len(w_attrs) == 1 and not any(isinstance(x, ast.Name) and x.id != "self" and id(x) not in fnames for x in ast.walk(e_w)):
                    w_src = next(x for x in ast.walk(e_w) if is_self_attr(x))
                    hops = [(e_w, None, w_src.attr), (e_a, pn_, None)]
    if hit is not None and w_src is None:
        chk.unknown("O9.9", "Worker: the value handed to AsyncIoAdapter as the on-error setting could not be followed to a Worker attribute", Wk.node)
        _behaviour_table(handed_, how_)
    elif hit is None:
        _behaviour_table(handed_, how_)
    else:
        def _reads_setting(v_, fn):
            """True: the stored value reads the 'on.error' setting (in place, through a local, or inside a Worker helper it calls); False: it is a constant (located and wrong);
            None: anything else - a shape the rule does not follow"""
            v_ = _through_locals(v_, fn)
            if any(source.is_const(x, "on.error") for x in ast.walk(v_)):
                return True
            for c in ast.walk(v_):
                h_ = model.table.method(Wk, c.func.attr) if isinstance(c, ast.Call) and is_self_attr(c.func) else None
                if h_ is not None and any(source.is_const(x, "on.error") for x in ast.walk(h_)):
                    return True
            return False if isinstance(v_, ast.Constant) else None

        stores = [(m_, n) for m_ in wk_funcs if m_.name != "__init__" for n in walk_body(m_) if isinstance(n, ast.Assign) and any(is_self_attr(t, w_src.attr) for t in n.targets)]
        verdicts = [_reads_setting(n.value, m_) for m_, n in stores]
        if not stores or (None in verdicts and False not in verdicts):
            chk.unknown("O9.9", f"Worker.{w_src.attr} (handed to the load generator as the on-error setting): " + ("no store outside the constructor was located" if not stores else
                        f"the stored value `{short(stores[verdicts.index(None)][1], 60)}` could not be followed to the 'on.error' setting"), stores[verdicts.index(None)][1] if stores else Wk.node)
        else:
            chk.ob("O9.9", "worker reads on-error from the driver configuration", all(v_ is True for v_ in verdicts), stores[0][1], f"Worker.{w_src.attr}: {[short(n, 70) for _, n in stores]}")
        # hop 0: what the worker stores, as an expression over the configuration read (the innermost call that names 'on.error'); a read the rule cannot isolate is taken as it is
        if len(stores) == 1 and verdicts == [True]:
            e_s = source.inline_node(stores[0][1].value, _ldefs(stores[0][0]))
            reads = [c for c in ast.walk(e_s) if isinstance(c, ast.Call) and any(source.is_const(x, "on.error") for x in ast.walk(c))
                     and not any(isinstance(d_, ast.Call) and d_ is not c and any(source.is_const(x, "on.error") for x in ast.walk(d_)) for d_ in ast.walk(c))]
            if len(reads) == 1 and reads[0] is not e_s:
                class _Read(ast.NodeTransformer):
                    def visit_Call(self, n):
                        return ast.Name(id="_configured_", ctx=ast.Load()) if n is reads[0] else self.generic_visit(n)
                hops.insert(0, (_Read().visit(e_s), "_configured_", None))

        def _handed(setting):
            v_ = setting
            for e_, name_, attr_ in hops:
                v_ = _ev(e_, {name_: v_} if name_ else {"self": Record(**{attr_: v_})})
            return v_

        try:
            for s_ in ("abort", "continue"):
                _handed(s_)
            handed_ = _handed
            how_ = " -> ".join(short(e_, 50) for e_, _, _ in hops if not (isinstance(e_, ast.Name) or is_self_attr(e_)))
        except (CannotEval, TypeError, ValueError) as e:
            bad_ = next((e_ for e_, _, _ in hops if not (isinstance(e_, ast.Name) or is_self_attr(e_))), w_src)
            chk.unknown("O9.9", f"the value that reaches {eb.name}() for the configured on-error setting could not be evaluated ({e}): `{short(bad_, 60)}`", Wk.node)
        _behaviour_table(handed_, how_)

    # ---- O9.6 no results on error or cancel ----------------------------------------------------------
    chk.rule("O9.6", "in the coordinator every call that computes, stores or prints results (in whichever method; a helper inherits the conditions of its call sites) is reachable only "
             "under cancelled=False and error=False (truth table of the guarding predicates, evaluated on values; the flags are found by role: boolean attributes, False after "
             "construction, that guard the result calls or are raised by race control); the flags are only ever set to True after construction", 5,
             "a failed or cancelled race stores/prints final results")
    coord = rc.cls("BenchmarkCoordinator")
    # by role: EVERY call of the coordinator that computes, stores or prints results (in whichever method; a helper inherits the conditions it is called under) is reachable only
    # while all result-guarding flags (found above: boolean attributes, False after construction, that occur in those conditions) are False. The conditions are evaluated on values.
    rcalls = _result_calls(coord_ci)
    if not rcalls:
        raise AnchorMissing("BenchmarkCoordinator: no call that computes, stores or prints results")
    all_false = {k: False for k in sorted(guard_flags)}
    for m, n in rcalls:
        try:
            allowed = []
            for chain in _guard_chains(coord_ci, m, n):
                allowed += [e_ for e_ in _allowed_flag_envs(chain, guard_flags) if e_ not in allowed]
            ok = allowed == [all_false]
            chk.ob("O9.6", f"{m.name}: {last_attr(n.func)}()", ok, n, f"reachable under {allowed}")
        except UnknownAtom as e:
            chk.unknown("O9.6", f"guard of {short(n, 50)} contains too many foreign atoms ({e})", n)
    coord_attrs = {k for k, v in attr_cls.items() if v is coord_ci}
    for mod in (rc,):
        for n in ast.walk(mod.tree):
            if isinstance(n, ast.Assign):
                for t in n.targets:
                    if isinstance(t, ast.Attribute) and t.attr in guard_flags and ((is_self_attr(t.value) and t.value.attr in coord_attrs) or (is_self_attr(t) and source.enclosing_class(n) is coord)):
                        f = source.enclosing_func(n)
                        if f is not None and f.name == "__init__":
                            continue
                        chk.ob("O9.6", f"{source.qualname(n)}: {u(t)} only set to True", source.is_const(n.value, True), n, short(n, 60))

    # ---- O9.7 success only via completion ----------------------------------------------------------
    chk.rule("O9.7", "Success is constructed only when handling EngineStopped, StopEngine only when handling BenchmarkComplete; nothing reachable from "
             "failure/cancel handlers constructs them or calls a results function; race() raises for BenchmarkFailure and for unexpected replies", 5,
             "a failed race is reported to the user as finished successfully")
    for m in repo.all_modules():
        for n in ast.walk(m.tree):
            if isinstance(n, ast.Call) and last_attr(n.func) in ("Success", "StopEngine"):
                if m.relpath.startswith("esrally/") and source.enclosing_class(n) is not None and source.enclosing_func(n) is not None and isinstance(source.parent(n), (ast.Call, ast.Assign, ast.Return)):
                    f = source.enclosing_func(n)
                    cls = source.enclosing_class(n)
                    want = "receiveMsg_EngineStopped" if last_attr(n.func) == "Success" else "receiveMsg_BenchmarkComplete"
                    if last_attr(n.func) == "Success" and cls.name != "BenchmarkActor":
                        continue  # other classes named Success (none today)
                    # on whose behalf it is constructed: the handler itself, or - for a helper method - every handler that reaches it through self.<helper>() calls
                    while not any(f is m_ for m_ in cls.body) and source.enclosing_func(f) is not None:
                        f = source.enclosing_func(f)
                    origins = sorted(set(_origin_handlers(f, cls)))
                    if not origins:
                        chk.unknown("O9.7", f"{last_attr(n.func)}() is constructed in {cls.name}.{f.name}, which no message handler of the class was found to call", n)
                        continue
                    chk.ob("O9.7", f"{last_attr(n.func)}() constructed in {cls.name}.{f.name}", cls.name == "BenchmarkActor" and origins == [want], n,
                           f"expected only in BenchmarkActor.{want}" + ("" if origins == [f.name] else f"; reached from {origins}"))
    # the plain objects the actors delegate to, found by construction (self.<x> = <Class>(...)); the two known ones by name as a fallback
    extra = {"BenchmarkActor": {"coordinator": model.table.get("BenchmarkCoordinator")}, "DriverActor": {"driver": model.table.get("Driver")}}
    for a in model.actors:
        extra.setdefault(a.name, {}).update(_attr_classes(model, a))
    for a in model.actors:
        for hname in ("receiveMsg_BenchmarkFailure", "receiveMsg_BenchmarkCancelled", "receiveMsg_PoisonMessage"):
            f = model.table.method(a, hname)
            if f is None:
                continue
            bad = []
            for ci, fn in model.method_closure(a, f, extra):
                for n in walk_body(fn):
                    if isinstance(n, ast.Call) and last_attr(n.func) in (RESULT_CALLS | {"Success", "StopEngine", "BenchmarkComplete", "EngineStopped"}):
                        bad.append(f"{ci.name}.{fn.name}:{last_attr(n.func)}")
            chk.ob("O9.7", f"{a.name}.{hname} reaches no success/result construct", not bad, f, f"reaches {bad}" if bad else "")
    # race(): isinstance chain
    g = cfg_of(race_fn)

    def isinst(t):
        """(class name, polarity) of a test `isinstance(x, C)` / `not isinstance(x, C)`, else None."""
        pol = True
        while isinstance(t, ast.UnaryOp) and isinstance(t.op, ast.Not):
            t, pol = t.operand, not pol
        if isinstance(t, ast.Call) and dotted(t.func) == "isinstance" and len(t.args) == 2:
            return last_attr(t.args[1]), pol
        return None

    # the dispatch over the reply sits in race() itself or in a module-level function race() calls (an extracted `_evaluate(result)`): what raises there raises out of race()
    disp_fn, arms = race_fn, {}
    for cand in [race_fn] + [fn_ for c in walk_body(race_fn) if isinstance(c, ast.Call) and isinstance(c.func, ast.Name) for fn_ in [rc.get(c.func.id, required=False)] if isinstance(fn_, source.FUNC_TYPES)]:
        found_ = {}
        for n in walk_body(cand):
            if isinstance(n, ast.If) and isinst(n.test) is not None:
                found_[isinst(n.test)[0]] = n
        if "Success" in found_ and "BenchmarkFailure" in found_:
            disp_fn, arms = cand, found_
            break
    if "Success" not in arms or "BenchmarkFailure" not in arms:
        raise AnchorMissing("race(): isinstance chain over the reply not found")
    g = cfg_of(disp_fn)
    fa = arms["BenchmarkFailure"]
    tn = g.node_of(fa)
    starts = g.edge_targets(tn, "true" if isinst(fa.test)[1] else "false")
    ok = bool(starts) and all(g.exit.id not in g.reachable([s], edge_ok=None) or _only_via_raise(g, s) for s in starts)
    chk.ob("O9.7", "race(): BenchmarkFailure reply raises", ok, fa, "the failure arm raises on every path" if ok else "the failure arm can complete without raising")
    # default arm: evaluate the reply dispatch for a reply that is an instance of none of the tested classes (arm order / polarity do not matter)
    top = [n for n in arms.values() if not any(source.parent(n) is m_ and n in m_.orelse for m_ in arms.values())]
    seq_ = None
    for fld in ("body", "orelse", "finalbody"):
        l_ = getattr(source.parent(top[0]), fld, None) or []
        if all(any(t_ is s_ for s_ in l_) for t_ in top):
            seq_ = l_
    if seq_ is None:
        raise AnchorMissing("race(): the isinstance tests over the reply do not form one dispatch in one statement list")
    top.sort(key=lambda t_: [s_ is t_ for s_ in seq_].index(True))
    try:
        out = _decide(seq_[seq_.index(top[0]):], lambda n, env: (False if isinst(n) is not None and isinst(n)[1] else None), {})
        ok = out.kind == "raise"
        ends = [n for n in arms.values() if not any(x is m_ for x in n.orelse for m_ in arms.values())]  # the test(s) that close the dispatch: location of the obligation
        chk.ob("O9.7", "race(): unexpected reply raises", ok, ends[-1] if ends else top[0], "default arm ends in raise" if ok else f"for a reply of no known class the dispatch ends in `{out.text()}`, not in raise")
    except (_Uns, UnknownAtom) as e:
        chk.unknown("O9.7", f"race(): reply dispatch is not a decision over isinstance tests: {e}", top[0])
    # success log only under Success
    for n in [x for fn_ in ([race_fn] if disp_fn is race_fn else [race_fn, disp_fn]) for x in walk_body(fn_)]:
        if isinstance(n, ast.Call) and is_logging_call(n) and n.args and isinstance(n.args[0], ast.Constant) and "success" in str(n.args[0].value).lower():
            ok = any(isinst(t) == ("Success", True) for t in pat.fact_nodes(n))
            chk.ob("O9.7", "race(): success is logged only for a Success reply", ok, n, short(n, 70))

    # ---- O9.8 advisory: forward first ---------------------------------------------------------------
    for a in model.actors:
        for hname in ("receiveMsg_BenchmarkFailure", "receiveMsg_BenchmarkCancelled", "receiveMsg_PoisonMessage"):
            f = a.methods.get(hname)
            if f is None or _handler_guard(f):
                continue
            sends = source.calls_in(f, attr="send")
            if not sends:
                continue
            first = min(s.lineno for s in sends)
            pre = [n for n in walk_body(f) if isinstance(n, ast.Call) and n.lineno < first and not _log_noise(n)
                   and last_attr(n.func) not in ("str", "isinstance", "BenchmarkFailure", "getattr")]
            if pre:
                chk.adv("O9.8", f"{a.name}.{hname}: may-raise call(s) {[short(p, 40) for p in pre]} precede the forwarding send in an unguarded handler", f)

    chk.stats["actors"] = [a.name for a in model.actors]
    chk.stats["address_attrs"] = {k: sorted(v) for k, v in addr.items()}
    chk.stats["parents"] = {k: sorted(v) for k, v in parents.items()}


def _stmt_raises(s):
    return isinstance(s, ast.Raise)


def _only_via_raise(g, start):
    """True iff the normal exit is not reachable from start at all."""
    return g.exit.id not in g.reachable([start])


# ---------------------------------------------------------------------------------------------------------
# both-ways battery (thorough tier / sa.selftest)
from sa.selftest import V  # noqa: E402

_D = "esrally/driver/driver.py"

# --- text builders for the structural variants of AsyncExecutor.__call__ (hardening round 3): the request loop / its body moved into helper methods. They are used as the
# replacement function of a regex variant (one match: __call__ up to the loop, the loop, the broad handler that follows it).
_X_CALL_RE = (r"(    async def __call__\(self, \*args, \*\*kwargs\):\n        any_task_completes_parent.*?)"
              r"(            async for expected_scheduled_time, sample_type, percent_completed, runner, params in schedule:\n.*?)"
              r"(        except BaseException as e:\n            self\.logger\.exception\(\"Could not execute schedule\"\))")
_X_CANCEL = "                if self.cancel.is_set():\n                    self.logger.info(\"User cancelled execution.\")\n                    break\n"
_X_REQ = ("                with self.es[\"default\"].new_request_context() as request_context:\n"
          "                    total_ops, total_ops_unit, request_meta_data = await execute_single(runner, self.es, params, self.on_error)\n"
          "                    request_start = request_context.request_start\n                    request_end = request_context.request_end\n")
_X_CALLDEF = "    async def __call__(self, *args, **kwargs):\n        any_task_completes_parent"
_X_HELPER_CALL = "                total_ops, total_ops_unit, request_meta_data, request_start, request_end = await self._execute_request(runner, params%s)\n"
_X_HELPER = ("    async def _execute_request(self, runner, params%s):\n        with self.es[\"default\"].new_request_context() as request_context:\n"
             "            total_ops, total_ops_unit, request_meta_data = await execute_single(runner, self.es, params, %s)\n"
             "            request_start = request_context.request_start\n            request_end = request_context.request_end\n"
             "        return total_ops, total_ops_unit, request_meta_data, request_start, request_end\n\n")
_X_CTOR = ("            async_executor = AsyncExecutor(\n                client_id, task, schedule, es, self.sampler, self.cancel, self.complete, task.error_behavior(self.abort_on_error)\n"
           "            )\n")
_X_ADP_CALL = "    def __call__(self, *args, **kwargs):\n        try:\n            loop = asyncio.get_running_loop()"
_X_KH = ("        actor_system.ask(benchmark_actor, actor.BenchmarkCancelled())\n"
         "        raise exceptions.UserInterrupted(\"User has cancelled the benchmark (detected by race control).\") from None\n")


def _x_dedent(txt, k):
    return "".join(line[k:] if line.strip() else line for line in txt.splitlines(True))


def _x_loop_helper(mutate=lambda h: h):
    """the whole request loop moved into `_run_schedule(...)`, awaited inside the try of __call__"""
    def f(m):
        helper = "    async def _run_schedule(self, schedule, schedule_start, total_start, task_completes_parent):\n" + _x_dedent(m.group(2), 4) + "\n"
        return mutate(helper) + m.group(1) + "            await self._run_schedule(schedule, schedule_start, total_start, task_completes_parent)\n" + m.group(3)
    return f


def _x_body_helper(when_cancelled="True", test="self.cancel.is_set()"):
    """the loop body INCLUDING the cancel test moved into `_one_request(...)`, which returns whether the loop has to end"""
    def f(m):
        loop = m.group(2)
        done = "        if completed:\n            self.logger.info(\"Task [%s] is considered completed due to external event.\", self.task)\n"
        at = loop.find("                absolute_expected_schedule_time = schedule_start")
        body = _x_dedent(loop[at:], 8)
        if at < 0 or _X_CANCEL not in loop[:at] or done + "            break\n" not in body:
            raise AnchorMissing("request loop text")
        args = "expected_scheduled_time, sample_type, percent_completed, runner, params, schedule_start, total_start, task_completes_parent"
        helper = (f"    async def _one_request(self, {args}):\n        if {test}:\n            self.logger.info(\"User cancelled execution.\")\n            return {when_cancelled}\n"
                  + body.replace(done + "            break\n", done + "        return completed\n") + "\n")
        return helper + m.group(1) + loop[:at].replace(_X_CANCEL, "") + f"                if await self._one_request({args}):\n                    break\n" + m.group(3)
    return f


def _x_report_helper(body, kind, name, rule=None):
    """benign/C09-b12: DriverActor's three inline failure reports go through one helper method whose body is `body`"""
    return [V(name, kind, _D, "        self.send(self.benchmark_actor, actor.BenchmarkFailure(\"Fatal track or load generator indication\", poisonmsg.details))\n",
              "        self._report_failure(\"Fatal track or load generator indication\", poisonmsg.details)\n", rule),
            V("", kind, _D, "                self.send(self.benchmark_actor, actor.BenchmarkFailure(f\"Worker [{worker_index}] has exited prematurely.\"))\n",
              "                self._report_failure(f\"Worker [{worker_index}] has exited prematurely.\")\n"),
            V("", kind, _D, "            self.send(self.benchmark_actor, actor.BenchmarkFailure(\"A track preparator has exited prematurely.\"))\n",
              "            self._report_failure(\"A track preparator has exited prematurely.\")\n"),
            V("", kind, _D, "    def receiveUnrecognizedMessage(self, msg, sender):\n        self.logger.debug(\"Main driver received unknown",
              "    def _report_failure(self, message, cause=None):\n" + body + "\n    def receiveUnrecognizedMessage(self, msg, sender):\n        self.logger.debug(\"Main driver received unknown")]


_R = "esrally/racecontrol.py"
_M = "esrally/mechanic/mechanic.py"
_A = "esrally/actor.py"
VARIANTS = [
    V("F57 reverted: the driver logs the premature exit of a track preparator", "break", _D, "        elif msg.childAddress in self.children and self.status != \"exiting\":\n", "        elif False:\n", "O9.3w"),
    V("F57 reverted: the track preparator reports the death of a worker only when it is exiting", "break", _D, "    def receiveMsg_ChildActorExited(self, msg, sender):\n        if self.exiting:\n", "    def receiveMsg_ChildActorExited(self, msg, sender):\n        if not self.exiting:\n", "O9.3w"),
    V("F57 respelled: preparator branch tested first, status compared the other way round", "keep", _D, "        elif msg.childAddress in self.children and self.status != \"exiting\":\n", "        elif \"exiting\" != self.status and msg.childAddress in self.children:\n", "O9.3w"),
    V("F57 respelled: guard clause in the track preparator", "keep", _D, "        if self.exiting:\n            self.logger.debug(\"A track preparation worker has exited.\")\n        else:\n            self.logger.error(\"A track preparation worker has exited prematurely. Aborting benchmark.\")\n            self.send(self.driver_actor, actor.BenchmarkFailure(\"A track preparation worker has exited prematurely.\"))\n",
      "        if self.exiting:\n            self.logger.debug(\"A track preparation worker has exited.\")\n            return\n        self.logger.error(\"A track preparation worker has exited prematurely. Aborting benchmark.\")\n        self.send(self.driver_actor, actor.BenchmarkFailure(\"A track preparation worker has exited prematurely.\"))\n", "O9.3w"),
    V("F58 reverted: the node mechanic forwards a failure to reply_to / sender whoever that is", "break", _M, "        return getattr(msg, \"reply_to\", None) or self.reply_to or sender\n", "        return getattr(msg, \"reply_to\", sender)\n", "O9.3"),
    V("F58: the sender is preferred to whoever started the node mechanic", "break", _M, "        return getattr(msg, \"reply_to\", None) or self.reply_to or sender\n", "        return getattr(msg, \"reply_to\", None) or sender or self.reply_to\n", "O9.3"),
    V("F58 respelled: if statements instead of the or-chain", "keep", _M, "        return getattr(msg, \"reply_to\", None) or self.reply_to or sender\n",
      "        target = getattr(msg, \"reply_to\", None)\n        if target:\n            return target\n        if self.reply_to:\n            return self.reply_to\n        return sender\n", "O9.3"),
    V("F58 respelled: own address recognised explicitly", "keep", _M, "        return getattr(msg, \"reply_to\", None) or self.reply_to or sender\n",
      "        target = getattr(msg, \"reply_to\", sender)\n        return self.reply_to if target == self.myAddress and self.reply_to else target\n", "O9.3"),
    V("F58 respelled: failures always go to whoever started the node mechanic", "keep", _M, "        self.send(self._failure_target(msg, sender), msg)\n", "        self.send(self.reply_to, msg)\n", "O9.3"),
    V("no_retry catches Exception only", "break", _A, "        except BaseException:\n            # log here", "        except Exception:\n            # log here", "O9.1"),
    V("no_retry logs but does not send", "break", _A, "            self.send(sender, BenchmarkFailure(traceback.format_exc()))", "            pass", "O9.1"),
    V("drop no_retry on UpdateSamples", "break", _D, '    @actor.no_retry("driver")  # pylint: disable=no-value-for-parameter\n    def receiveMsg_UpdateSamples', "    def receiveMsg_UpdateSamples", "O9.2"),
    V("drop no_retry on Worker.Drive", "break", _D, '    @actor.no_retry("worker")  # pylint: disable=no-value-for-parameter\n    def receiveMsg_Drive', "    def receiveMsg_Drive", "O9.2"),
    V("F3 shape: call the address", "break", _M, "    def receiveMsg_BenchmarkFailure(self, msg, sender):\n        self.send(self.race_control, msg)", "    def receiveMsg_BenchmarkFailure(self, msg, sender):\n        self.race_control(msg)", "O9."),
    V("worker failure handler only logs", "break", _D, "        # sent by our no_retry infrastructure; forward to master\n        self.send(self.driver_actor, msg)", "        self.logger.error('failure: %s', msg)", "O9.3"),
    V("driver forwards failure only when driver exists", "break", _D, '        self.logger.error("Main driver received a fatal exception from a load generator. Shutting down.")\n        self.driver.close()\n        self.send(self.benchmark_actor, msg)',
      '        self.logger.error("Main driver received a fatal exception from a load generator. Shutting down.")\n        self.driver.close()\n        if self.status == "init":\n            self.send(self.benchmark_actor, msg)', "O9.3"),
    V("error flag set after the send", "break", _R, "        self.coordinator.error = True\n        self.send(self.start_sender, msg)\n\n    @actor.no_retry(\"race control\")  # pylint: disable=no-value-for-parameter\n    def receiveMsg_BenchmarkComplete",
      "        self.send(self.start_sender, msg)\n        self.coordinator.error = True\n\n    @actor.no_retry(\"race control\")  # pylint: disable=no-value-for-parameter\n    def receiveMsg_BenchmarkComplete", "O9.3"),
    V("failure constructed but not sent (worker exited)", "break", _D, '                self.send(self.benchmark_actor, actor.BenchmarkFailure(f"Worker [{worker_index}] has exited prematurely."))',
      '                failure = actor.BenchmarkFailure(f"Worker [{worker_index}] has exited prematurely.")\n                self.logger.error("%s", failure)', "O9.4"),
    V("worker does not report executor exception", "break", _D, '                    self.send(self.driver_actor, actor.BenchmarkFailure(f"Error in load generator [{self.worker_id}]", str(e)))', "                    self.executor_future = None", "O9.5"),
    V("executor broad handler swallows", "break", _D, '            raise exceptions.RallyError(f"Cannot run task [{self.task}]: {e}") from None', '            self.logger.error("Cannot run task [%s]: %s", self.task, e)', "O9.5"),
    V("results guard uses or", "break", _R, "        if not self.cancelled and not self.error:", "        if not self.cancelled or not self.error:", "O9.6"),
    V("store_results moved out of the guard", "break", _R, "        self.metrics_store.close()\n\n\ndef race(", "        metrics.results_store(self.cfg).store_results(self.race)\n        self.metrics_store.close()\n\n\ndef race(", "O9.6"),
    V("error flag reset on task finished", "break", _R, "        self.coordinator.on_task_finished(msg.metrics)", "        self.coordinator.on_task_finished(msg.metrics)\n        self.coordinator.error = False", "O9.6"),
    V("failure handler reports Success", "break", _R, "        self.coordinator.cancelled = True\n", "        self.coordinator.cancelled = True\n        self.send(self.start_sender, Success())\n", "O9.7"),
    V("race() default arm logs", "break", _R, '            raise exceptions.RallyError("Got an unexpected result during benchmarking: [%s]." % str(result))', '            logger.error("Got an unexpected result during benchmarking: [%s].", str(result))', "O9.7"),
    V("race() failure arm logs only", "break", _R, "            raise exceptions.RallyError(result.message, result.cause)", "            pass", "O9.7"),
    V("task executor poison without handler: createActor in class lacking PoisonMessage", "break", _D, "    def receiveMsg_PoisonMessage(self, poisonmsg, sender):\n        self.logger.error(\"Track Preparator received",
      "    def on_poison(self, poisonmsg, sender):\n        self.logger.error(\"Track Preparator received", "O9.3p"),
    V("cancel not reported by the worker", "break", _D, "                self.send(self.driver_actor, actor.BenchmarkCancelled())", "                self.logger.info('cancelled')", "O9."),
    V("on-error=abort ignored for every task", "break", "esrally/track/track.py", "            if self.ignore_response_error_level != \"non-fatal\":\n                behavior = \"abort\"", "            if self.ignore_response_error_level == \"non-fatal\":\n                behavior = \"abort\"", "O9.9"),
    V("KeyboardInterrupt does not notify race control", "break", _R, "        actor_system.ask(benchmark_actor, actor.BenchmarkCancelled())\n", "", "O9.9"),
    # behaviour-preserving
    V("guard via explicit try/except instead of decorator", "keep", _D,
      '    @actor.no_retry("driver")  # pylint: disable=no-value-for-parameter\n    def receiveMsg_UpdateSamples(self, msg, sender):\n        self.driver.update_samples(msg.samples)',
      "    def receiveMsg_UpdateSamples(self, msg, sender):\n        try:\n            self.driver.update_samples(msg.samples)\n        except BaseException:\n            self.send(sender, actor.BenchmarkFailure('Error in driver'))"),
    V("De Morgan rewrite of the results guard", "keep", _R, "        if not self.cancelled and not self.error:", "        if not (self.cancelled or self.error):"),
    V("inverted results guard", "keep", _R,
      "        if not self.cancelled and not self.error:\n            final_results = metrics.calculate_results(self.metrics_store, self.race)\n            self.race.add_results(final_results)\n            self.race_store.store_race(self.race)\n            metrics.results_store(self.cfg).store_results(self.race)\n            reporter.summarize(final_results, self.cfg)\n        else:\n            self.logger.info(\"Suppressing output of summary report. Cancelled = [%r], Error = [%r].\", self.cancelled, self.error)",
      "        if self.cancelled or self.error:\n            self.logger.info(\"Suppressing output of summary report. Cancelled = [%r], Error = [%r].\", self.cancelled, self.error)\n        else:\n            final_results = metrics.calculate_results(self.metrics_store, self.race)\n            self.race.add_results(final_results)\n            self.race_store.store_race(self.race)\n            metrics.results_store(self.cfg).store_results(self.race)\n            reporter.summarize(final_results, self.cfg)"),
    V("rename worker parent attribute consistently", "keep", _D, "self.task_preparation_actor", "self.parent_actor", count=9),
    V("extra logging before forward", "keep", _M, "    def receiveMsg_BenchmarkFailure(self, msg, sender):\n        self.send(self.race_control, msg)", "    def receiveMsg_BenchmarkFailure(self, msg, sender):\n        self.logger.error('forwarding failure')\n        self.send(self.race_control, msg)"),
    # role / polarity robustness (hardening pass): the same decision written another way stays silent, the opposite decision is still reported
    V("tabled wake-up handler: single-armed != test", "keep", _M, "        if msg.payload == MechanicActor.WAKEUP_RESET_RELATIVE_TIME:\n            self.reset_relative_time()\n        else:\n            raise exceptions.RallyAssertionError(f\"Unknown wakeup reason [{msg.payload}]\")",
      "        if MechanicActor.WAKEUP_RESET_RELATIVE_TIME != msg.payload:\n            raise exceptions.RallyAssertionError(f\"Unknown wakeup reason [{msg.payload}]\")\n        self.reset_relative_time()"),
    V("tabled wake-up handler: raise in the else of an unrelated test", "break", _M, "        if msg.payload == MechanicActor.WAKEUP_RESET_RELATIVE_TIME:\n            self.reset_relative_time()\n        else:\n            raise exceptions.RallyAssertionError(f\"Unknown wakeup reason [{msg.payload}]\")",
      "        if msg.payload == MechanicActor.WAKEUP_RESET_RELATIVE_TIME:\n            self.reset_relative_time()\n        if self.cfg:\n            pass\n        else:\n            raise exceptions.RallyAssertionError(f\"Unknown wakeup reason [{msg.payload}]\")", "O9.2"),
    V("worker sends the failure when the future has NO exception", "break", _D, "                if e:\n                    self.logger.exception(\n                        \"Worker[%s] has detected a benchmark failure. Notifying master...\"",
      "                if e is None:\n                    self.logger.exception(\n                        \"Worker[%s] has detected a benchmark failure. Notifying master...\"", "O9.5"),
    V("race(): failure arm before the cancelled arm", "keep", _R, "        elif isinstance(result, actor.BenchmarkCancelled):\n            logger.info(\"User has cancelled the benchmark (detected by actor).\")\n        elif isinstance(result, actor.BenchmarkFailure):\n            logger.error(\"A benchmark failure has occurred\")\n            raise exceptions.RallyError(result.message, result.cause)\n",
      "        elif isinstance(result, actor.BenchmarkFailure):\n            logger.error(\"A benchmark failure has occurred\")\n            raise exceptions.RallyError(result.message, result.cause)\n        elif isinstance(result, actor.BenchmarkCancelled):\n            logger.info(\"User has cancelled the benchmark (detected by actor).\")\n"),
    V("race(): cancel told to a local that is not an actor address", "break", _R, "    try:\n        result = actor_system.ask(benchmark_actor, Setup(", "    benchmark_actor = cfg\n    try:\n        result = actor_system.ask(benchmark_actor, Setup(", "O9.4"),
    V("executor's on_error passed by keyword", "keep", _D, "self.cancel, self.complete, task.error_behavior(self.abort_on_error)\n", "self.cancel, self.complete, on_error=task.error_behavior(self.abort_on_error)\n"),
    V("executor's on_error taken from another object than its task", "break", _D, "self.cancel, self.complete, task.error_behavior(self.abort_on_error)\n", "self.cancel, self.complete, task_allocation.error_behavior(self.abort_on_error)\n", "O9.9"),
    V("error_behavior: one merged, flipped condition", "keep", "esrally/track/track.py", "        if default_error_behavior == \"abort\":\n            if self.ignore_response_error_level != \"non-fatal\":\n                behavior = \"abort\"",
      "        if \"non-fatal\" != self.ignore_response_error_level and \"abort\" == default_error_behavior:\n            behavior = \"abort\""),
    V("error_behavior: merged condition with or", "break", "esrally/track/track.py", "        if default_error_behavior == \"abort\":\n            if self.ignore_response_error_level != \"non-fatal\":\n                behavior = \"abort\"",
      "        if \"non-fatal\" != self.ignore_response_error_level or \"abort\" == default_error_behavior:\n            behavior = \"abort\"", "O9.9"),
    V("request loop: logging first, break in the else arm of the negated test", "keep", _D, "                if self.cancel.is_set():\n                    self.logger.info(\"User cancelled execution.\")\n                    break",
      "                self.logger.debug('next')\n                if not self.cancel.is_set():\n                    pass\n                else:\n                    self.logger.info(\"User cancelled execution.\")\n                    break"),
    V("request loop breaks when NOT cancelled", "break", _D, "                if self.cancel.is_set():\n                    self.logger.info(\"User cancelled execution.\")\n                    break",
      "                if not self.cancel.is_set():\n                    self.logger.info(\"User cancelled execution.\")\n                    break", "O9.9"),
    V("exit request: De Morgan, cancel set in the else arm", "keep", _D, "        if self.executor_future is not None and self.executor_future.running():\n            self.cancel.set()",
      "        if self.executor_future is None or not self.executor_future.running():\n            pass\n        else:\n            self.cancel.set()"),
    V("exit request sets the cancel event only when the executor does NOT run", "break", _D, "        if self.executor_future is not None and self.executor_future.running():\n            self.cancel.set()",
      "        if self.executor_future is not None and not self.executor_future.running():\n            self.cancel.set()", "O9.9"),
    V("metrics store close logs through logging.getLogger first", "keep", "esrally/metrics.py", "        self.logger.info(\"Closing metrics store.\")\n        self.opened = False", "        logging.getLogger(__name__).info(\"Closing metrics store.\")\n        self.opened = False"),
    V("metrics store close: fallible call inside the logging arguments before the flag is cleared", "break", "esrally/metrics.py", "        self.logger.info(\"Closing metrics store.\")\n        self.opened = False",
      "        self.logger.info(\"Closing metrics store %s.\", self.flush())\n        self.opened = False", "O9.3"),
    V("worker wake-up: `if e is None: ...; return` first, failure report after it", "keep", _D,
      "                if e:\n                    self.logger.exception(\n                        \"Worker[%s] has detected a benchmark failure. Notifying master...\", str(self.worker_id), exc_info=e\n                    )\n"
      "                    # the exception might be user-defined and not be on the load path of the master driver. Hence, it cannot be\n                    # deserialized on the receiver so we convert it here to a plain string.\n"
      "                    self.send(self.driver_actor, actor.BenchmarkFailure(f\"Error in load generator [{self.worker_id}]\", str(e)))\n                else:\n"
      "                    self.logger.debug(\"Worker[%s] is ready for the next task.\", str(self.worker_id))\n                    self.executor_future = None\n                    self.drive()\n",
      "                if e is None:\n                    self.logger.debug(\"Worker[%s] is ready for the next task.\", str(self.worker_id))\n                    self.executor_future = None\n                    self.drive()\n                    return\n"
      "                self.logger.exception(\"Worker[%s] has detected a benchmark failure. Notifying master...\", str(self.worker_id), exc_info=e)\n"
      "                self.send(self.driver_actor, actor.BenchmarkFailure(f\"Error in load generator [{self.worker_id}]\", str(e)))\n"),
    # ---- hardening round 2: refactored shapes (extracted helpers, locals, hoisted bindings, renames) stay silent; the defect placed INSIDE the refactored shape is still reported
    [V("schedule generator: one try around the finite loop instead of a try inside it", "keep", _D, "            while not self.task_progress_control.completed:\n                try:\n", "            try:\n                while not self.task_progress_control.completed:\n"),
     V("", "keep", _D, "                    self.task_progress_control.next()\n                except StopIteration:\n                    return\n\n\nclass TimePeriodBased:", "                    self.task_progress_control.next()\n            except StopIteration:\n                return\n\n\nclass TimePeriodBased:")],
    [V("schedule generator: the try around the loop swallows every exception", "break", _D, "            while not self.task_progress_control.completed:\n                try:\n", "            try:\n                while not self.task_progress_control.completed:\n", "O9.5c"),
     V("", "break", _D, "                    self.task_progress_control.next()\n                except StopIteration:\n                    return\n\n\nclass TimePeriodBased:", "                    self.task_progress_control.next()\n            except Exception:\n                return\n\n\nclass TimePeriodBased:")],
    V("request loop: the event's is_set hoisted into a local before the loop", "keep", _D, "            async for expected_scheduled_time, sample_type, percent_completed, runner, params in schedule:\n                if self.cancel.is_set():\n",
      "            cancelled = self.cancel.is_set\n            async for expected_scheduled_time, sample_type, percent_completed, runner, params in schedule:\n                if cancelled():\n"),
    V("request loop: the hoisted test reads the OTHER event (complete)", "break", _D, "            async for expected_scheduled_time, sample_type, percent_completed, runner, params in schedule:\n                if self.cancel.is_set():\n",
      "            cancelled = self.complete.is_set\n            async for expected_scheduled_time, sample_type, percent_completed, runner, params in schedule:\n                if cancelled():\n", "O9.9"),
    V("request loop: a plain binding precedes the cancel test", "keep", _D, "                if self.cancel.is_set():\n                    self.logger.info(\"User cancelled execution.\")\n                    break\n                absolute_expected_schedule_time = schedule_start + expected_scheduled_time\n",
      "                absolute_expected_schedule_time = schedule_start + expected_scheduled_time\n                if self.cancel.is_set():\n                    self.logger.info(\"User cancelled execution.\")\n                    break\n"),
    [V("executor's cancel attribute renamed (constructor parameter keeps its name)", "keep", _D, "        self.cancel = cancel\n        self.complete = complete\n        self.on_error = on_error\n", "        self.cancel_event = cancel\n        self.complete = complete\n        self.on_error = on_error\n"),
     V("", "keep", _D, "                if self.cancel.is_set():\n                    self.logger.info(\"User cancelled execution.\")", "                if self.cancel_event.is_set():\n                    self.logger.info(\"User cancelled execution.\")")],
    [V("executor's attributes renamed and the loop tests the wrong one", "break", _D, "        self.cancel = cancel\n        self.complete = complete\n        self.on_error = on_error\n", "        self.cancel_event = cancel\n        self.complete_event = complete\n        self.on_error = on_error\n", "O9.9"),
     V("", "break", _D, "                if self.cancel.is_set():\n                    self.logger.info(\"User cancelled execution.\")", "                if self.complete_event.is_set():\n                    self.logger.info(\"User cancelled execution.\")"),
     V("", "break", _D, "completed = self.complete.is_set() or runner.completed", "completed = self.complete_event.is_set() or runner.completed")],
    V("node mechanic: reply address computed once before the whole-body try", "keep", _M, "    def receiveMsg_StartNodes(self, msg, sender):\n        try:\n            self.host = msg.ip\n            self.reply_to = getattr(msg, \"reply_to\", sender)\n",
      "    def receiveMsg_StartNodes(self, msg, sender):\n        reply_to = getattr(msg, \"reply_to\", sender)\n        try:\n            self.host = msg.ip\n            self.reply_to = reply_to\n"),
    V("node mechanic: fallible work moved in front of the whole-body try", "break", _M, "    def receiveMsg_StartNodes(self, msg, sender):\n        try:\n            self.host = msg.ip\n",
      "    def receiveMsg_StartNodes(self, msg, sender):\n        root = paths.rally_root()\n        try:\n            self.host = msg.ip\n", "O9.2"),
    [V("node mechanic: start failure sent to a local that may be None", "break", _M, "    def receiveMsg_StartNodes(self, msg, sender):\n        try:\n            self.host = msg.ip\n",
       "    def receiveMsg_StartNodes(self, msg, sender):\n        requester = getattr(msg, \"reply_to\", None)\n        try:\n            self.host = msg.ip\n", "O9.4"),
     V("", "break", _M, "            self.send(getattr(msg, \"reply_to\", sender), actor.BenchmarkFailure(ex_value, traceback.format_exc()))", "            self.send(requester, actor.BenchmarkFailure(ex_value, traceback.format_exc()))")],
    V("worker forwards failures through a helper method", "keep", _D, "        # sent by our no_retry infrastructure; forward to master\n        self.send(self.driver_actor, msg)",
      "        self._escalate(msg)\n\n    def _escalate(self, failure):\n        self.send(self.driver_actor, failure)"),
    V("worker's forwarding helper forwards on one path only", "break", _D, "        # sent by our no_retry infrastructure; forward to master\n        self.send(self.driver_actor, msg)",
      "        self._escalate(msg)\n\n    def _escalate(self, failure):\n        if self.executor_future is not None:\n            self.send(self.driver_actor, failure)", "O9.3"),
    V("forwarding helper takes the target as a parameter", "keep", _D, "        # sent by our no_retry infrastructure; forward to master\n        self.send(self.driver_actor, msg)",
      "        self._pass_on(self.driver_actor, msg)\n\n    def _pass_on(self, target, failure):\n        self.send(target, failure)"),
    V("result-guarding flag renamed consistently (error -> failed)", "keep", _R, r"(self|coordinator)\.error\b", r"\1.failed", count=5, regex=True),
    V("flag renamed in the coordinator only: race control keeps setting the old attribute", "break", _R, r"self\.error\b", "self.failed", "O9.3", count=3, regex=True),
    [V("results published by a helper method called under the guard", "keep", _R,
       "            final_results = metrics.calculate_results(self.metrics_store, self.race)\n            self.race.add_results(final_results)\n            self.race_store.store_race(self.race)\n            metrics.results_store(self.cfg).store_results(self.race)\n            reporter.summarize(final_results, self.cfg)\n        else:",
       "            self._publish_results()\n        else:"),
     V("", "keep", _R, "        self.metrics_store.close()\n\n\ndef race(", "        self.metrics_store.close()\n\n    def _publish_results(self):\n        final_results = metrics.calculate_results(self.metrics_store, self.race)\n        self.race.add_results(final_results)\n"
       "        self.race_store.store_race(self.race)\n        metrics.results_store(self.cfg).store_results(self.race)\n        reporter.summarize(final_results, self.cfg)\n\n\ndef race(")],
    [V("the publishing helper is called before the guard is looked at", "break", _R,
       "            final_results = metrics.calculate_results(self.metrics_store, self.race)\n            self.race.add_results(final_results)\n            self.race_store.store_race(self.race)\n            metrics.results_store(self.cfg).store_results(self.race)\n            reporter.summarize(final_results, self.cfg)\n        else:",
       "            self.logger.info(\"Results published.\")\n        else:", "O9.6"),
     V("", "break", _R, "        self.metrics_store.flush()\n        if not self.cancelled and not self.error:", "        self.metrics_store.flush()\n        self._publish_results()\n        if not self.cancelled and not self.error:"),
     V("", "break", _R, "        self.metrics_store.close()\n\n\ndef race(", "        self.metrics_store.close()\n\n    def _publish_results(self):\n        final_results = metrics.calculate_results(self.metrics_store, self.race)\n        self.race.add_results(final_results)\n"
       "        self.race_store.store_race(self.race)\n        metrics.results_store(self.cfg).store_results(self.race)\n        reporter.summarize(final_results, self.cfg)\n\n\ndef race(")],
    V("results guard spelled with identity tests", "keep", _R, "        if not self.cancelled and not self.error:", "        if self.cancelled is False and self.error is False:"),
    V("results guard tests only one flag by identity", "break", _R, "        if not self.cancelled and not self.error:", "        if self.cancelled is False and self.error is not None:", "O9.6"),
    V("task executor polls the future through a local alias", "keep", _D, "            e = self.executor_future.exception(timeout=0)\n            if e:\n                self.logger.exception(\"Worker failed.",
      "            future = self.executor_future\n            e = future.exception(timeout=0)\n            if e:\n                self.logger.exception(\"Worker failed."),
    V("task executor reports the failure through a helper method", "keep", _D, "                self.send(self.task_preparation_actor, actor.BenchmarkFailure(\"Error in task executor\", str(e)))\n            else:\n                self.executor_future = None\n                self.send(self.task_preparation_actor, ReadyForWork())\n        else:\n            self.wakeupAfter(datetime.timedelta(seconds=self.wakeup_interval))\n",
      "                self._report(e)\n            else:\n                self.executor_future = None\n                self.send(self.task_preparation_actor, ReadyForWork())\n        else:\n            self.wakeupAfter(datetime.timedelta(seconds=self.wakeup_interval))\n\n    def _report(self, e):\n        self.send(self.task_preparation_actor, actor.BenchmarkFailure(\"Error in task executor\", str(e)))\n"),
    V("task executor's reporting helper sends on one path only", "break", _D, "                self.send(self.task_preparation_actor, actor.BenchmarkFailure(\"Error in task executor\", str(e)))\n            else:\n                self.executor_future = None\n                self.send(self.task_preparation_actor, ReadyForWork())\n        else:\n            self.wakeupAfter(datetime.timedelta(seconds=self.wakeup_interval))\n",
      "                self._report(e)\n            else:\n                self.executor_future = None\n                self.send(self.task_preparation_actor, ReadyForWork())\n        else:\n            self.wakeupAfter(datetime.timedelta(seconds=self.wakeup_interval))\n\n    def _report(self, e):\n        if self.track_name:\n            self.send(self.task_preparation_actor, actor.BenchmarkFailure(\"Error in task executor\", str(e)))\n", "O9.5"),
    V("track preparator reports a dead worker through a helper method", "keep", _D, "            self.send(self.driver_actor, actor.BenchmarkFailure(\"A track preparation worker has exited prematurely.\"))\n",
      "            self._fail(\"A track preparation worker has exited prematurely.\")\n\n    def _fail(self, text):\n        self.send(self.driver_actor, actor.BenchmarkFailure(text))\n"),
    [V("track preparator: helper shape, reported only when it IS exiting", "break", _D, "            self.send(self.driver_actor, actor.BenchmarkFailure(\"A track preparation worker has exited prematurely.\"))\n",
       "            self._fail(\"A track preparation worker has exited prematurely.\")\n\n    def _fail(self, text):\n        self.send(self.driver_actor, actor.BenchmarkFailure(text))\n", "O9.3w"),
     V("", "break", _D, "    def receiveMsg_ChildActorExited(self, msg, sender):\n        if self.exiting:\n", "    def receiveMsg_ChildActorExited(self, msg, sender):\n        if not self.exiting:\n")],
    [V("the driver actor's completion announcement renamed", "keep", _D, "    def on_benchmark_complete(self, metrics):\n        self.send(self.benchmark_actor, BenchmarkComplete(metrics))", "    def announce_completion(self, metrics):\n        self.send(self.benchmark_actor, BenchmarkComplete(metrics))"),
     V("", "keep", _D, "                self.driver_actor.on_benchmark_complete(m)\n", "                self.driver_actor.announce_completion(m)\n")],
    [V("renamed announcement followed by fallible work", "break", _D, "    def on_benchmark_complete(self, metrics):\n        self.send(self.benchmark_actor, BenchmarkComplete(metrics))", "    def announce_completion(self, metrics):\n        self.send(self.benchmark_actor, BenchmarkComplete(metrics))", "O9.6b"),
     V("", "break", _D, "                self.driver_actor.on_benchmark_complete(m)\n", "                self.driver_actor.announce_completion(m)\n                self.telemetry.on_benchmark_stop()\n")],
    V("exit request built into a local first", "keep", _R, "        self.send(self.main_driver, thespian.actors.ActorExitRequest())\n", "        exit_request = thespian.actors.ActorExitRequest()\n        self.send(self.main_driver, exit_request)\n"),
    V("exit request (via a local) sent BEFORE the results are computed", "break", _R, "        self.coordinator.on_benchmark_complete(msg.metrics)\n        self.send(self.main_driver, thespian.actors.ActorExitRequest())\n",
      "        exit_request = thespian.actors.ActorExitRequest()\n        self.send(self.main_driver, exit_request)\n        self.coordinator.on_benchmark_complete(msg.metrics)\n", "O9.2x"),
    V("failure message bound to a local before it is sent", "keep", _D, "                self.send(self.benchmark_actor, actor.BenchmarkFailure(f\"Worker [{worker_index}] has exited prematurely.\"))",
      "                failure = actor.BenchmarkFailure(f\"Worker [{worker_index}] has exited prematurely.\")\n                self.send(self.benchmark_actor, failure)"),
    V("Success reported through a helper method of race control", "keep", _R, "        self.logger.info(\"Mechanic has stopped engine successfully.\")\n        self.send(self.start_sender, Success())\n",
      "        self.logger.info(\"Mechanic has stopped engine successfully.\")\n        self._report_success()\n\n    def _report_success(self):\n        self.send(self.start_sender, Success())\n"),
    [V("the Success helper is also called when the benchmark was cancelled", "break", _R, "        self.logger.info(\"Mechanic has stopped engine successfully.\")\n        self.send(self.start_sender, Success())\n",
       "        self.logger.info(\"Mechanic has stopped engine successfully.\")\n        self._report_success()\n\n    def _report_success(self):\n        self.send(self.start_sender, Success())\n", "O9.7"),
     V("", "break", _R, "        self.coordinator.cancelled = True\n", "        self.coordinator.cancelled = True\n        self._report_success()\n")],
    V("Ctrl+C: the cancellation message bound to a local", "keep", _R, "        actor_system.ask(benchmark_actor, actor.BenchmarkCancelled())\n", "        cancelled = actor.BenchmarkCancelled()\n        actor_system.ask(benchmark_actor, cancelled)\n"),
    V("Ctrl+C: race control is told without waiting for the answer", "break", _R, "        actor_system.ask(benchmark_actor, actor.BenchmarkCancelled())\n", "        actor_system.tell(benchmark_actor, actor.BenchmarkCancelled())\n", "O9.9"),
    [V("the store's open mark renamed consistently", "keep", "esrally/metrics.py", r"self\.opened\b", "self.is_open", count=3, regex=True),
     V("", "keep", _D, "self.metrics_store.opened", "self.metrics_store.is_open")],
    V("the driver tests a mark the store never clears", "break", _D, "        if self.metrics_store and self.metrics_store.opened:", "        if self.metrics_store and self.metrics_store.meta_info:", "O9.3"),
    [V("worker's exit request sets the event in a helper method", "keep", _D, "        if self.executor_future is not None and self.executor_future.running():\n            self.cancel.set()\n",
       "        if self.executor_future is not None and self.executor_future.running():\n            self._cancel_executor()\n"),
     V("", "keep", _D, "        self.logger.debug(\"Worker[%s] is exiting due to ActorExitRequest.\", str(self.worker_id))\n", "        self.logger.debug(\"Worker[%s] is exiting due to ActorExitRequest.\", str(self.worker_id))\n\n    def _cancel_executor(self):\n        self.cancel.set()\n")],
    [V("helper shape: the event is set only when the executor does NOT run", "break", _D, "        if self.executor_future is not None and self.executor_future.running():\n            self.cancel.set()\n",
       "        if self.executor_future is not None and not self.executor_future.running():\n            self._cancel_executor()\n", "O9.9"),
     V("", "break", _D, "        self.logger.debug(\"Worker[%s] is exiting due to ActorExitRequest.\", str(self.worker_id))\n", "        self.logger.debug(\"Worker[%s] is exiting due to ActorExitRequest.\", str(self.worker_id))\n\n    def _cancel_executor(self):\n        self.cancel.set()\n")],
    V("metrics store close takes a time stamp before it clears the open mark", "keep", "esrally/metrics.py", "        self.logger.info(\"Closing metrics store.\")\n        self.opened = False", "        self.logger.info(\"Closing metrics store.\")\n        self._closed_at = time.time()\n        self.opened = False"),
    V("new log-only handler of a package message without a guard", "keep", _D, "    def receiveMsg_BenchmarkFailure(self, msg, sender):\n        # sent by our no_retry infrastructure; forward to master\n        self.send(self.driver_actor, msg)",
      "    def receiveMsg_ReadyForWork(self, msg, sender):\n        self.logger.debug(\"Worker[%s] ignores ReadyForWork.\", str(self.worker_id))\n\n    def receiveMsg_BenchmarkFailure(self, msg, sender):\n        # sent by our no_retry infrastructure; forward to master\n        self.send(self.driver_actor, msg)"),
    V("new handler of a package message does fallible work without a guard", "break", _D, "    def receiveMsg_BenchmarkFailure(self, msg, sender):\n        # sent by our no_retry infrastructure; forward to master\n        self.send(self.driver_actor, msg)",
      "    def receiveMsg_ReadyForWork(self, msg, sender):\n        self.logger.debug(\"Worker[%s] got ReadyForWork.\", str(self.worker_id))\n        self.drive()\n\n    def receiveMsg_BenchmarkFailure(self, msg, sender):\n        # sent by our no_retry infrastructure; forward to master\n        self.send(self.driver_actor, msg)", "O9.2"),
    [V("race(): the reply dispatch extracted into a module-level function", "keep", _R, "        if isinstance(result, Success):\n            logger.info(\"Benchmark has finished successfully.\")\n        # may happen if one of the load generators has detected that the user has cancelled the benchmark.\n        elif isinstance(result, actor.BenchmarkCancelled):\n            logger.info(\"User has cancelled the benchmark (detected by actor).\")\n        elif isinstance(result, actor.BenchmarkFailure):\n            logger.error(\"A benchmark failure has occurred\")\n            raise exceptions.RallyError(result.message, result.cause)\n        else:\n            raise exceptions.RallyError(\"Got an unexpected result during benchmarking: [%s].\" % str(result))\n",
       "        _evaluate(result, logger)\n"),
     V("", "keep", _R, "def race(cfg: types.Config", "def _evaluate(result, logger):\n    if isinstance(result, Success):\n        logger.info(\"Benchmark has finished successfully.\")\n    elif isinstance(result, actor.BenchmarkCancelled):\n        logger.info(\"User has cancelled the benchmark (detected by actor).\")\n    elif isinstance(result, actor.BenchmarkFailure):\n        logger.error(\"A benchmark failure has occurred\")\n        raise exceptions.RallyError(result.message, result.cause)\n    else:\n        raise exceptions.RallyError(\"Got an unexpected result during benchmarking: [%s].\" % str(result))\n\n\ndef race(cfg: types.Config")],
    [V("extracted reply dispatch only logs a failure", "break", _R, "        if isinstance(result, Success):\n            logger.info(\"Benchmark has finished successfully.\")\n        # may happen if one of the load generators has detected that the user has cancelled the benchmark.\n        elif isinstance(result, actor.BenchmarkCancelled):\n            logger.info(\"User has cancelled the benchmark (detected by actor).\")\n        elif isinstance(result, actor.BenchmarkFailure):\n            logger.error(\"A benchmark failure has occurred\")\n            raise exceptions.RallyError(result.message, result.cause)\n        else:\n            raise exceptions.RallyError(\"Got an unexpected result during benchmarking: [%s].\" % str(result))\n",
       "        _evaluate(result, logger)\n", "O9.7"),
     V("", "break", _R, "def race(cfg: types.Config", "def _evaluate(result, logger):\n    if isinstance(result, Success):\n        logger.info(\"Benchmark has finished successfully.\")\n    elif isinstance(result, actor.BenchmarkCancelled):\n        logger.info(\"User has cancelled the benchmark (detected by actor).\")\n    elif isinstance(result, actor.BenchmarkFailure):\n        logger.error(\"A benchmark failure has occurred\")\n    else:\n        raise exceptions.RallyError(\"Got an unexpected result during benchmarking: [%s].\" % str(result))\n\n\ndef race(cfg: types.Config")],
    [V("driver actor: close-and-forward extracted into a helper shared by the failure and the cancel handler", "keep", _D, "        self.logger.error(\"Main driver received a fatal exception from a load generator. Shutting down.\")\n        self.driver.close()\n        self.send(self.benchmark_actor, msg)",
       "        self.logger.error(\"Main driver received a fatal exception from a load generator. Shutting down.\")\n        self._shutdown_and_forward(msg)"),
     V("", "keep", _D, "        self.logger.info(\"Main driver received a notification that the benchmark has been cancelled.\")\n        self.driver.close()\n        self.send(self.benchmark_actor, msg)",
       "        self.logger.info(\"Main driver received a notification that the benchmark has been cancelled.\")\n        self._shutdown_and_forward(msg)\n\n    def _shutdown_and_forward(self, msg):\n        self.driver.close()\n        self.send(self.benchmark_actor, msg)")],
    [V("the shared close-and-forward helper forwards only while the benchmark runs", "break", _D, "        self.logger.error(\"Main driver received a fatal exception from a load generator. Shutting down.\")\n        self.driver.close()\n        self.send(self.benchmark_actor, msg)",
       "        self.logger.error(\"Main driver received a fatal exception from a load generator. Shutting down.\")\n        self._shutdown_and_forward(msg)", "O9.3"),
     V("", "break", _D, "        self.logger.info(\"Main driver received a notification that the benchmark has been cancelled.\")\n        self.driver.close()\n        self.send(self.benchmark_actor, msg)",
       "        self.logger.info(\"Main driver received a notification that the benchmark has been cancelled.\")\n        self._shutdown_and_forward(msg)\n\n    def _shutdown_and_forward(self, msg):\n        self.driver.close()\n        if self.status != \"init\":\n            self.send(self.benchmark_actor, msg)")],
    [V("race control raises the flag through a method of the coordinator", "keep", _R, "        self.coordinator.error = True\n        self.send(self.start_sender, msg)\n\n    @actor.no_retry(\"race control\")  # pylint: disable=no-value-for-parameter\n    def receiveMsg_BenchmarkComplete",
       "        self.coordinator.mark_failed()\n        self.send(self.start_sender, msg)\n\n    @actor.no_retry(\"race control\")  # pylint: disable=no-value-for-parameter\n    def receiveMsg_BenchmarkComplete"),
     V("", "keep", _R, "    def on_task_finished(self, new_metrics):", "    def mark_failed(self):\n        self.error = True\n\n    def on_task_finished(self, new_metrics):")],
    [V("the coordinator's mark_failed() raises the flag on one path only", "break", _R, "        self.coordinator.error = True\n        self.send(self.start_sender, msg)\n\n    @actor.no_retry(\"race control\")  # pylint: disable=no-value-for-parameter\n    def receiveMsg_BenchmarkComplete",
       "        self.coordinator.mark_failed()\n        self.send(self.start_sender, msg)\n\n    @actor.no_retry(\"race control\")  # pylint: disable=no-value-for-parameter\n    def receiveMsg_BenchmarkComplete", "O9.3"),
     V("", "break", _R, "    def on_task_finished(self, new_metrics):", "    def mark_failed(self):\n        if self.race is not None:\n            self.error = True\n\n    def on_task_finished(self, new_metrics):")],
    V("dispatcher re-wraps the failure before it passes it on", "keep", _M, "    def receiveMsg_BenchmarkFailure(self, msg, sender):\n        self.send(self.start_sender, msg)",
      "    def receiveMsg_BenchmarkFailure(self, msg, sender):\n        self.send(self.start_sender, actor.BenchmarkFailure(msg.message, msg.cause))"),
    # ---- hardening round 3: the request of the load generator by role (the execute_single call wherever it sits), the cancel test decided on the control-flow graph ----------
    [V("executor: the request extracted into a helper method (benign C18-b6)", "keep", _D, _X_REQ + "\n", _X_HELPER_CALL % ""),
     V("", "keep", _D, _X_CALLDEF, _X_HELPER % ("", "self.on_error") + _X_CALLDEF)],
    [V("executor: the request helper receives the error behaviour as a parameter", "keep", _D, _X_REQ + "\n", _X_HELPER_CALL % ", self.on_error"),
     V("", "keep", _D, _X_CALLDEF, _X_HELPER % (", on_error", "on_error") + _X_CALLDEF)],
    [V("executor: the request helper is handed a CONSTANT error behaviour", "break", _D, _X_REQ + "\n", _X_HELPER_CALL % ", \"continue\"", "O9.9"),
     V("", "break", _D, _X_CALLDEF, _X_HELPER % (", on_error", "on_error") + _X_CALLDEF)],
    [V("executor: the request helper swallows what the request raises", "break", _D, _X_REQ + "\n", _X_HELPER_CALL % "", "O9.5"),
     V("", "break", _D, _X_CALLDEF, "    async def _execute_request(self, runner, params):\n        try:\n            with self.es[\"default\"].new_request_context() as request_context:\n"
       "                total_ops, total_ops_unit, request_meta_data = await execute_single(runner, self.es, params, self.on_error)\n"
       "                return total_ops, total_ops_unit, request_meta_data, request_context.request_start, request_context.request_end\n"
       "        except Exception:\n            self.logger.exception(\"request failed\")\n            return 0, \"ops\", {\"success\": False}, 0, 0\n\n" + _X_CALLDEF)],
    [V("executor: the error behaviour hoisted into a local before the loop and passed by keyword", "keep", _D, "        total_start = time.perf_counter()\n        # lazily initialize the schedule",
       "        total_start = time.perf_counter()\n        on_error = self.on_error\n        # lazily initialize the schedule"),
     V("", "keep", _D, "execute_single(runner, self.es, params, self.on_error)", "execute_single(runner, self.es, params, on_error=on_error)")],
    [V("request loop: the cancel test is a predicate helper of the executor", "keep", _D, _X_CANCEL, _X_CANCEL.replace("self.cancel.is_set()", "self._cancelled()")),
     V("", "keep", _D, _X_CALLDEF, "    def _cancelled(self):\n        \"\"\"has the user cancelled?\"\"\"\n        return self.cancel.is_set()\n\n" + _X_CALLDEF)],
    [V("request loop: the predicate helper reads the OTHER event (complete)", "break", _D, _X_CANCEL, _X_CANCEL.replace("self.cancel.is_set()", "self._cancelled()"), "O9.9"),
     V("", "break", _D, _X_CALLDEF, "    def _cancelled(self):\n        return self.complete.is_set()\n\n" + _X_CALLDEF)],
    V("request loop: cancel test merged with another stop condition", "keep", _D, _X_CANCEL, _X_CANCEL.replace("self.cancel.is_set()", "self.cancel.is_set() or runner is None")),
    V("request loop: cancelled iterations are skipped but the loop goes on", "break", _D, _X_CANCEL, _X_CANCEL.replace("                    break\n", "                    continue\n"), "O9.9"),
    [V("request loop: the cancel test comes after the request", "break", _D, _X_CANCEL, "", "O9.9"),
     V("", "break", _D, "                processing_end = time.perf_counter()\n", _X_CANCEL + "                processing_end = time.perf_counter()\n")],
    V("executor: the whole request loop moved into a helper method", "keep", _D, _X_CALL_RE, _x_loop_helper(), regex=True),
    V("executor: loop in a helper method that goes on when cancelled", "break", _D, _X_CALL_RE,
      _x_loop_helper(lambda h: h.replace("self.logger.info(\"User cancelled execution.\")\n                break", "self.logger.info(\"User cancelled execution.\")\n                continue")), "O9.9", regex=True),
    [V("executor: loop in a helper method and the caller's broad handler swallows", "break", _D, _X_CALL_RE, _x_loop_helper(), "O9.5", regex=True),
     V("", "break", _D, "            raise exceptions.RallyError(f\"Cannot run task [{self.task}]: {e}\") from None\n", "            pass\n")],
    V("executor: the loop body with the cancel test moved into a helper that returns whether to stop", "keep", _D, _X_CALL_RE, _x_body_helper(), regex=True),
    V("executor: the extracted loop body returns False when cancelled", "break", _D, _X_CALL_RE, _x_body_helper(when_cancelled="False"), "O9.9", regex=True),
    V("executor: the extracted loop body returns early when NOT cancelled", "break", _D, _X_CALL_RE, _x_body_helper(test="not self.cancel.is_set()"), "O9.9", regex=True),
    V("adapter: the task's error behaviour bound to a local and passed by keyword", "keep", _D, _X_CTOR,
      "            on_error = task.error_behavior(default_error_behavior=self.abort_on_error)\n"
      "            async_executor = AsyncExecutor(client_id, task, schedule, es, self.sampler, self.cancel, self.complete, on_error=on_error)\n"),
    V("adapter: the allocation's task asked inline", "keep", _D, _X_CTOR,
      "            async_executor = AsyncExecutor(client_id, task, schedule, es, self.sampler, self.cancel, self.complete, task_allocation.task.error_behavior(self.abort_on_error))\n"),
    V("adapter: the raw on-error setting handed to the executor (task not asked)", "break", _D, _X_CTOR,
      "            async_executor = AsyncExecutor(client_id, task, schedule, es, self.sampler, self.cancel, self.complete, self.abort_on_error)\n", "O9.9"),
    [V("adapter: the error behaviour computed by a helper method of the adapter", "keep", _D, _X_CTOR,
       "            async_executor = AsyncExecutor(client_id, task, schedule, es, self.sampler, self.cancel, self.complete, self._on_error_for(task))\n"),
     V("", "keep", _D, _X_ADP_CALL, "    def _on_error_for(self, task):\n        return task.error_behavior(self.abort_on_error)\n\n" + _X_ADP_CALL)],
    [V("adapter: the helper is asked with the allocation instead of the task", "break", _D, _X_CTOR,
       "            async_executor = AsyncExecutor(client_id, task, schedule, es, self.sampler, self.cancel, self.complete, self._on_error_for(task_allocation))\n", "O9.9"),
     V("", "break", _D, _X_ADP_CALL, "    def _on_error_for(self, task):\n        return task.error_behavior(self.abort_on_error)\n\n" + _X_ADP_CALL)],
    [V("Ctrl+C: the blocking notification extracted into a module-level helper", "keep", _R, _X_KH, "        _notify_cancelled(actor_system, benchmark_actor)\n" + _X_KH.split("\n", 1)[1]),
     V("", "keep", _R, "def race(cfg: types.Config", "def _notify_cancelled(actor_system, benchmark_actor):\n    actor_system.ask(benchmark_actor, actor.BenchmarkCancelled())\n\n\ndef race(cfg: types.Config")],
    [V("Ctrl+C: the extracted helper only logs", "break", _R, _X_KH, "        _notify_cancelled(actor_system, benchmark_actor)\n" + _X_KH.split("\n", 1)[1], "O9.9"),
     V("", "break", _R, "def race(cfg: types.Config", "def _notify_cancelled(actor_system, benchmark_actor):\n    logging.getLogger(__name__).info(\"cancelled\")\n\n\ndef race(cfg: types.Config")],
    [V("Ctrl+C: the extracted helper notifies without waiting (tell)", "break", _R, _X_KH, "        _notify_cancelled(actor_system, benchmark_actor)\n" + _X_KH.split("\n", 1)[1], "O9.9"),
     V("", "break", _R, "def race(cfg: types.Config", "def _notify_cancelled(actor_system, benchmark_actor):\n    actor_system.tell(benchmark_actor, actor.BenchmarkCancelled())\n\n\ndef race(cfg: types.Config")],
    V("dispatcher re-wraps the failure but only logs it", "break", _M, "    def receiveMsg_BenchmarkFailure(self, msg, sender):\n        self.send(self.start_sender, msg)",
      "    def receiveMsg_BenchmarkFailure(self, msg, sender):\n        failure = actor.BenchmarkFailure(msg.message, msg.cause)\n        self.logger.error(\"%s\", failure)", "O9."),
    # ---- strengthening round 5 (seeds m14, m15) ---------------------------------------------------------------------------------------------------------------------------
    # O9.9s: the cancel event stands for a cancellation by the user only
    V("seed m14: a failing client sets the shared cancel event (fail fast)", "break", _D, "            self.logger.exception(\"Could not execute schedule\")\n",
      "            self.logger.exception(\"Could not execute schedule\")\n            self.cancel.set()\n", "O9.9s"),
    V("the adapter sets the cancel event when one of its clients fails", "break", _D, "            _ = await asyncio.gather(*awaitables)\n        finally:\n",
      "            _ = await asyncio.gather(*awaitables)\n        except BaseException:\n            self.cancel.set()\n            raise\n        finally:\n", "O9.9s"),
    V("the executor sets the cancel event through a local alias when it ends early", "break", _D, "        finally:\n            # Actively set it if this task completes its parent\n",
      "        finally:\n            stop_others = self.cancel\n            if not task_completes_parent:\n                stop_others.set()\n            # Actively set it if this task completes its parent\n", "O9.9s"),
    [V("the failing client sets the event in a helper function of the module it hands it to", "break", _D, "            self.logger.exception(\"Could not execute schedule\")\n",
       "            self.logger.exception(\"Could not execute schedule\")\n            _stop_clients(self.cancel)\n", "O9.9s"),
     V("", "break", _D, "async def execute_single(runner, es, params, on_error):\n", "def _stop_clients(event):\n    event.set()\n\n\nasync def execute_single(runner, es, params, on_error):\n")],
    V("the worker's wake-up sets the cancel event when the finished future holds an exception, then answers as if the user had cancelled", "break", _D,
      "            if self.cancel.is_set():\n                self.logger.info(\"Worker[%s] has detected that benchmark has been cancelled. Notifying master...\", str(self.worker_id))\n",
      "            if self.executor_future is not None and self.executor_future.done() and self.executor_future.exception(timeout=0):\n                self.cancel.set()\n"
      "            if self.cancel.is_set():\n                self.logger.info(\"Worker[%s] has detected that benchmark has been cancelled. Notifying master...\", str(self.worker_id))\n", "O9.9"),
    V("the worker stops its clients after it has passed on a failure of one of its own handlers", "keep", _D, "        # sent by our no_retry infrastructure; forward to master\n        self.send(self.driver_actor, msg)\n",
      "        # sent by our no_retry infrastructure; forward to master\n        self.send(self.driver_actor, msg)\n        self.cancel.set()\n"),
    V("the worker sets the cancel event right after it has reported the failure of the load generator", "keep", _D,
      "                    self.send(self.driver_actor, actor.BenchmarkFailure(f\"Error in load generator [{self.worker_id}]\", str(e)))\n",
      "                    self.send(self.driver_actor, actor.BenchmarkFailure(f\"Error in load generator [{self.worker_id}]\", str(e)))\n                    self.cancel.set()\n"),
    V("exit request sets the cancel event through a local alias", "keep", _D, "            self.cancel.set()\n        self.pool.shutdown()\n", "            event = self.cancel\n            event.set()\n        self.pool.shutdown()\n"),
    V("adapter hands the events to the executor by keyword", "keep", _D, _X_CTOR,
      "            async_executor = AsyncExecutor(client_id, task, schedule, es, self.sampler, cancel=self.cancel, complete=self.complete, on_error=task.error_behavior(self.abort_on_error))\n"),
    V("the executor's broad handler logs whether the user had cancelled", "keep", _D, "            self.logger.exception(\"Could not execute schedule\")\n",
      "            self.logger.exception(\"Could not execute schedule (cancelled: %s)\", self.cancel.is_set())\n"),
    # O9.5f: a refused connection is fatal whatever else the exception carries
    [V("seed m15: the fatal classification became the elif of the block that reads e.errors", "break", _D,
       "        # we *specifically* want to distinguish connection refused (a node died?) from connection timeouts\n        # pylint: disable=unidiomatic-typecheck\n"
       "        if type(e) is elasticsearch.ConnectionError:\n            fatal_error = True\n\n", "", "O9.5f"),
     V("", "break", _D, "                request_meta_data[\"http-status\"] = e.errors[0].status\n",
       "                request_meta_data[\"http-status\"] = e.errors[0].status\n        elif type(e) is elasticsearch.ConnectionError:\n            fatal_error = True\n")],
    V("a connection error is fatal only when the transport did not retry", "break", _D, "        if type(e) is elasticsearch.ConnectionError:\n", "        if type(e) is elasticsearch.ConnectionError and not e.errors:\n", "O9.5f"),
    V("the fatal flag is taken back when an earlier attempt is on record", "break", _D, "        if e.errors:\n            if hasattr(e.errors[0], \"status\"):\n",
      "        if e.errors:\n            fatal_error = False\n            if hasattr(e.errors[0], \"status\"):\n", "O9.5f"),
    V("a fatal error with an HTTP status on record does not abort", "break", _D, "        if on_error == \"abort\" or fatal_error:\n",
      "        if on_error == \"abort\" or (fatal_error and \"http-status\" not in request_meta_data):\n", "O9.5"),
    V("fatal classification as one assignment", "keep", _D, "        if type(e) is elasticsearch.ConnectionError:\n            fatal_error = True\n", "        fatal_error = type(e) is elasticsearch.ConnectionError\n"),
    [V("fatal classification moved below the block that reads e.errors, as an if of its own", "keep", _D,
       "        # we *specifically* want to distinguish connection refused (a node died?) from connection timeouts\n        # pylint: disable=unidiomatic-typecheck\n"
       "        if type(e) is elasticsearch.ConnectionError:\n            fatal_error = True\n\n", ""),
     V("", "keep", _D, "                request_meta_data[\"http-status\"] = e.errors[0].status\n",
       "                request_meta_data[\"http-status\"] = e.errors[0].status\n        if type(e) is elasticsearch.ConnectionError:\n            fatal_error = True\n")],
    # O9.5p: the polled exception reaches the message as text (seed C09-m16)
    V("seed m16: the task executor ships the raw exception object as the cause", "break", _D, "actor.BenchmarkFailure(\"Error in task executor\", str(e))", "actor.BenchmarkFailure(\"Error in task executor\", e)", "O9.5p"),
    V("worker ships the exception object when it is one of rally's own, the text otherwise", "break", _D, "actor.BenchmarkFailure(f\"Error in load generator [{self.worker_id}]\", str(e))",
      "actor.BenchmarkFailure(f\"Error in load generator [{self.worker_id}]\", e if isinstance(e, exceptions.RallyError) else str(e))", "O9.5p"),
    V("task executor: a reporting helper puts the exception object it is handed into the message", "break", _D, "                self.send(self.task_preparation_actor, actor.BenchmarkFailure(\"Error in task executor\", str(e)))\n            else:\n                self.executor_future = None\n                self.send(self.task_preparation_actor, ReadyForWork())\n        else:\n            self.wakeupAfter(datetime.timedelta(seconds=self.wakeup_interval))\n",
      "                self._report(e)\n            else:\n                self.executor_future = None\n                self.send(self.task_preparation_actor, ReadyForWork())\n        else:\n            self.wakeupAfter(datetime.timedelta(seconds=self.wakeup_interval))\n\n    def _report(self, error):\n        failure = actor.BenchmarkFailure(\"Error in task executor\", cause=error)\n        self.send(self.task_preparation_actor, failure)\n", "O9.5p"),
    V("worker sends the exception's type name and text as a tuple", "break", _D, "actor.BenchmarkFailure(f\"Error in load generator [{self.worker_id}]\", str(e))",
      "actor.BenchmarkFailure(f\"Error in load generator [{self.worker_id}]\", (type(e).__name__, e))", "O9.5p"),
    V("task executor: cause converted with repr through a local", "keep", _D, "                self.send(self.task_preparation_actor, actor.BenchmarkFailure(\"Error in task executor\", str(e)))\n",
      "                cause = repr(e)\n                self.send(self.task_preparation_actor, actor.BenchmarkFailure(\"Error in task executor\", cause))\n"),
    V("worker: cause formatted with the exception's type name", "keep", _D, "actor.BenchmarkFailure(f\"Error in load generator [{self.worker_id}]\", str(e))",
      "actor.BenchmarkFailure(f\"Error in load generator [{self.worker_id}]\", f\"{type(e).__name__}: {e}\")"),
    V("worker: cause formatted with the % operator", "keep", _D, "actor.BenchmarkFailure(f\"Error in load generator [{self.worker_id}]\", str(e))",
      "actor.BenchmarkFailure(f\"Error in load generator [{self.worker_id}]\", \"%s\" % e)"),
    # O9.9: the value that reaches Task.error_behavior for the configured setting is of the kind the function compares it with (seed C09-m18)
    V("seed m18: the worker hands the on-error setting to the load generator as a flag", "break", _D, "                    self.on_error,\n                    self.client_contexts,", "                    self.on_error == \"abort\",\n                    self.client_contexts,", "O9.9"),
    V("the load generator keeps the on-error setting as a flag", "break", _D, "        self.abort_on_error = abort_on_error\n", "        self.abort_on_error = abort_on_error == \"abort\"\n", "O9.9"),
    V("the worker stores the on-error setting as a flag", "break", _D, "        self.on_error = self.config.opts(\"driver\", \"on.error\")\n", "        self.on_error = self.config.opts(\"driver\", \"on.error\") == \"abort\"\n", "O9.9"),
    V("the worker hands the on-error setting over in upper case", "break", _D, "                    self.on_error,\n                    self.client_contexts,", "                    self.on_error.upper(),\n                    self.client_contexts,", "O9.9"),
    V("the worker hands the on-error setting over through str()", "keep", _D, "                    self.on_error,\n                    self.client_contexts,", "                    str(self.on_error),\n                    self.client_contexts,"),
    V("the worker normalises the on-error setting when it stores it", "keep", _D, "        self.on_error = self.config.opts(\"driver\", \"on.error\")\n", "        self.on_error = self.config.opts(\"driver\", \"on.error\").strip().lower()\n"),
    [V("the on-error setting travels as a flag and error_behavior tests the flag", "keep", _D, "                    self.on_error,\n                    self.client_contexts,", "                    self.on_error == \"abort\",\n                    self.client_contexts,"),
     V("", "keep", "esrally/track/track.py", "        if default_error_behavior == \"abort\":\n", "        if default_error_behavior:\n")],
    [V("the setting travels as a flag but error_behavior tests it the wrong way round", "break", _D, "                    self.on_error,\n                    self.client_contexts,", "                    self.on_error == \"abort\",\n                    self.client_contexts,", "O9.9"),
     V("", "break", "esrally/track/track.py", "        if default_error_behavior == \"abort\":\n", "        if not default_error_behavior:\n")],
    # O9.4: the reporting helper of benign/C09-b12 - three constructions of the driver actor become one, inside `_report_failure(message, cause=None)`; the reports are its call sites
    _x_report_helper("        self.send(self.benchmark_actor, actor.BenchmarkFailure(message, cause))\n", "keep", "driver actor reports failures through _report_failure(message, cause)"),
    _x_report_helper("        failure = actor.BenchmarkFailure(message, cause)\n        self.send(self.benchmark_actor, failure)\n", "keep", "_report_failure binds the message to a local before it sends it"),
    _x_report_helper("        self.logger.error(\"%s\", actor.BenchmarkFailure(message, cause))\n", "break", "_report_failure only logs the failure message it builds", "O9.4"),
    _x_report_helper("        self.send(None, actor.BenchmarkFailure(message, cause))\n", "break", "_report_failure sends the failure to None instead of an actor address", "O9.4"),
    V("fatal classification spelled with __class__ the other way round, meta data built with update()", "keep", _D,
      "        if type(e) is elasticsearch.ConnectionError:\n            fatal_error = True\n\n        total_ops = 0\n        total_ops_unit = \"ops\"\n        request_meta_data = {\"success\": False, \"error-type\": \"transport\"}\n",
      "        if elasticsearch.ConnectionError == e.__class__:\n            fatal_error = True\n\n        total_ops = 0\n        total_ops_unit = \"ops\"\n        request_meta_data = {\"success\": False}\n        request_meta_data.update({\"error-type\": \"transport\"})\n"),
]
